//! Reference LC-3 instruction set: encoding and decoding written from the ISA tables
//! (Patt & Patel, appendix A), independent of the subject's `SimInstr`.

#[derive(Clone, Copy, Debug, PartialEq, Eq, Hash)]
pub enum RI {
    Br { nzp: u8, off: i16 },
    Add { dr: u8, sr1: u8, sr2: u8 },
    AddI { dr: u8, sr1: u8, imm: i16 },
    And { dr: u8, sr1: u8, sr2: u8 },
    AndI { dr: u8, sr1: u8, imm: i16 },
    Ld { dr: u8, off: i16 },
    St { sr: u8, off: i16 },
    Jsr { off: i16 },
    Jsrr { base: u8 },
    Ldr { dr: u8, base: u8, off: i16 },
    Str { sr: u8, base: u8, off: i16 },
    Rti,
    Not { dr: u8, sr: u8 },
    Ldi { dr: u8, off: i16 },
    Sti { sr: u8, off: i16 },
    Jmp { base: u8 },
    Lea { dr: u8, off: i16 },
    Trap { vect: u8 },
}

#[derive(Clone, Copy, Debug, PartialEq, Eq, Hash)]
pub enum RDecErr { IllegalOpcode, InvalidFormat }

pub fn sext(v: u16, bits: u32) -> i16 {
    let sh = 16 - bits;
    ((v << sh) as i16) >> sh
}
fn field(w: u16, hi: u32, lo: u32) -> u16 { (w >> lo) & ((1u32 << (hi - lo + 1)) - 1) as u16 }

/// Decodes a word; a word decodes iff it is the canonical encoding of an instruction
/// (all must-be-zero bits zero, NOT's low six bits all one).
pub fn decode(w: u16) -> Result<RI, RDecErr> {
    let op = w >> 12;
    let r11_9 = field(w, 11, 9) as u8;
    let r8_6 = field(w, 8, 6) as u8;
    let r2_0 = field(w, 2, 0) as u8;
    let off9 = sext(w & 0x1FF, 9);
    let off6 = sext(w & 0x3F, 6);
    let imm5 = sext(w & 0x1F, 5);
    match op {
        0b0000 => Ok(RI::Br { nzp: r11_9, off: off9 }),
        0b0001 | 0b0101 => {
            if w & 0x20 != 0 {
                Ok(if op == 1 { RI::AddI { dr: r11_9, sr1: r8_6, imm: imm5 } } else { RI::AndI { dr: r11_9, sr1: r8_6, imm: imm5 } })
            } else if w & 0x18 != 0 {
                Err(RDecErr::InvalidFormat)
            } else {
                Ok(if op == 1 { RI::Add { dr: r11_9, sr1: r8_6, sr2: r2_0 } } else { RI::And { dr: r11_9, sr1: r8_6, sr2: r2_0 } })
            }
        }
        0b0010 => Ok(RI::Ld { dr: r11_9, off: off9 }),
        0b0011 => Ok(RI::St { sr: r11_9, off: off9 }),
        0b0100 => {
            if w & 0x0800 != 0 { Ok(RI::Jsr { off: sext(w & 0x7FF, 11) }) }
            else if w & 0x063F != 0 { Err(RDecErr::InvalidFormat) }
            else { Ok(RI::Jsrr { base: r8_6 }) }
        }
        0b0110 => Ok(RI::Ldr { dr: r11_9, base: r8_6, off: off6 }),
        0b0111 => Ok(RI::Str { sr: r11_9, base: r8_6, off: off6 }),
        0b1000 => if w & 0x0FFF != 0 { Err(RDecErr::InvalidFormat) } else { Ok(RI::Rti) },
        0b1001 => if w & 0x3F != 0x3F { Err(RDecErr::InvalidFormat) } else { Ok(RI::Not { dr: r11_9, sr: r8_6 }) },
        0b1010 => Ok(RI::Ldi { dr: r11_9, off: off9 }),
        0b1011 => Ok(RI::Sti { sr: r11_9, off: off9 }),
        0b1100 => if w & 0x0E3F != 0 { Err(RDecErr::InvalidFormat) } else { Ok(RI::Jmp { base: r8_6 }) },
        0b1101 => Err(RDecErr::IllegalOpcode),
        0b1110 => Ok(RI::Lea { dr: r11_9, off: off9 }),
        0b1111 => if w & 0x0F00 != 0 { Err(RDecErr::InvalidFormat) } else { Ok(RI::Trap { vect: (w & 0xFF) as u8 }) },
        _ => unreachable!(),
    }
}

pub fn encode(i: RI) -> u16 {
    let r = |x: u8, sh: u32| ((x as u16) & 7) << sh;
    let o = |x: i16, bits: u32| (x as u16) & (((1u32 << bits) - 1) as u16);
    match i {
        RI::Br { nzp, off } => r(nzp, 9) | o(off, 9),
        RI::Add { dr, sr1, sr2 } => 0x1000 | r(dr, 9) | r(sr1, 6) | r(sr2, 0),
        RI::AddI { dr, sr1, imm } => 0x1000 | r(dr, 9) | r(sr1, 6) | 0x20 | o(imm, 5),
        RI::And { dr, sr1, sr2 } => 0x5000 | r(dr, 9) | r(sr1, 6) | r(sr2, 0),
        RI::AndI { dr, sr1, imm } => 0x5000 | r(dr, 9) | r(sr1, 6) | 0x20 | o(imm, 5),
        RI::Ld { dr, off } => 0x2000 | r(dr, 9) | o(off, 9),
        RI::St { sr, off } => 0x3000 | r(sr, 9) | o(off, 9),
        RI::Jsr { off } => 0x4800 | o(off, 11),
        RI::Jsrr { base } => 0x4000 | r(base, 6),
        RI::Ldr { dr, base, off } => 0x6000 | r(dr, 9) | r(base, 6) | o(off, 6),
        RI::Str { sr, base, off } => 0x7000 | r(sr, 9) | r(base, 6) | o(off, 6),
        RI::Rti => 0x8000,
        RI::Not { dr, sr } => 0x9000 | r(dr, 9) | r(sr, 6) | 0x3F,
        RI::Ldi { dr, off } => 0xA000 | r(dr, 9) | o(off, 9),
        RI::Sti { sr, off } => 0xB000 | r(sr, 9) | o(off, 9),
        RI::Jmp { base } => 0xC000 | r(base, 6),
        RI::Lea { dr, off } => 0xE000 | r(dr, 9) | o(off, 9),
        RI::Trap { vect } => 0xF000 | vect as u16,
    }
}

// ---- mapping from the subject's SimInstr
use lc3_ensemble::ast::sim::SimInstr;
use lc3_ensemble::ast::ImmOrReg;

pub fn from_sim(i: &SimInstr) -> RI {
    let rn = |r: &lc3_ensemble::ast::Reg| r.reg_no();
    match i {
        SimInstr::BR(cc, off) => RI::Br { nzp: *cc, off: off.get() },
        SimInstr::ADD(d, s, ImmOrReg::Reg(r)) => RI::Add { dr: rn(d), sr1: rn(s), sr2: rn(r) },
        SimInstr::ADD(d, s, ImmOrReg::Imm(i)) => RI::AddI { dr: rn(d), sr1: rn(s), imm: i.get() },
        SimInstr::AND(d, s, ImmOrReg::Reg(r)) => RI::And { dr: rn(d), sr1: rn(s), sr2: rn(r) },
        SimInstr::AND(d, s, ImmOrReg::Imm(i)) => RI::AndI { dr: rn(d), sr1: rn(s), imm: i.get() },
        SimInstr::LD(d, o) => RI::Ld { dr: rn(d), off: o.get() },
        SimInstr::ST(s, o) => RI::St { sr: rn(s), off: o.get() },
        SimInstr::JSR(ImmOrReg::Imm(o)) => RI::Jsr { off: o.get() },
        SimInstr::JSR(ImmOrReg::Reg(b)) => RI::Jsrr { base: rn(b) },
        SimInstr::LDR(d, b, o) => RI::Ldr { dr: rn(d), base: rn(b), off: o.get() },
        SimInstr::STR(s, b, o) => RI::Str { sr: rn(s), base: rn(b), off: o.get() },
        SimInstr::RTI => RI::Rti,
        SimInstr::NOT(d, s) => RI::Not { dr: rn(d), sr: rn(s) },
        SimInstr::LDI(d, o) => RI::Ldi { dr: rn(d), off: o.get() },
        SimInstr::STI(s, o) => RI::Sti { sr: rn(s), off: o.get() },
        SimInstr::JMP(b) => RI::Jmp { base: rn(b) },
        SimInstr::LEA(d, o) => RI::Lea { dr: rn(d), off: o.get() },
        SimInstr::TRAP(v) => RI::Trap { vect: v.get() as u8 },
    }
}

pub fn reg(n: u8) -> lc3_ensemble::ast::Reg { lc3_ensemble::ast::Reg::try_from(n & 7).unwrap() }

/// Builds the subject's `SimInstr` for a reference instruction (used to enumerate every representable instruction).
pub fn to_sim(i: RI) -> SimInstr {
    use lc3_ensemble::ast::Offset;
    match i {
        RI::Br { nzp, off } => SimInstr::BR(nzp, Offset::new(off).unwrap()),
        RI::Add { dr, sr1, sr2 } => SimInstr::ADD(reg(dr), reg(sr1), ImmOrReg::Reg(reg(sr2))),
        RI::AddI { dr, sr1, imm } => SimInstr::ADD(reg(dr), reg(sr1), ImmOrReg::Imm(Offset::new(imm).unwrap())),
        RI::And { dr, sr1, sr2 } => SimInstr::AND(reg(dr), reg(sr1), ImmOrReg::Reg(reg(sr2))),
        RI::AndI { dr, sr1, imm } => SimInstr::AND(reg(dr), reg(sr1), ImmOrReg::Imm(Offset::new(imm).unwrap())),
        RI::Ld { dr, off } => SimInstr::LD(reg(dr), Offset::new(off).unwrap()),
        RI::St { sr, off } => SimInstr::ST(reg(sr), Offset::new(off).unwrap()),
        RI::Jsr { off } => SimInstr::JSR(ImmOrReg::Imm(Offset::new(off).unwrap())),
        RI::Jsrr { base } => SimInstr::JSR(ImmOrReg::Reg(reg(base))),
        RI::Ldr { dr, base, off } => SimInstr::LDR(reg(dr), reg(base), Offset::new(off).unwrap()),
        RI::Str { sr, base, off } => SimInstr::STR(reg(sr), reg(base), Offset::new(off).unwrap()),
        RI::Rti => SimInstr::RTI,
        RI::Not { dr, sr } => SimInstr::NOT(reg(dr), reg(sr)),
        RI::Ldi { dr, off } => SimInstr::LDI(reg(dr), Offset::new(off).unwrap()),
        RI::Sti { sr, off } => SimInstr::STI(reg(sr), Offset::new(off).unwrap()),
        RI::Jmp { base } => SimInstr::JMP(reg(base)),
        RI::Lea { dr, off } => SimInstr::LEA(reg(dr), Offset::new(off).unwrap()),
        RI::Trap { vect } => SimInstr::TRAP(Offset::new(vect as u16).unwrap()),
    }
}

/// Every representable instruction (exhaustive over opcode, registers and field values): 25 233 instructions.
pub fn all_instrs() -> Vec<RI> {
    let mut v = vec![];
    for nzp in 0..8u8 { for off in -256..256i16 { v.push(RI::Br { nzp, off }); } }
    for dr in 0..8u8 { for sr1 in 0..8u8 {
        for sr2 in 0..8u8 { v.push(RI::Add { dr, sr1, sr2 }); v.push(RI::And { dr, sr1, sr2 }); }
        for imm in -16..16i16 { v.push(RI::AddI { dr, sr1, imm }); v.push(RI::AndI { dr, sr1, imm }); }
        for off in -32..32i16 { v.push(RI::Ldr { dr, base: sr1, off }); v.push(RI::Str { sr: dr, base: sr1, off }); }
        v.push(RI::Not { dr, sr: sr1 });
    } }
    for dr in 0..8u8 { for off in -256..256i16 {
        v.push(RI::Ld { dr, off }); v.push(RI::St { sr: dr, off }); v.push(RI::Ldi { dr, off });
        v.push(RI::Sti { sr: dr, off }); v.push(RI::Lea { dr, off });
    } }
    for off in -1024..1024i16 { v.push(RI::Jsr { off }); }
    for base in 0..8u8 { v.push(RI::Jsrr { base }); v.push(RI::Jmp { base }); }
    v.push(RI::Rti);
    for vect in 0..=255u8 { v.push(RI::Trap { vect }); }
    v
}
