//! RefLink — link semantics over RefAsm outputs (C20): success iff blocks disjoint and no label defined at two addresses;
//! image = union with resolved externals; labels; external flags; pending relocations.
use super::asm::RefObj;
use std::collections::{BTreeMap, BTreeSet};

#[derive(Clone, Debug, PartialEq, Eq, Default)]
pub struct Linked {
    pub image: BTreeMap<u16, Option<u16>>,
    pub labels: BTreeMap<String, (u16, bool)>,
    pub relocs: BTreeMap<u16, String>,
}
#[derive(Clone, Copy, Debug, PartialEq, Eq)]
pub enum LinkFail { Overlap, LabelConflict, Both }

pub fn link(files: &[&RefObj]) -> Result<Linked, LinkFail> {
    let mut seen: BTreeSet<u16> = BTreeSet::new();
    let mut overlap = false;
    for f in files { for a in f.image.keys() { if !seen.insert(*a) { overlap = true; } } }
    let mut defs: BTreeMap<String, BTreeSet<u16>> = BTreeMap::new();
    let mut names: BTreeSet<String> = BTreeSet::new();
    for f in files { for (n, (a, ext)) in &f.labels { names.insert(n.clone()); if !*ext { defs.entry(n.clone()).or_default().insert(*a); } } }
    let conflict = defs.values().any(|s| s.len() > 1);
    match (overlap, conflict) { (true, true) => return Err(LinkFail::Both), (true, false) => return Err(LinkFail::Overlap), (false, true) => return Err(LinkFail::LabelConflict), _ => {} }
    let mut out = Linked::default();
    for f in files { for (a, w) in &f.image { out.image.insert(*a, *w); } }
    for n in names {
        match defs.get(&n).and_then(|s| s.iter().next()) { Some(a) => { out.labels.insert(n, (*a, false)); } None => { out.labels.insert(n, (0, true)); } }
    }
    for f in files { for (a, l) in &f.relocs {
        match out.labels.get(l) {
            Some((t, false)) => { out.image.insert(*a, Some(*t)); }
            _ => { out.relocs.insert(*a, l.clone()); }
        }
    } }
    Ok(out)
}

use lc3_ensemble::asm::encoding::{ObjFileFormat, TextFormat};
use lc3_ensemble::asm::ObjectFile;
/// Observes an object file through its public surface: image, labels, and (via the documented text format) pending relocations.
pub fn observe(o: &ObjectFile) -> Linked {
    let mut out = Linked::default();
    for (a, w) in o.addr_iter() { out.image.insert(a, w); }
    if let Some(s) = o.symbol_table() { for (n, a, e) in s.label_iter() { out.labels.insert(n.to_uppercase(), (a, e)); } }
    let text = TextFormat::serialize(o);
    let mut in_sec = false;
    for line in text.lines() {
        if line.starts_with('.') { in_sec = line.trim() == ".LINKER_INFO"; continue; }
        if !in_sec || line.trim().is_empty() || line.starts_with("ADDR") { continue; }
        if let Some((a, l)) = line.split_once(" | ") { if let Ok(a) = u16::from_str_radix(a.trim(), 16) { out.relocs.insert(a, l.trim().to_uppercase()); } }
    }
    out
}
