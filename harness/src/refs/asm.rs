//! RefAsm — an independent two-pass assembler over abstract programs, written from the LC-3 ISA and the
//! property statements (C01/C02), not from the subject's assembler.
use crate::gen::prog::*;
use crate::refs::isa::{encode, RI};
use std::collections::{BTreeMap, BTreeSet};

#[derive(Clone, Copy, Debug, PartialEq, Eq, PartialOrd, Ord, Hash)]
pub enum Cond {
    LabelOutsideBlock, StmtOutsideBlock, UnclosedOrig, UnopenedEnd, NestedOrig, DuplicateLabel,
    BlockWraps, BlockInIO, OverlappingBlocks, OffsetDoesNotFit, ExternalInOffset, UndefinedLabel,
}

#[derive(Clone, Debug, Default)]
pub struct RefObj {
    /// address -> word (None = reserved by .blkw)
    pub image: BTreeMap<u16, Option<u16>>,
    /// UPPER-CASE label -> (address, declared external)
    pub labels: BTreeMap<String, (u16, bool)>,
    /// labels that are both declared external and defined at address 0 (external flag unspecified)
    pub ext_ambiguous: BTreeSet<String>,
    /// address of a `.fill EXT` word -> UPPER-CASE external label
    pub relocs: BTreeMap<u16, String>,
    /// per statement: address of its first word if it occupies memory
    pub stmt_addr: Vec<Option<u16>>,
    /// per statement: index of blocks it belongs to
    pub blocks: Vec<(u16, u32)>,
}

#[derive(Clone, Debug, Default)]
pub struct RefResult {
    pub violated: BTreeSet<Cond>,
    /// structure was broken in a way that makes later addresses ambiguous: any address-dependent error kind is acceptable
    pub ambiguous: bool,
    /// per violated condition the statement indices involved (for span checks)
    pub sites: Vec<(Cond, usize)>,
    pub obj: Option<RefObj>,
}

fn nzp_of(m: u8) -> u8 { BR_MNEMONICS[m as usize].1 }

pub fn assemble(prog: &AProg) -> RefResult {
    let mut res = RefResult::default();
    let mut obj = RefObj::default();
    let mut v = BTreeSet::new();
    let mut sites = vec![];
    // ---- pass 1: addresses and labels
    let mut cur: Option<(u16, u32)> = None; // (origin, location counter as u32)
    let mut poisoned = false;
    let mut bindings: BTreeMap<String, Vec<(u32, bool, usize)>> = BTreeMap::new();
    let mut stmt_addr: Vec<Option<u32>> = vec![None; prog.len()];
    let mut blocks: Vec<(u16, u32)> = vec![];
    for (i, s) in prog.iter().enumerate() {
        if poisoned { break; }
        if !s.labels.is_empty() {
            match cur {
                Some((_, lc)) => for l in &s.labels { bindings.entry(l.to_uppercase()).or_default().push((lc, false, i)); },
                None => { v.insert(Cond::LabelOutsideBlock); sites.push((Cond::LabelOutsideBlock, i)); }
            }
        }
        match &s.nuc {
            Nuc::Orig(a) => match cur {
                Some(_) => { v.insert(Cond::NestedOrig); sites.push((Cond::NestedOrig, i)); poisoned = true; }
                None => cur = Some((*a, *a as u32)),
            },
            Nuc::End => match cur.take() {
                Some((o, lc)) => blocks.push((o, lc - o as u32)),
                None => { v.insert(Cond::UnopenedEnd); sites.push((Cond::UnopenedEnd, i)); }
            },
            Nuc::External(l) => { bindings.entry(l.to_uppercase()).or_default().push((0, true, i)); }
            n => match &mut cur {
                None => { v.insert(Cond::StmtOutsideBlock); sites.push((Cond::StmtOutsideBlock, i)); }
                Some((_, lc)) => {
                    stmt_addr[i] = Some(*lc);
                    let sz = n.size();
                    if sz > 0 {
                        let end = *lc + sz;
                        if end > 0xFE00 { v.insert(Cond::BlockInIO); sites.push((Cond::BlockInIO, i)); }
                        if end > 0x10000 { v.insert(Cond::BlockWraps); sites.push((Cond::BlockWraps, i)); }
                        if end > 0xFE00 { poisoned = true; }
                        *lc = end;
                    }
                }
            },
        }
    }
    if !poisoned { if let Some(_) = cur { v.insert(Cond::UnclosedOrig); sites.push((Cond::UnclosedOrig, prog.iter().rposition(|s| matches!(s.nuc, Nuc::Orig(_))).unwrap_or(0))); } }
    res.ambiguous = poisoned;
    // ---- labels
    for (name, bs) in &bindings {
        let addrs: BTreeSet<u32> = bs.iter().map(|b| b.0).collect();
        if addrs.len() > 1 {
            v.insert(Cond::DuplicateLabel);
            for b in bs { sites.push((Cond::DuplicateLabel, b.2)); }
        }
        let ext = bs.iter().any(|b| b.1); let def = bs.iter().any(|b| !b.1);
        let first = bs[0];
        obj.labels.insert(name.clone(), ((first.0 & 0xFFFF) as u16, ext && !def || (ext && def && first.1)));
        if ext && def { obj.ext_ambiguous.insert(name.clone()); }
    }
    // ---- pass 2: operands and image (only meaningful when pass 1 did not poison)
    if !poisoned {
        for (i, s) in prog.iter().enumerate() {
            let Some(addr) = stmt_addr[i] else { continue };
            let a16 = addr as u16;
            // label operand resolution
            let mut resolve = |l: &str, bits: u32| -> Option<i16> {
                let key = l.to_uppercase();
                match obj.labels.get(&key) {
                    None => { v.insert(Cond::UndefinedLabel); sites.push((Cond::UndefinedLabel, i)); None }
                    Some(&(_, _)) if bindings[&key].iter().all(|b| b.1) => { v.insert(Cond::ExternalInOffset); sites.push((Cond::ExternalInOffset, i)); None }
                    Some(&(t, _)) => {
                        if obj.ext_ambiguous.contains(&key) { res.ambiguous = true; }
                        let off = t.wrapping_sub(a16.wrapping_add(1)) as i16;
                        let lo = -(1i32 << (bits - 1)); let hi = (1i32 << (bits - 1)) - 1;
                        if (off as i32) < lo || (off as i32) > hi { v.insert(Cond::OffsetDoesNotFit); sites.push((Cond::OffsetDoesNotFit, i)); None } else { Some(off) }
                    }
                }
            };
            let mut tgt = |t: &Tgt, bits: u32| -> Option<i16> { match t { Tgt::Off(o) => Some(*o), Tgt::Lab(l) => resolve(l, bits) } };
            let roi = |d: u8, s1: u8, o: &RoI, add: bool| match o {
                RoI::Reg(r) => if add { RI::Add { dr: d, sr1: s1, sr2: *r } } else { RI::And { dr: d, sr1: s1, sr2: *r } },
                RoI::Imm(i) => if add { RI::AddI { dr: d, sr1: s1, imm: *i } } else { RI::AndI { dr: d, sr1: s1, imm: *i } },
            };
            let word: Option<RI> = match &s.nuc {
                Nuc::Add(d, s1, o) => Some(roi(*d, *s1, o, true)),
                Nuc::And(d, s1, o) => Some(roi(*d, *s1, o, false)),
                Nuc::Not(d, s1) => Some(RI::Not { dr: *d, sr: *s1 }),
                Nuc::Br(m, t) => tgt(t, 9).map(|off| RI::Br { nzp: nzp_of(*m), off }),
                Nuc::Jmp(b) => Some(RI::Jmp { base: *b }),
                Nuc::Jsr(t) => tgt(t, 11).map(|off| RI::Jsr { off }),
                Nuc::Jsrr(b) => Some(RI::Jsrr { base: *b }),
                Nuc::Ld(d, t) => tgt(t, 9).map(|off| RI::Ld { dr: *d, off }),
                Nuc::Ldi(d, t) => tgt(t, 9).map(|off| RI::Ldi { dr: *d, off }),
                Nuc::Lea(d, t) => tgt(t, 9).map(|off| RI::Lea { dr: *d, off }),
                Nuc::St(d, t) => tgt(t, 9).map(|off| RI::St { sr: *d, off }),
                Nuc::Sti(d, t) => tgt(t, 9).map(|off| RI::Sti { sr: *d, off }),
                Nuc::Ldr(d, b, o) => Some(RI::Ldr { dr: *d, base: *b, off: *o }),
                Nuc::Str(d, b, o) => Some(RI::Str { sr: *d, base: *b, off: *o }),
                Nuc::Ret => Some(RI::Jmp { base: 7 }),
                Nuc::Rti => Some(RI::Rti),
                Nuc::Trap(t) => Some(RI::Trap { vect: *t }),
                Nuc::Nop(None) => Some(RI::Br { nzp: 0, off: 0 }),
                Nuc::Nop(Some(t)) => tgt(t, 9).map(|off| RI::Br { nzp: 0, off }),
                Nuc::Getc => Some(RI::Trap { vect: 0x20 }), Nuc::Out | Nuc::Putc => Some(RI::Trap { vect: 0x21 }),
                Nuc::Puts => Some(RI::Trap { vect: 0x22 }), Nuc::In => Some(RI::Trap { vect: 0x23 }),
                Nuc::Putsp => Some(RI::Trap { vect: 0x24 }), Nuc::Halt => Some(RI::Trap { vect: 0x25 }),
                _ => None,
            };
            match &s.nuc {
                Nuc::Fill(FillOp::Num(n)) => { obj.image.insert(a16, Some(*n)); }
                Nuc::Fill(FillOp::Lab(l)) => {
                    let key = l.to_uppercase();
                    match obj.labels.get(&key) {
                        None => { v.insert(Cond::UndefinedLabel); sites.push((Cond::UndefinedLabel, i)); }
                        Some(&(t, _)) => {
                            obj.image.insert(a16, Some(t));
                            if bindings[&key].iter().all(|b| b.1) { obj.relocs.insert(a16, key); }
                        }
                    }
                }
                Nuc::Blkw(n) => for k in 0..*n { obj.image.insert(a16.wrapping_add(k), None); },
                Nuc::Stringz(st) => {
                    for (k, b) in st.bytes().enumerate() { obj.image.insert(a16.wrapping_add(k as u16), Some(b as u16)); }
                    obj.image.insert(a16.wrapping_add(st.len() as u16), Some(0));
                }
                _ => if let Some(ri) = word { obj.image.insert(a16, Some(encode(ri))); },
            }
        }
        // ---- blocks overlap
        let ne: Vec<(u32, u32)> = blocks.iter().filter(|b| b.1 > 0).map(|b| (b.0 as u32, b.0 as u32 + b.1)).collect();
        for a in 0..ne.len() { for b in a + 1..ne.len() {
            if ne[a].0 < ne[b].1 && ne[b].0 < ne[a].1 { v.insert(Cond::OverlappingBlocks); }
        } }
    }
    obj.stmt_addr = stmt_addr.iter().map(|a| a.map(|x| x as u16)).collect();
    obj.blocks = blocks;
    res.obj = if v.is_empty() && !poisoned { Some(obj) } else { None };
    res.violated = v;
    res.sites = sites;
    res
}

use lc3_ensemble::asm::AsmErrKind;
/// Which violated conditions an error kind of the subject names.
pub fn kind_names(kind: &AsmErrKind) -> &'static [Cond] {
    match kind {
        AsmErrKind::UndetAddrLabel => &[Cond::LabelOutsideBlock],
        AsmErrKind::UndetAddrStmt => &[Cond::StmtOutsideBlock],
        AsmErrKind::UnclosedOrig => &[Cond::UnclosedOrig],
        AsmErrKind::UnopenedOrig => &[Cond::UnopenedEnd],
        AsmErrKind::OverlappingOrig => &[Cond::NestedOrig],
        AsmErrKind::OverlappingLabels => &[Cond::DuplicateLabel],
        AsmErrKind::WrappingBlock => &[Cond::BlockWraps],
        AsmErrKind::BlockInIO => &[Cond::BlockInIO],
        AsmErrKind::OverlappingBlocks => &[Cond::OverlappingBlocks],
        AsmErrKind::OffsetNewErr(_) => &[Cond::OffsetDoesNotFit],
        AsmErrKind::OffsetExternal => &[Cond::ExternalInOffset],
        AsmErrKind::CouldNotFindLabel => &[Cond::UndefinedLabel],
    }
}
/// Error kinds whose meaning depends on addresses computed after a structural break.
pub fn address_dependent(kind: &AsmErrKind) -> bool {
    matches!(kind, AsmErrKind::OverlappingLabels | AsmErrKind::WrappingBlock | AsmErrKind::BlockInIO | AsmErrKind::OverlappingBlocks
        | AsmErrKind::OffsetNewErr(_) | AsmErrKind::OffsetExternal | AsmErrKind::CouldNotFindLabel | AsmErrKind::UndetAddrLabel | AsmErrKind::UndetAddrStmt
        | AsmErrKind::UnclosedOrig | AsmErrKind::UnopenedOrig)
}
