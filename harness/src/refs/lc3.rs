//! RefLC3 — an LC-3 interpreter written from the ISA (non-strict), used in lock-step with the real simulator.
//! Model assumptions A1..A10 are listed in DESIGN.md §3.4.
use super::isa::{decode, RDecErr, RI};
use std::collections::{BTreeMap, BTreeSet, VecDeque};
use std::sync::Arc;

pub const KBSR: u16 = 0xFE00;
pub const KBDR: u16 = 0xFE02;
pub const DSR: u16 = 0xFE04;
pub const DDR: u16 = 0xFE06;

#[derive(Clone, Copy, Debug, PartialEq, Eq)]
pub enum IReg { Pc, Psr, Mcr, SavedSp }

#[derive(Clone, Copy, Debug, PartialEq, Eq, Hash)]
pub enum RefErr { Acv, Priv, IllegalOpcode, InvalidFormat }

#[derive(Clone, Copy, Debug, PartialEq, Eq, Hash)]
pub enum Outcome {
    /// an instruction was executed (instruction count +1)
    Executed,
    /// an interrupt was entered instead of fetching (no instruction executed)
    Interrupted,
    /// virtual HALT: machine stops, PC left on the HALT
    Halt,
    /// virtual traps: error reported; real traps: exception vectored (then the outcome is `Exception`)
    Err(RefErr),
    /// real traps: exception entered (no instruction completed)
    Exception(RefErr),
}

#[derive(Clone, Copy, Debug, PartialEq, Eq, Hash, PartialOrd, Ord)]
pub struct Access { pub addr: u16, pub write: bool, pub changed: bool }

#[derive(Clone)]
pub struct RefLc3 {
    pub r: [u16; 8],
    pub pc: u16,
    pub psr: u16,
    pub saved_sp: u16,
    base: Arc<Vec<u16>>,
    over: BTreeMap<u16, u16>,
    pub mcr: bool,
    pub kb_attached: bool, pub kb_queue: VecDeque<u8>, pub kb_ie: bool, pub kb_locked: bool,
    pub disp_attached: bool, pub disp: Vec<u8>, pub disp_locked: bool,
    /// custom recording device ports: reads answer `0xC0DE ^ addr`, writes are accepted and logged
    pub custom_ports: BTreeSet<u16>,
    pub custom_log: Vec<(bool, u16, u16)>,
    pub iregs: BTreeMap<u16, IReg>,
    pub real_traps: bool,
    pub ignore_priv: bool,
    pub instr_count: u64,
    pub depth: u64,
    /// A1: condition codes are unspecified after trap/interrupt/exception entry until set again
    pub cc_defined: bool,
    /// accesses of the last step, in order
    pub log: Vec<Access>,
    /// A3: memory cells whose content is unspecified (PC pushed by an exception)
    pub unspecified: BTreeSet<u16>,
    /// address of the instruction the last step fetched (or tried to)
    pub instr_addr: u16,
    /// frames (caller, callee, kind 0 sub / 1 trap / 2 interrupt) — mirrors `depth` without saturation detail
    pub frames: Vec<(u16, u16, u8)>,
    /// A10: RTI executed in user mode under ignore_privilege (no ISA meaning)
    pub saw_user_rti: bool,
    /// C33 known-finding bookkeeping: KBDR reads attempted while the keyboard lock was held / DDR writes while the display lock was held
    pub stale_kbdr_reads: u64,
    pub dropped_ddr_writes: u64,
    /// the same events when the program had NOT seen the device ready since its previous data access (it did not wait for readiness)
    pub unwaited_stale_kbdr_reads: u64,
    pub unwaited_dropped_ddr_writes: u64,
    kbsr_ready_seen: bool,
    dsr_ready_seen: bool,
}

pub fn custom_value(addr: u16) -> u16 { 0xC0DE ^ addr }

impl RefLc3 {
    pub fn new(base: Arc<Vec<u16>>) -> Self {
        RefLc3 {
            r: [0; 8], pc: 0x3000, psr: 0x8002, saved_sp: 0x3000, base, over: BTreeMap::new(), mcr: false,
            kb_attached: false, kb_queue: VecDeque::new(), kb_ie: false, kb_locked: false,
            disp_attached: false, disp: vec![], disp_locked: false,
            custom_ports: BTreeSet::new(), custom_log: vec![],
            iregs: BTreeMap::from([(0xFFFC, IReg::Psr), (0xFFFE, IReg::Mcr)]),
            real_traps: false, ignore_priv: false, instr_count: 0, depth: 0, cc_defined: true, log: vec![],
            unspecified: BTreeSet::new(), instr_addr: 0, frames: vec![], saw_user_rti: false, stale_kbdr_reads: 0, dropped_ddr_writes: 0, unwaited_stale_kbdr_reads: 0, unwaited_dropped_ddr_writes: 0, kbsr_ready_seen: false, dsr_ready_seen: false,
        }
    }
    pub fn mem(&self, a: u16) -> u16 { self.over.get(&a).copied().unwrap_or(self.base[a as usize]) }
    pub fn set_mem(&mut self, a: u16, v: u16) { self.over.insert(a, v); }
    pub fn touched(&self) -> impl Iterator<Item = (&u16, &u16)> { self.over.iter() }
    pub fn supervisor(&self) -> bool { self.psr >> 15 == 0 }
    pub fn priority(&self) -> u8 { ((self.psr >> 8) & 7) as u8 }
    pub fn cc(&self) -> u8 { (self.psr & 7) as u8 }
    fn privileged(&self) -> bool { self.supervisor() || self.ignore_priv }
    fn setcc(&mut self, v: u16) {
        let cc = if (v as i16) < 0 { 4 } else if v == 0 { 2 } else { 1 };
        self.psr = (self.psr & 0xFFF8) | cc;
        self.cc_defined = true;
    }
    /// A5: writing the PSR keeps bits x8707 and repairs a non-one-hot CC to Z
    pub fn write_psr(&mut self, v: u16) {
        let mut cc = v & 7;
        if cc.count_ones() != 1 { cc = 2; }
        self.psr = (v & 0x8700) | cc;
        self.cc_defined = true;
    }
    fn user_space(a: u16) -> bool { (0x3000..0xFE00).contains(&a) }

    pub fn read(&mut self, a: u16, privileged: bool) -> Result<u16, RefErr> {
        if !privileged && !Self::user_space(a) { return Err(RefErr::Acv); }
        if a >= 0xFE00 {
            let answer: Option<u16> = if let Some(ir) = self.iregs.get(&a).copied() {
                Some(match ir { IReg::Pc => self.pc, IReg::Psr => self.psr, IReg::Mcr => (self.mcr as u16) << 15, IReg::SavedSp => self.saved_sp })
            } else if self.custom_ports.contains(&a) {
                self.custom_log.push((false, a, 0)); Some(custom_value(a))
            } else if a == KBSR && self.kb_attached {
                let ready = !self.kb_locked && !self.kb_queue.is_empty();
                if ready { self.kbsr_ready_seen = true; }
                Some(((ready as u16) << 15) | ((self.kb_ie as u16) << 14))
            } else if a == KBDR && self.kb_attached {
                { let waited = std::mem::replace(&mut self.kbsr_ready_seen, false);
                  if self.kb_locked { if waited { self.stale_kbdr_reads += 1; } else { self.unwaited_stale_kbdr_reads += 1; } None } else { self.kb_queue.pop_front().map(u16::from) } } // A4: empty queue -> last value
            } else if a == DSR && self.disp_attached {
                if !self.disp_locked { self.dsr_ready_seen = true; }
                Some(((!self.disp_locked) as u16) << 15)
            } else { None };
            if let Some(v) = answer { self.set_mem(a, v); }
        }
        self.log.push(Access { addr: a, write: false, changed: false });
        Ok(self.mem(a))
    }
    pub fn write(&mut self, a: u16, v: u16, privileged: bool) -> Result<(), RefErr> {
        if !privileged && !Self::user_space(a) { return Err(RefErr::Acv); }
        let accepted = if a >= 0xFE00 {
            if let Some(ir) = self.iregs.get(&a).copied() {
                match ir { IReg::Pc => self.pc = v, IReg::Psr => self.write_psr(v), IReg::Mcr => self.mcr = (v as i16) < 0, IReg::SavedSp => self.saved_sp = v }
                true
            } else if self.custom_ports.contains(&a) { self.custom_log.push((true, a, v)); true }
            else if a == KBSR && self.kb_attached { self.kb_ie = (v >> 14) & 1 != 0; true }
            else if a == DDR && self.disp_attached { { let waited = std::mem::replace(&mut self.dsr_ready_seen, false);
                  if self.disp_locked { if waited { self.dropped_ddr_writes += 1; } else { self.unwaited_dropped_ddr_writes += 1; } false } else { self.disp.push(v as u8); true } } }
            else { false }
        } else { true };
        if accepted {
            let changed = self.mem(a) != v;
            self.log.push(Access { addr: a, write: true, changed });
            self.set_mem(a, v);
        }
        Ok(())
    }

    /// trap / interrupt / exception entry
    fn enter(&mut self, vec: u16, prio: Option<u8>, kind: u8, caller: u16) -> Result<(), RefErr> {
        if !self.supervisor() { std::mem::swap(&mut self.saved_sp, &mut self.r[6]); }
        let old_psr = self.psr; let old_pc = self.pc;
        self.psr &= 0x7FFF;
        let sp = self.r[6];
        self.r[6] = sp.wrapping_sub(2);
        self.write(sp.wrapping_sub(1), old_psr, true)?;
        self.write(sp.wrapping_sub(2), old_pc, true)?;
        self.psr = (self.psr & 0xFFF8) | 2;
        self.cc_defined = false; // A1
        if let Some(p) = prio { self.psr = (self.psr & 0xF8FF) | (((p & 7) as u16) << 8); }
        let target = self.read(vec, true)?;
        self.depth += 1;
        self.frames.push((caller, vec, kind));
        self.pc = target;
        Ok(())
    }

    fn exception(&mut self, e: RefErr) -> Outcome {
        if !self.real_traps { return Outcome::Err(e); }
        let vec = match e { RefErr::Priv => 0x100, RefErr::IllegalOpcode | RefErr::InvalidFormat => 0x101, RefErr::Acv => 0x102 };
        let sp_after = if self.supervisor() { self.r[6] } else { self.saved_sp }.wrapping_sub(2);
        let caller = self.instr_addr;
        match self.enter(vec, None, 1, caller) {
            Ok(()) => { self.unspecified.insert(sp_after); if let Some(f) = self.frames.last_mut() { f.0 = 0xFFFF; } Outcome::Exception(e) } // A3: pushed PC (and hence caller) unspecified
            Err(e2) => Outcome::Err(e2), // cannot happen: entry accesses are privileged
        }
    }

    /// One step. `requests` are the vectored interrupt requests (vector, priority) pending at this poll from harness
    /// devices; the keyboard's own request is added here. Returns the outcome and whether an interrupt was taken.
    pub fn step(&mut self, requests: &[(u8, u8)]) -> Outcome {
        self.log.clear();
        self.instr_addr = self.pc;
        // 1 poll
        let mut cand: Vec<(u8, u8)> = requests.to_vec();
        if self.kb_attached && self.kb_ie && !self.kb_locked && !self.kb_queue.is_empty() { cand.push((0x80, 4)); }
        if let Some(&(v, p)) = cand.iter().max_by_key(|(_, p)| *p) {
            if p > self.priority() {
                let caller = self.pc;
                return match self.enter(0x100 + v as u16, Some(p), 2, caller) { Ok(()) => Outcome::Interrupted, Err(e) => Outcome::Err(e) };
            }
        }
        // 2 fetch
        let w = match self.read(self.pc, self.privileged()) { Ok(w) => w, Err(e) => return self.exception(e) };
        // 3 decode
        let ins = match decode(w) { Ok(i) => i, Err(RDecErr::IllegalOpcode) => return self.exception(RefErr::IllegalOpcode), Err(RDecErr::InvalidFormat) => return self.exception(RefErr::InvalidFormat) };
        // 4
        self.pc = self.pc.wrapping_add(1);
        let privd = self.privileged();
        let pcrel = |s: &Self, off: i16| s.pc.wrapping_add(off as u16);
        // 5 execute
        let res: Result<(), RefErr> = (|| {
            match ins {
                RI::Add { dr, sr1, sr2 } => { let v = self.r[sr1 as usize].wrapping_add(self.r[sr2 as usize]); self.r[dr as usize] = v; self.setcc(v); }
                RI::AddI { dr, sr1, imm } => { let v = self.r[sr1 as usize].wrapping_add(imm as u16); self.r[dr as usize] = v; self.setcc(v); }
                RI::And { dr, sr1, sr2 } => { let v = self.r[sr1 as usize] & self.r[sr2 as usize]; self.r[dr as usize] = v; self.setcc(v); }
                RI::AndI { dr, sr1, imm } => { let v = self.r[sr1 as usize] & (imm as u16); self.r[dr as usize] = v; self.setcc(v); }
                RI::Not { dr, sr } => { let v = !self.r[sr as usize]; self.r[dr as usize] = v; self.setcc(v); }
                RI::Lea { dr, off } => { self.r[dr as usize] = pcrel(self, off); }
                RI::Ld { dr, off } => { let v = self.read(pcrel(self, off), privd)?; self.r[dr as usize] = v; self.setcc(v); }
                RI::Ldr { dr, base, off } => { let v = self.read(self.r[base as usize].wrapping_add(off as u16), privd)?; self.r[dr as usize] = v; self.setcc(v); }
                RI::Ldi { dr, off } => { let p = self.read(pcrel(self, off), privd)?; let v = self.read(p, privd)?; self.r[dr as usize] = v; self.setcc(v); }
                RI::St { sr, off } => { self.write(pcrel(self, off), self.r[sr as usize], privd)?; }
                RI::Str { sr, base, off } => { self.write(self.r[base as usize].wrapping_add(off as u16), self.r[sr as usize], privd)?; }
                RI::Sti { sr, off } => { let p = self.read(pcrel(self, off), privd)?; self.write(p, self.r[sr as usize], privd)?; }
                RI::Br { nzp, off } => { if nzp & self.cc() != 0 { self.pc = pcrel(self, off); } }
                RI::Jmp { base } => { self.pc = self.r[base as usize]; if base == 7 { self.depth = self.depth.saturating_sub(1); self.frames.pop(); } }
                RI::Jsr { off } => { let t = pcrel(self, off); self.r[7] = self.pc; self.depth += 1; self.frames.push((self.instr_addr, t, 0)); self.pc = t; }
                RI::Jsrr { base } => { let t = self.r[base as usize]; self.r[7] = self.pc; self.depth += 1; self.frames.push((self.instr_addr, t, 0)); self.pc = t; }
                RI::Trap { vect } => {
                    if !self.real_traps && vect == 0x25 { return Err(RefErr::Priv); } // sentinel, handled below
                    let caller = self.instr_addr;
                    self.enter(vect as u16, None, 1, caller)?;
                }
                RI::Rti => {
                    if !privd { return Err(RefErr::Priv); }
                    if !self.supervisor() { self.saw_user_rti = true; }
                    let sp = self.r[6];
                    let npc = self.read(sp, privd)?;
                    let npsr = self.read(sp.wrapping_add(1), privd)?;
                    self.r[6] = sp.wrapping_add(2);
                    self.pc = npc;
                    self.psr = npsr; // A2
                    self.cc_defined = true;
                    if !self.supervisor() { std::mem::swap(&mut self.saved_sp, &mut self.r[6]); }
                    self.depth = self.depth.saturating_sub(1); self.frames.pop();
                }
            }
            Ok(())
        })();
        match res {
            Ok(()) => { self.instr_count += 1; Outcome::Executed }
            Err(RefErr::Priv) if matches!(ins, RI::Trap { vect: 0x25 }) && !self.real_traps => { self.pc = self.instr_addr; Outcome::Halt } // A7
            Err(e) => self.exception(e),
        }
    }
}
