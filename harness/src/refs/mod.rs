pub mod isa;
pub mod asm;
pub mod link;
