pub mod isa;
pub mod asm;
pub mod link;
pub mod lc3;
