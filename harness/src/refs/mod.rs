pub mod isa;
