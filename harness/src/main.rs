//! lc3mc — bounded-exhaustive model checking of lc3-ensemble against properties C01..C36.
//!
//! usage: lc3mc check <ID> <quick|thorough>
//!        lc3mc replay <path>
mod util;
mod gen;
mod refs;
mod props;

use std::time::{Duration, Instant};
use util::*;

const VERIF: &str = "/verif";

fn main() {
    install_panic_hook();
    let args: Vec<String> = std::env::args().collect();
    let code = match args.get(1).map(|s| s.as_str()) {
        Some("check") if args.len() >= 4 => check(&args[2], &args[3]),
        Some("replay") if args.len() >= 3 => replay(&args[2]),
        Some("isolated") if args.len() >= 4 => isolated_child(&args[2], &args[3]),
        Some("dbgfam") => { props::c20::debug_family(); 0 }
        Some("list") => { for (id, _) in props::ALL { println!("{id}"); } 0 }
        _ => { eprintln!("usage: lc3mc check <ID> <quick|thorough> | replay <path> | list"); 2 }
    };
    std::process::exit(code);
}

fn check(id: &str, tier: &str) -> i32 {
    let tier_e = match tier { "quick" => Tier::Quick, "thorough" => Tier::Thorough, _ => { eprintln!("bad tier {tier}"); return 2; } };
    let seed = std::env::var("VERIF_SEED").ok().and_then(|s| s.parse::<i64>().ok()).unwrap_or(0);
    let Some(&(_, entry)) = props::ALL.iter().find(|(i, _)| *i == id) else { eprintln!("unknown property {id}"); return 2; };
    let cap_s: u64 = std::env::var("VERIF_CAP_S").ok().and_then(|s| s.parse().ok())
        .unwrap_or(match tier_e { Tier::Quick => 45, Tier::Thorough => 900 });
    let threads = std::env::var("VERIF_THREADS").ok().and_then(|s| s.parse().ok())
        .unwrap_or_else(|| std::thread::available_parallelism().map(|n| n.get()).unwrap_or(4));
    let ctx = Ctx { id: id.to_string(), tier: tier_e, seed: seed as u64, start: Instant::now(), cap: Duration::from_secs(cap_s), threads };

    let mut report = match catch(|| (entry.run)(&ctx)) {
        Ok(r) => r,
        Err(m) => { eprintln!("MACHINERY ERROR: engine for {id} crashed: {m}"); return 2; }
    };
    let wall = ctx.start.elapsed().as_secs_f64();

    // ---- classify violations against the known-findings file
    let known = load_known(&format!("{VERIF}/KNOWN_FINDINGS.txt"));
    let mut unknown: Vec<Violation> = vec![];
    let mut known_seen: Vec<(String, String, u64)> = vec![];
    // shortest case first so the reported one is minimal
    report.acc.violations.sort_by(|a, b| (a.case.len(), &a.case).cmp(&(b.case.len(), &b.case)));
    for v in &report.acc.violations {
        if let Some((_, sig, text)) = known.known.iter().find(|(p, s, _)| p == id && *s == v.sig) {
            if let Some(e) = known_seen.iter_mut().find(|(s, _, _)| s == sig) { e.2 += 1; }
            else { known_seen.push((sig.clone(), text.clone(), 1)); }
        } else {
            unknown.push(v.clone());
        }
    }
    // engines may also report known-finding instances they folded into the oracle
    for (sig, n) in &report.acc.known_hits {
        if let Some((_, sig, text)) = known.known.iter().find(|(p, s, _)| p == id && s == sig) {
            if let Some(e) = known_seen.iter_mut().find(|(s, _, _)| s == sig) { e.2 += n; }
            else { known_seen.push((sig.clone(), text.clone(), *n)); }
        } else {
            // an engine folded in a finding that the file does not list: that is a violation
            unknown.push(Violation { sig: sig.clone(), case: format!("folded:{sig}"), detail: format!("{n} instances of a finding signature not listed in KNOWN_FINDINGS.txt") });
        }
    }

    // child side of the whole-run fallback below: report the unlisted violation signatures of this (single-threaded) run and nothing else
    if std::env::var("LC3MC_CHILD").as_deref() == Ok("sigs") {
        let sigs: std::collections::BTreeSet<&String> = unknown.iter().map(|v| &v.sig).collect();
        for s in sigs { println!("SIG {s}"); }
        return 0;
    }

    // ---- replay discipline: every reported violation must reproduce identically twice
    // non-vacuity assertions are only meaningful on a run without violations (a violation legitimately cuts exploration short)
    let mut machinery = if unknown.is_empty() { report.machinery_errors.clone() } else { vec![] };
    let mut replay_paths: Vec<(String, String)> = vec![];
    // violations that do not reproduce identically when their case is executed alone: never reported as violations. If other violations of
    // the same run do reproduce, the run's verdict rests on those (and these are listed on stderr); if none does, the run is a machinery error.
    let mut unreproduced: Vec<String> = vec![];
    if !unknown.is_empty() {
        let dir = format!("{VERIF}/replays/{id}");
        let _ = std::fs::create_dir_all(&dir);
        for (n, v) in unknown.iter().enumerate().take(20) {
            if !v.case.starts_with("folded:") {
                // cases marked "iso:" may abort the process that evaluates them: they are replayed in child processes as well
                let iso = v.case.starts_with("iso:");
                let r1 = if iso { isolated(id, &v.case) } else { catch(|| (entry.replay)(&v.case)) };
                let r2 = if iso { isolated(id, &v.case) } else { catch(|| (entry.replay)(&v.case)) };
                let same = match (&r1, &r2) { (Ok(a), Ok(b)) => a == b, (Err(a), Err(b)) => a == b, _ => false };
                // C31 is the reproducibility property itself: its cases build simulators from fixed configurations only (no clock, no
                // entropy, no hash-order dependent output on the harness side), so a case whose verdict changes when it is executed
                // again in the same process is a counterexample in its own right (the subject depends on process history), not a
                // machinery fault. For every other property a diverging replay means the harness does not own its nondeterminism.
                let history_dependent = id == "C31" && (!same || matches!(r1, Ok(None)));
                if !history_dependent {
                    if !same { unreproduced.push(format!("replay diverged for sig={} case={}", v.sig, v.case)); continue; }
                    if matches!(r1, Ok(None)) { unreproduced.push(format!("violation did not reproduce on replay: sig={} case={}", v.sig, v.case)); continue; }
                }
            }
            let path = format!("{dir}/{n}.json");
            let j = Json::Obj(vec![
                ("property".into(), Json::s(id)), ("tier".into(), Json::s(tier)), ("sig".into(), Json::s(&v.sig)),
                ("case".into(), Json::s(&v.case)), ("detail".into(), Json::s(&v.detail)),
            ]);
            let _ = std::fs::write(&path, j.render());
            replay_paths.push((v.sig.clone(), path));
        }
    }

    if !unreproduced.is_empty() {
        if replay_paths.is_empty() {
            // No violation reproduces when its case is executed alone: the verdicts depend on what ran before them in this process (state the
            // subject keeps across calls). Whole-run fallback: the entire check is executed twice more, single-threaded (a fixed order of
            // cases), each in a fresh process; if both runs report the same non-empty set of violation signatures, that whole run is the
            // replayable counterexample. Anything else stays a machinery error.
            match whole_run_sigs(id, tier).and_then(|a| whole_run_sigs(id, tier).map(|b| (a, b))) {
                Some((a, b)) if a == b && !a.is_empty() => {
                    let dir = format!("{VERIF}/replays/{id}"); let _ = std::fs::create_dir_all(&dir);
                    let path = format!("{dir}/whole-run.json");
                    let j = Json::Obj(vec![("property".into(), Json::s(id)), ("tier".into(), Json::s(tier)), ("sig".into(), Json::s(a.iter().next().map(|x| x.as_str()).unwrap_or(""))), ("case".into(), Json::s(format!("fullrun:{tier}"))),
                        ("detail".into(), Json::s(format!("the violations of this check do not reproduce when their cases are executed alone (the subject keeps state across calls); executing the whole check single-threaded in a fresh process, twice, reports the same signatures both times: {a:?}")))]);
                    let _ = std::fs::write(&path, j.render());
                    eprintln!("note: no violation reproduced in isolation ({} tried); the whole single-threaded run reproduces {a:?} twice and is the counterexample", unreproduced.len());
                    unknown.retain(|v| a.contains(&v.sig));
                    if unknown.is_empty() { unknown.push(Violation { sig: a.iter().next().cloned().unwrap_or_default(), case: format!("fullrun:{tier}"), detail: "see the whole-run replay file".into() }); }
                    replay_paths.push((a.iter().next().cloned().unwrap_or_default(), path));
                }
                _ => machinery.extend(unreproduced.iter().cloned()),
            }
        }
        else { for u in &unreproduced { eprintln!("note: not counted ({u}); the verdict rests on the {} violation(s) that reproduce in isolation", replay_paths.len()); } unknown.retain(|v| replay_paths.iter().any(|(s, _)| *s == v.sig)); }
    }

    // ---- evidence
    let acc = &report.acc;
    let states = if acc.states > 0 { acc.states } else { acc.evals };
    let transitions = if acc.transitions > 0 { acc.transitions } else { acc.evals };
    let traces = if acc.traces > 0 { acc.traces } else { acc.evals };
    let nontriv = if !acc.nontrivial_set.is_empty() { acc.nontrivial_set.len() as u64 } else { acc.nontrivial };
    let mut samples: Vec<Json> = acc.samples.iter().take(6).map(Json::s).collect();
    if samples.is_empty() { if let Some(f) = &acc.fallback { samples.push(Json::s(f)); } }
    if samples.is_empty() { samples.push(Json::s("(engine recorded no sample)")); if unknown.is_empty() { machinery.push("engine recorded no sample".into()); } }
    let mut cov = vec![
        ("states".to_string(), Json::i(states)),
        ("transitions".to_string(), Json::i(transitions)),
        ("traces_validated_against_impl".to_string(), Json::i(traces)),
        ("evaluations".to_string(), Json::i(acc.evals)),
        ("distinct_nontrivial".to_string(), Json::i(nontriv)),
        ("distinct_outcomes".to_string(), Json::i(acc.outcomes.len())),
        ("rule".to_string(), Json::s(&report.rule)),
        ("exhaustive".to_string(), Json::Bool(report.exhaustive)),
        ("samples".to_string(), Json::Arr(samples)),
        ("counters".to_string(), Json::Obj(acc.counters.iter().map(|(k, v)| (k.clone(), Json::i(*v))).collect())),
        ("bounds".to_string(), Json::Obj(report.bounds.clone())),
        ("known_findings_seen".to_string(), Json::Arr(known_seen.iter().map(|(s, _, n)| Json::Obj(vec![("sig".into(), Json::s(s)), ("instances".into(), Json::i(*n))])).collect())),
        ("violation_signatures".to_string(), Json::Arr(unknown.iter().map(|v| Json::s(&v.sig)).collect())),
    ];
    if !report.exhaustive { cov.push(("cap_hit".into(), Json::s(format!("wall cap {cap_s}s reached; counts are what was covered before it")))); }
    let ev = Json::Obj(vec![
        ("property_id".into(), Json::s(id)),
        ("tier".into(), Json::s(tier)),
        ("seed".into(), Json::Int(seed as i128)),
        ("level".into(), Json::s("model_checking")),
        ("coverage".into(), Json::Obj(cov)),
        ("assumptions".into(), Json::Arr(report.assumptions.iter().map(Json::s).collect())),
        ("wall_s".into(), Json::Num(wall)),
        ("violations".into(), Json::i(unknown.len())),
    ]);
    // (development runs against a scratch copy of the subject write their evidence elsewhere: LC3MC_EVIDENCE_DIR)
    let evdir = std::env::var("LC3MC_EVIDENCE_DIR").unwrap_or_else(|_| format!("{VERIF}/evidence"));
    let _ = std::fs::create_dir_all(&evdir);
    if let Err(e) = std::fs::write(format!("{evdir}/{id}.json"), ev.render()) { machinery.push(format!("cannot write evidence: {e}")); }

    // ---- verdict
    println!("{id} {tier}: evaluations={} states={} transitions={} nontrivial={} outcomes={} exhaustive={} wall={:.1}s",
        acc.evals, states, transitions, nontriv, acc.outcomes.len(), report.exhaustive, wall);
    for (k, v) in &acc.counters { println!("  {k} = {v}"); }
    for (sig, text, n) in &known_seen { println!("KNOWN-FINDING: property={id} sig={sig} {text} ({n} instances this run)"); }
    if !machinery.is_empty() {
        for m in &machinery { eprintln!("MACHINERY ERROR: {m}"); }
        return 2;
    }
    if !unknown.is_empty() {
        for v in unknown.iter().take(20) { println!("violation sig={} case={} :: {}", v.sig, truncate(&v.case, 300), truncate(&v.detail, 600)); }
        println!("total violating cases: {} (distinct unlisted signatures: {})", acc.viol_count, unknown.iter().map(|v| &v.sig).collect::<std::collections::BTreeSet<_>>().len());
        for (_, path) in replay_paths.iter().take(20) { println!("VIOLATION property={id} replay={path}"); }
        if replay_paths.is_empty() { println!("VIOLATION property={id} replay={VERIF}/replays/{id}/none"); }
        return 1;
    }
    0
}

/// Child side of `util::isolated`: evaluates one case of one property in this (sacrificial) process and prints the verdict on one line.
/// A case that makes the subject abort the process (stack overflow, allocation failure) never gets to print it.
fn isolated_child(id: &str, case: &str) -> i32 {
    let Some(&(_, entry)) = props::ALL.iter().find(|(i, _)| *i == id) else { eprintln!("unknown property {id}"); return 2; };
    match catch(|| (entry.replay)(case)) {
        Ok(None) => println!("ISOLATED-RESULT none"),
        Ok(Some(d)) => println!("ISOLATED-RESULT violation {}", d.replace('\n', " ")),
        Err(m) => println!("ISOLATED-RESULT violation [panic:{}] {}", panic_site(&m), m.replace('\n', " ")),
    }
    0
}
/// Executes the whole check for `id` in a fresh process, single-threaded and without a wall cap, and returns its unlisted violation signatures.
fn whole_run_sigs(id: &str, tier: &str) -> Option<std::collections::BTreeSet<String>> {
    if std::env::var("LC3MC_CHILD").is_ok() { return None; }
    let exe = std::env::current_exe().ok()?;
    let out = std::process::Command::new(exe).args(["check", id, tier])
        .env("LC3MC_CHILD", "sigs").env("VERIF_THREADS", "1").env("VERIF_CAP_S", "100000").env("LC3MC_EVIDENCE_DIR", format!("{VERIF}/replays/{id}/whole-run-evidence"))
        .output().ok()?;
    if !out.status.success() { return None; }
    Some(String::from_utf8_lossy(&out.stdout).lines().filter_map(|l| l.strip_prefix("SIG ")).map(|s| s.to_string()).collect())
}
fn truncate(s: &str, n: usize) -> String {
    if s.len() <= n { s.to_string() } else { let mut e = n; while !s.is_char_boundary(e) { e -= 1; } format!("{}…", &s[..e]) }
}

fn replay(path: &str) -> i32 {
    let Ok(txt) = std::fs::read_to_string(path) else { eprintln!("cannot read {path}"); return 2; };
    let Some(j) = Json::parse(&txt) else { eprintln!("bad json in {path}"); return 2; };
    let (Some(id), Some(case)) = (j.get("property").and_then(|x| x.as_str()), j.get("case").and_then(|x| x.as_str())) else { eprintln!("missing fields"); return 2; };
    let Some(&(_, entry)) = props::ALL.iter().find(|(i, _)| *i == id) else { eprintln!("unknown property {id}"); return 2; };
    if let Some(tier) = case.strip_prefix("fullrun:") {
        // whole-run counterexample (see check()): the whole check, single-threaded, twice
        return match (whole_run_sigs(id, tier), whole_run_sigs(id, tier)) {
            (Some(a), Some(b)) if a == b && !a.is_empty() => { println!("replay {id}: the whole single-threaded run reports {a:?} (twice)"); println!("VIOLATION property={id} replay={path}"); 1 }
            (Some(a), Some(b)) if a.is_empty() && b.is_empty() => { println!("replay {id}: the whole run holds (no violation)"); 0 }
            _ => { eprintln!("MACHINERY ERROR: whole-run replay diverged"); 2 }
        };
    }
    let iso = case.starts_with("iso:");
    let r1 = if iso { isolated(id, case) } else { catch(|| (entry.replay)(case)) };
    let r2 = if iso { isolated(id, case) } else { catch(|| (entry.replay)(case)) };
    let same = match (&r1, &r2) { (Ok(a), Ok(b)) => a == b, (Err(a), Err(b)) => a == b, _ => false };
    if !same && id == "C31" {
        // see check(): for the reproducibility property a verdict that changes between two executions of the same case is the violation
        println!("replay {id}: executing the case twice in this process gave different verdicts ({:?} vs {:?}): the outcome depends on process history", r1, r2);
        println!("VIOLATION property={id} replay={path}");
        return 1;
    }
    if !same { eprintln!("MACHINERY ERROR: replay diverged"); return 2; }
    match r1 {
        Ok(None) => { println!("replay {id}: case holds (no violation)"); 0 }
        Ok(Some(d)) => { println!("replay {id}: {d}"); println!("VIOLATION property={id} replay={path}"); 1 }
        Err(m) => { eprintln!("MACHINERY ERROR: replay crashed: {m}"); 2 }
    }
}
