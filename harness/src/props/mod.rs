use crate::util::{Ctx, Report};

#[derive(Clone, Copy)]
pub struct Entry {
    pub run: fn(&Ctx) -> Report,
    /// Re-executes one recorded case; `Some(detail)` means the case violates the property.
    pub replay: fn(&str) -> Option<String>,
}

macro_rules! props {
    ($($id:literal => $m:ident),* $(,)?) => {
        $(pub mod $m;)*
        pub const ALL: &[(&str, Entry)] = &[
            $(($id, Entry { run: $m::run, replay: $m::replay })),*,
            ("C27", Entry { run: c27::run_engine, replay: c27::replay }),
            ("C10", Entry { run: c10::run_engine, replay: c10::replay }),
        ];
    };
}

pub mod asmcheck;
pub mod asmrun;
pub mod objrt;
pub mod linksrc;
pub mod simcmp;
pub mod simfam;
pub mod osinfo;

pub mod c27;
pub mod c10;
props! {
    "C01" => c01,
    "C02" => c02,
    "C03" => c03,
    "C04" => c04,
    "C05" => c05,
    "C06" => c06,
    "C07" => c07,
    "C08" => c08,
    "C09" => c09,
    "C11" => c11,
    "C12" => c12,
    "C13" => c13,
    "C14" => c14,
    "C15" => c15,
    "C16" => c16,
    "C17" => c17,
    "C18" => c18,
    "C19" => c19,
    "C20" => c20,
    "C21" => c21,
    "C22" => c22,
    "C23" => c23,
    "C24" => c24,
    "C25" => c25,
    "C26" => c26,
    "C28" => c28,
    "C29" => c29,
    "C30" => c30,
    "C31" => c31,
    "C32" => c32,
    "C33" => c33,
    "C34" => c34,
    "C35" => c35,
    "C36" => c36,
}
