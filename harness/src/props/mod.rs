use crate::util::{Ctx, Report};

#[derive(Clone, Copy)]
pub struct Entry {
    pub run: fn(&Ctx) -> Report,
    /// Re-executes one recorded case; `Some(detail)` means the case violates the property.
    pub replay: fn(&str) -> Option<String>,
}

macro_rules! props {
    ($($id:literal => $m:ident),* $(,)?) => {
        $(pub mod $m;)*
        pub const ALL: &[(&str, Entry)] = &[
            $(($id, Entry { run: $m::run, replay: $m::replay })),*
        ];
    };
}

props! {
    "C05" => c05,
    "C06" => c06,
    "C07" => c07,
    "C15" => c15,
    "C25" => c25,
    "C35" => c35,
}
