//! C15 — initialization tracking of words is sound (hook H1: construct/read the init mask).
use crate::util::*;
use lc3_ensemble::sim::mem::Word;

#[derive(Clone, Copy, Debug, PartialEq, Eq)]
enum Op { Add, Sub, And, Not }
const OPS: [Op; 4] = [Op::Add, Op::Sub, Op::And, Op::Not];

fn apply(op: Op, l: Word, r: Word) -> Word {
    match op { Op::Add => l + r, Op::Sub => l - r, Op::And => l & r, Op::Not => !l }
}
fn wrapping(op: Op, l: u16, r: u16) -> u16 {
    match op { Op::Add => l.wrapping_add(r), Op::Sub => l.wrapping_sub(r), Op::And => l & r, Op::Not => !l }
}

/// positions whose bits may be uninitialized in the mask grid
const POS: [u32; 5] = [0, 1, 2, 14, 15];
fn mask_from(sel: u32) -> u16 { let mut m = 0xFFFFu16; for (k, p) in POS.iter().enumerate() { if sel >> k & 1 == 1 { m &= !(1 << p); } } m }
const BASES: [u16; 8] = [0x0000, 0xFFFF, 0x0001, 0x7FFF, 0x8000, 0x5555, 0x3FF8, 0xC007];

/// All completions of the uninitialized bits of (lbase/lmask, rbase/rmask): every initialized result bit must be constant.
fn check_group(op: Op, lmask: u16, lbase: u16, rmask: u16, rbase: u16) -> Result<u64, String> {
    let lfree: Vec<u32> = (0..16).filter(|b| lmask >> b & 1 == 0).collect();
    let rfree: Vec<u32> = if op == Op::Not { vec![] } else { (0..16).filter(|b| rmask >> b & 1 == 0).collect() };
    let nl = 1u32 << lfree.len(); let nr = 1u32 << rfree.len();
    let mut results: Vec<(u16, u16)> = Vec::with_capacity((nl * nr) as usize);
    for a in 0..nl {
        let mut ld = lbase & lmask;
        for (k, b) in lfree.iter().enumerate() { if a >> k & 1 == 1 { ld |= 1 << b; } }
        for c in 0..nr {
            let mut rd = rbase & rmask;
            for (k, b) in rfree.iter().enumerate() { if c >> k & 1 == 1 { rd |= 1 << b; } }
            let res = apply(op, Word::verif_from_parts(ld, lmask), Word::verif_from_parts(rd, if op == Op::Not { 0xFFFF } else { rmask }));
            results.push((res.get(), res.verif_init_mask()));
        }
    }
    let first = results[0].0;
    let varying = results.iter().fold(0u16, |v, (d, _)| v | (d ^ first));
    for (d, m) in &results {
        if m & varying != 0 {
            return Err(format!("{op:?} lmask={lmask:#06x} lbase={lbase:#06x} rmask={rmask:#06x} rbase={rbase:#06x}: a completion gives data={d:#06x} init={m:#06x} but bits {:#06x} vary across completions", m & varying));
        }
    }
    Ok(results.len() as u64)
}

fn check_full(op: Op, l: u16, r: u16) -> Option<String> {
    let res = apply(op, Word::new_init(l), Word::new_init(r));
    if !res.is_init() || res.verif_init_mask() != 0xFFFF { return Some(format!("{op:?}({l:#06x},{r:#06x}) on fully initialized operands has init mask {:#06x}", res.verif_init_mask())); }
    if res.get() != wrapping(op, l, r) { return Some(format!("{op:?}({l:#06x},{r:#06x}) = {:#06x}, expected {:#06x}", res.get(), wrapping(op, l, r))); }
    None
}

/// Per-bit truth table: at bit position k every (ldata,linit,rdata,rinit) combination, other bits in 3 background patterns.
fn check_bitslice(op: Op, k: u32, combo: u32, bg: u32) -> Option<String> {
    let (ld, li, rd, ri) = (combo & 1, combo >> 1 & 1, combo >> 2 & 1, combo >> 3 & 1);
    let (bgd, bgi): (u16, u16) = match bg { 0 => (0, 0xFFFF), 1 => (0xFFFF, 0xFFFF), _ => (0xA5A5, 0) };
    let bit = 1u16 << k;
    let mk = |d: u32, i: u32| Word::verif_from_parts((bgd & !bit) | if d == 1 { bit } else { 0 }, (bgi & !bit) | if i == 1 { bit } else { 0 });
    let l = mk(ld, li); let r = mk(rd, ri);
    let res = apply(op, l, r);
    if res.verif_init_mask() & bit == 0 { return None; }
    // claimed initialized: flip every uninitialized operand bit at position k and demand the same result bit
    for fl in 0..2u32 { for fr in 0..2u32 {
        let l2 = if li == 0 { mk(fl, li) } else { l };
        let r2 = if ri == 0 { mk(fr, ri) } else { r };
        let res2 = apply(op, l2, r2);
        if (res2.get() ^ res.get()) & bit != 0 {
            return Some(format!("{op:?} bit {k}: ldata={ld} linit={li} rdata={rd} rinit={ri} (background {bg}) reports the bit initialized but its value depends on an uninitialized operand bit"));
        }
    } }
    None
}

/// (d) the other spellings of the same operations: `x op= y`, `x += u16 / i16`, `x -= u16 / i16` must give exactly the word (data and
/// init mask) that the binary operator gives, so that the soundness established in (a)-(c) carries over to them.
fn check_forms(lmask: u16, lbase: u16, rmask: u16, rbase: u16) -> Option<(String, String)> {
    let l = Word::verif_from_parts(lbase, lmask); let r = Word::verif_from_parts(rbase, rmask);
    let same = |a: Word, b: Word| a.get() == b.get() && a.verif_init_mask() == b.verif_init_mask();
    let show = |w: Word| format!("data={:#06x} init={:#06x}", w.get(), w.verif_init_mask());
    let what = format!("l=({lbase:#06x}/{lmask:#06x}) r=({rbase:#06x}/{rmask:#06x})");
    let mut x = l; x += r; if !same(x, l + r) { return Some(("form:AddAssign".into(), format!("{what}: `l += r` gives {}, `l + r` gives {}", show(x), show(l + r)))); }
    let mut x = l; x -= r; if !same(x, l - r) { return Some(("form:SubAssign".into(), format!("{what}: `l -= r` gives {}, `l - r` gives {}", show(x), show(l - r)))); }
    let mut x = l; x &= r; if !same(x, l & r) { return Some(("form:BitAndAssign".into(), format!("{what}: `l &= r` gives {}, `l & r` gives {}", show(x), show(l & r)))); }
    let c = Word::new_init(rbase);
    let mut x = l; x += rbase; if !same(x, l + c) { return Some(("form:AddAssign<u16>".into(), format!("{what}: `l += {rbase:#06x}u16` gives {}, `l + init` gives {}", show(x), show(l + c)))); }
    let mut x = l; x += rbase as i16; if !same(x, l + c) { return Some(("form:AddAssign<i16>".into(), format!("{what}: `l += {}i16` gives {}, `l + init` gives {}", rbase as i16, show(x), show(l + c)))); }
    let mut x = l; x -= rbase; if !same(x, l - c) { return Some(("form:SubAssign<u16>".into(), format!("{what}: `l -= {rbase:#06x}u16` gives {}, `l - init` gives {}", show(x), show(l - c)))); }
    let mut x = l; x -= rbase as i16; if !same(x, l - c) { return Some(("form:SubAssign<i16>".into(), format!("{what}: `l -= {}i16` gives {}, `l - init` gives {}", rbase as i16, show(x), show(l - c)))); }
    let (fu, fi): (Word, Word) = (Word::from(rbase), Word::from(rbase as i16));
    if !same(fu, c) || !same(fi, c) { return Some(("form:From".into(), format!("Word::from({rbase:#06x}) gives {} / {}", show(fu), show(fi)))); }
    None
}

pub fn run(ctx: &Ctx) -> Report {
    let mut rep = Report::new("(a) per-bit truth tables of AND/NOT at all 16 positions x 16 combinations x 3 backgrounds; (b) ADD/SUB/AND/NOT over 32x32 mask pairs (uninitialized bits among positions 0,1,2,14,15) x 8x8 base values x all completions of the uninitialized bits; (d) the assignment and mixed-type spellings (+=, -=, &=, += / -= with u16 and i16, From) give exactly the binary operator's word over the same 32x32 masks x 8x8 bases; (c) fully initialized operands: 64-value boundary set x all 65536 (quick) or all 2^32 pairs (thorough); non-trivial = groups with at least one uninitialized operand bit");
    // (a)
    let r = sweep(ctx, 2 * 16 * 16 * 3, 64, |i, acc| {
        let op = if i / (16 * 16 * 3) == 0 { Op::And } else { Op::Not };
        let k = (i / (16 * 3) % 16) as u32; let combo = (i / 3 % 16) as u32; let bg = (i % 3) as u32;
        acc.evals += 1; acc.transitions += 5; acc.count("bitslice_cases", 1);
        match catch(|| check_bitslice(op, k, combo, bg)) {
            Ok(None) => {}
            Ok(Some(d)) => acc.violation(format!("unsound:{op:?}"), format!("a:{i}"), d),
            Err(p) => acc.violation(format!("panic:{}", panic_site(&p)), format!("a:{i}"), p),
        }
    });
    rep.absorb(r);
    // (b)
    let nb = 4u64 * 32 * 32 * 8 * 8;
    let r = sweep(ctx, nb, 256, |i, acc| {
        let op = OPS[(i / (32 * 32 * 64)) as usize];
        let ls = (i / (32 * 64) % 32) as u32; let rs = (i / 64 % 32) as u32;
        let lb = BASES[(i / 8 % 8) as usize]; let rb = BASES[(i % 8) as usize];
        if op == Op::Not && (rs != 0 || i % 8 != 0) { return; }
        acc.evals += 1; acc.count("completion_groups", 1);
        if ls != 0 || rs != 0 { acc.nontrivial += 1; }
        acc.sample(i, ctx.seed, 50_021, || format!("{op:?} lmask={:#06x} lbase={lb:#06x} rmask={:#06x} rbase={rb:#06x}", mask_from(ls), mask_from(rs)));
        match catch(|| check_group(op, mask_from(ls), lb, mask_from(rs), rb)) {
            Ok(Ok(n)) => { acc.transitions += n; acc.outcomes.insert(mix(op as u64, (ls.count_ones() * 8 + rs.count_ones()) as u64)); }
            Ok(Err(d)) => acc.violation(format!("unsound:{op:?}"), format!("b:{i}"), d),
            Err(p) => acc.violation(format!("panic:{}", panic_site(&p)), format!("b:{i}"), p),
        }
    });
    rep.absorb(r);
    // (d)
    let r = sweep(ctx, 32 * 32 * 64, 256, |i, acc| {
        let ls = (i / (32 * 64)) as u32; let rs = (i / 64 % 32) as u32; let lb = BASES[(i / 8 % 8) as usize]; let rb = BASES[(i % 8) as usize];
        acc.evals += 1; acc.transitions += 8; acc.count("operator_form_cases", 1);
        match catch(|| check_forms(mask_from(ls), lb, mask_from(rs), rb)) {
            Ok(None) => {}
            Ok(Some((sig, d))) => acc.violation(sig, format!("d:{i}"), d),
            Err(p) => acc.violation(format!("panic:{}", panic_site(&p)), format!("d:{i}"), p),
        }
    });
    rep.absorb(r);
    // (c)
    let bset: Vec<u16> = {
        let mut v = vec![];
        for b in [0u16, 1, 2, 0x7FFE, 0x7FFF, 0x8000, 0x8001, 0xFFFE, 0xFFFF, 0x00FF, 0x0100, 0xFF00, 0x5555, 0xAAAA, 0x1234, 0xFEDC] { v.push(b); }
        for k in 0..16 { v.push(1 << k); v.push(!(1u16 << k)); v.push((1u16 << k).wrapping_sub(1)); }
        v.truncate(64); v
    };
    if ctx.quick() {
        let r = sweep(ctx, 64 * 65536, 65536, |i, acc| {
            let l = bset[(i / 65536) as usize]; let rr = (i % 65536) as u16;
            acc.evals += 1; acc.transitions += 7;
            for op in OPS {
                if let Some(d) = check_full(op, l, rr) { acc.violation(format!("full:{op:?}"), format!("c:{}:{l}:{rr}", op as u8), d); }
                if op != Op::Not { if let Some(d) = check_full(op, rr, l) { acc.violation(format!("full:{op:?}"), format!("c:{}:{rr}:{l}", op as u8), d); } }
            }
        });
        rep.absorb(r);
        rep.bound("full_init_pairs", Json::s("64 boundary values x all 65536, both operand orders"));
    } else {
        let r = sweep(ctx, 65536, 16, |l, acc| {
            let l = l as u16;
            for rr in 0..=0xFFFFu16 {
                for op in [Op::Add, Op::Sub, Op::And] {
                    if let Some(d) = check_full(op, l, rr) { acc.violation(format!("full:{op:?}"), format!("c:{}:{l}:{rr}", op as u8), d); }
                }
            }
            if let Some(d) = check_full(Op::Not, l, 0) { acc.violation("full:Not", format!("c:3:{l}:0"), d); }
            acc.evals += 65536; acc.transitions += 3 * 65536 + 1;
        });
        rep.absorb(r);
        rep.bound("full_init_pairs", Json::s("all 2^32 ordered pairs for ADD, SUB, AND; all 65536 for NOT"));
    }
    rep.bound("mask_positions", Json::s("0,1,2,14,15")); rep.bound("bases", Json::i(8));
    rep.require(rep.acc.get("completion_groups") > 100_000 && rep.acc.outcomes.len() >= 30, "completion groups with partial masks were explored");
    rep.assume("hook H1 (Word::verif_from_parts / verif_init_mask) exposes the real fields unchanged");
    rep
}

pub fn replay(case: &str) -> Option<String> {
    let p: Vec<&str> = case.split(':').collect();
    match *p.first()? {
        "a" => { let i: u64 = p.get(1)?.parse().ok()?; let op = if i / (16 * 16 * 3) == 0 { Op::And } else { Op::Not };
                 check_bitslice(op, (i / 48 % 16) as u32, (i / 3 % 16) as u32, (i % 3) as u32) }
        "b" => { let i: u64 = p.get(1)?.parse().ok()?; let op = OPS[(i / (32 * 32 * 64)) as usize];
                 check_group(op, mask_from((i / (32 * 64) % 32) as u32), BASES[(i / 8 % 8) as usize], mask_from((i / 64 % 32) as u32), BASES[(i % 8) as usize]).err() }
        "d" => { let i: u64 = p.get(1)?.parse().ok()?; check_forms(mask_from((i / (32 * 64)) as u32), BASES[(i / 8 % 8) as usize], mask_from((i / 64 % 32) as u32), BASES[(i % 8) as usize]).map(|x| x.1) }
        "c" => { let op = OPS[p.get(1)?.parse::<usize>().ok()?]; check_full(op, p.get(2)?.parse().ok()?, p.get(3)?.parse().ok()?) }
        _ => None,
    }
}
