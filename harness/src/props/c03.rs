//! C03 — parser returns exactly the statements written, layout-insensitively.
use super::asmcheck::*;
use super::asmrun::*;
use crate::gen::prog::*;
use crate::util::*;
use lc3_ensemble::asm::assemble_debug;
use lc3_ensemble::parse::parse_ast;

type Outcome = Result<(Vec<(u16, Option<u16>)>, Vec<(String, u16, bool)>), String>;
fn outcome(text: &str) -> Result<Outcome, String> {
    catch(|| {
        let ast = parse_ast(text).map_err(|e| format!("parse: {e:?}"))?;
        match assemble_debug(ast, text) {
            Ok(o) => {
                let img: Vec<_> = o.addr_iter().collect();
                let mut labels: Vec<_> = o.symbol_table().map(|s| s.label_iter().map(|(n, a, e)| (n.to_string(), a, e)).collect()).unwrap_or_default();
                labels.sort();
                Ok((img, labels))
            }
            Err(e) => Err(format!("asm: {:?}", std::mem::discriminant(&e.kind))),
        }
    })
}

fn programs(ctx: &Ctx) -> Vec<(&'static str, u64)> {
    let f = families();
    let mut v = vec![];
    for i in 0..f.len("BASE") { v.push(("BASE", i)); }
    for i in 0..f.len("LAB") { v.push(("LAB", i)); }
    for i in 0..2 { if f.uni.iter().filter(|x| !x.0.contains(':')).nth(i).is_some() { v.push(("UNI", f.uni.iter().position(|x| x.0 == format!("unicode {i}")).unwrap() as u64)); } }
    let stride = ctx.pick(149, 31);
    let mut i = 0; while i < f.len("L1") { v.push(("L1", i)); i += stride; }
    let mut i = 0; while i < f.len("S2") { if f.get("S2", i).is_some() { v.push(("S2", i)); } i += ctx.pick(97, 23); }
    v
}

fn one(fam: &str, idx: u64, p: u64, s: u64) -> Option<(Vec<Fail>, bool)> {
    let prog = families().get(fam, idx)?;
    let mut out = vec![];
    let style = style_of(p, s);
    let parsed = check_parse(&prog, &style, &mut out);
    if let Some(pp) = &parsed {
        // metamorphic clause: same image and labels as the plain rendering of the same program
        let plain = render(&prog, &Style::plain());
        match (outcome(&pp.rendered.text), outcome(&plain.text)) {
            (Ok(a), Ok(b)) => if a != b { out.push(Fail { prop: "C03", sig: "layout-changes-result".into(), detail: format!("rendering under style ({p},{s}) gives {a:x?}, plain rendering gives {b:x?}\n{}", pp.rendered.text) }); },
            (Err(p1), _) | (_, Err(p1)) => out.push(Fail { prop: "C03", sig: format!("panic:{}", panic_site(&p1)), detail: p1 }),
        }
    }
    out.retain(|f| f.prop == "C03");
    Some((out, parsed.is_some()))
}

pub fn run(ctx: &Ctx) -> Report {
    let mut rep = Report::new("abstract programs (base, label-focused, sampled single statements and 2-statement sequences) x the full product of 8 style dimensions (keyword case x3, register case x2, directive case x3, hex prefix x2, numeric notation x3, separator x3, label placement/colon x4, comment+line-end+blank-line style x3 = 3888 styles) plus secondary dimensions (comma spacing x4, comment payloads x5, leading blank lines, missing final newline, indentation) varied one and two at a time against 12 base styles; parse result compared with the abstract program, spans with the renderer's bookkeeping, and every rendering's assembled image/labels with the plain rendering's. non-trivial = rendering whose style differs from the plain style");
    let progs = programs(ctx);
    let np = progs.len() as u64;
    let pstride = ctx.pick(3u64, 1u64);
    let nstyles = Style::PRIMARY.div_ceil(pstride);
    let r = sweep(ctx, np * nstyles, 128, |k, acc| {
        let (fam, idx) = progs[(k / nstyles) as usize];
        // rotate the stride offset per program so that, across programs, every style is used
        let p = ((k % nstyles) * pstride + (k / nstyles) % pstride) % Style::PRIMARY;
        let Some((fails, parsed)) = one(fam, idx, p, DEFAULT_SECONDARY) else { return };
        acc.evals += 1; acc.transitions += 4; if p != 0 { acc.nontrivial += 1; }
        if parsed { acc.count("parsed", 1); }
        acc.outcomes.insert(mix(fnv_str(fam), idx));
        acc.sample(k, ctx.seed, 30011, || { let prog = families().get(fam, idx).unwrap(); format!("{fam}:{idx} style {p}: {}", render(&prog, &style_of(p, DEFAULT_SECONDARY)).text.replace('\n', "\\n").replace('\r', "\\r").replace('\t', "\\t")) });
        for f in fails { acc.violation(f.sig, case_id(fam, idx, p, DEFAULT_SECONDARY, true), f.detail); }
    });
    rep.absorb(r);
    // every single statement of the grammar (all templates, all operand boundary values in every numeric notation the style dimension has)
    // under 8 renderings that together use every value of every style dimension at least once
    let f1 = families();
    let n1 = f1.l1.len() as u64;
    const EIGHT: [u64; 8] = [0, 3887, 324 * 5 + 17, 324 * 9 + 100, 324 * 2 + 1 + 108, 324 * 7 + 200, 324 * 4 + 55, 324 * 10 + 301];
    let r = sweep(ctx, n1 * 8, 256, |k, acc| {
        let (idx, p) = (k / 8, EIGHT[(k % 8) as usize]);
        let Some((fails, parsed)) = one("L1", idx, p, DEFAULT_SECONDARY) else { return };
        acc.evals += 1; acc.transitions += 4; acc.nontrivial += 1; acc.count("single_statements_all", 1); if parsed { acc.count("parsed", 1); }
        for f in fails { acc.violation(f.sig, case_id("L1", idx, p, DEFAULT_SECONDARY, true), f.detail); }
    });
    rep.absorb(r);
    // secondary dimensions, one and two at a time
    let bases: [u64; 12] = [0, 3887, 324, 648, 972, 1296 + 5, 1620 + 77, 1944 + 200, 2268 + 13, 2592 + 101, 2916 + 300, 3240 + 250];
    let secs: Vec<u64> = (0..Style::SECONDARY).filter(|s| Style::secondary_weight(*s) <= 2).collect();
    let ns = secs.len() as u64; let nb = bases.len() as u64;
    let r = sweep(ctx, np * nb * ns, 128, |k, acc| {
        let (fam, idx) = progs[(k / (nb * ns)) as usize];
        let p = bases[(k / ns % nb) as usize]; let s = secs[(k % ns) as usize];
        let Some((fails, _)) = one(fam, idx, p, s) else { return };
        acc.evals += 1; acc.transitions += 4; acc.nontrivial += 1; acc.count("secondary_style_cases", 1);
        for f in fails { acc.violation(f.sig, case_id(fam, idx, p, s, true), f.detail); }
    });
    rep.absorb(r);
    // scale: every program under the gap styles (255 / 256 / 257 / 300 / 1000 comment-only lines in front of statements, 16 before every one) over
    // a few primary styles, and the scale family (long labels, hundreds of blocks / statements, > 65536 lines) under plain and gap styles
    let f = families();
    let mut big: Vec<(&'static str, u64, u64, u64)> = vec![];
    for (fam, idx) in &progs { if *fam == "BASE" || *fam == "LAB" { for g in 1..7u64 { for p in [0u64, 3887, 5 * 324 + 17] { big.push((fam, *idx, p, 1 + 160 * g)); } } } }
    // comment texts outside ASCII (two-, three- and four-byte characters, at the start / end of the comment, next to TABs), on every comment-carrying line style
    for (fam, idx) in &progs { if *fam == "BASE" || *fam == "LAB" || *fam == "UNI" { for e in 0..8u64 { for p in [324 * 4 + 1, 324 * 8 + 1, 3887, 324 * 5 + 17, 324 * 9 + 100] { big.push((fam, *idx, p, 1 + 160 * (7 + e))); } } } }
    for i in 0..f.len("BIG") { for (p, sec) in [(0u64, 1u64), (0, 1 + 160), (3887, 1 + 160 * 4)] { big.push(("BIG", i, p, sec)); } }
    let r = sweep(ctx, big.len() as u64, 4, |k, acc| {
        let (fam, idx, p, s) = big[k as usize];
        let Some((fails, _)) = one(fam, idx, p, s) else { return };
        acc.evals += 1; acc.transitions += 4; acc.nontrivial += 1; acc.count("scale_cases", 1);
        for f in fails { acc.violation(f.sig, case_id(fam, idx, p, s, true), f.detail); }
    });
    rep.absorb(r);
    rep.bound("programs", Json::i(np)); rep.bound("primary_styles", Json::i(Style::PRIMARY)); rep.bound("primary_stride", Json::i(pstride)); rep.bound("secondary_combinations", Json::i(ns));
    rep.require(rep.acc.get("parsed") * 10 > rep.acc.evals * 9 / 2, "renderings parse");
    rep.assume("label names avoid the lexer's documented collisions (x+hex digit, R+digits, mnemonics)");
    rep
}
pub fn replay(case: &str) -> Option<String> {
    let (fam, idx, p, s, _) = parse_case(case)?;
    one(&fam, idx, p, s)?.0.into_iter().next().map(|f| format!("[{}] {}", f.sig, f.detail))
}
