//! C04 — parsing never panics and its errors point inside the input.
use super::asmrun::*;
use crate::gen::prog::*;
use crate::util::*;
use lc3_ensemble::err::Error as _;
use lc3_ensemble::parse::parse_ast;

const SIGMA: [&str; 18] = ["\"", "\\", "n", "\n", "\r", " ", "é", "😀", "x", "-", "#", "9", "R", ".", ",", ":", ";", "A"];

/// second alphabet: other token starters and Unicode classes the lexer's regexes may or may not accept
const SIGMA2: [&str; 16] = ["_", "0", "f", "r", "X", "\t", "'", "+", "\u{a0}", "\u{0663}", "\u{2167}", "\"", "\\", "\n", ":", "\u{feff}"];
fn nth_string2(mut i: u64, len: usize) -> String { let mut s = String::new(); for _ in 0..len { s.push_str(SIGMA2[(i % 16) as usize]); i /= 16; } s }

fn check(text: &str) -> Option<(String, String)> {
    match catch(|| parse_ast(text).map(|v| v.len()).map_err(|e| e.span())) {
        Err(p) => Some((format!("panic:{}", panic_site(&p)), format!("parse_ast panicked: {p}"))),
        Ok(Ok(_)) => None,
        Ok(Err(None)) => Some(("no-span".into(), "error without a span".into())),
        Ok(Err(Some(sp))) => {
            let r = catch(|| { let f = sp.first(); let all: Vec<_> = sp.iter().cloned().collect(); (f, all) });
            match r {
                Err(p) => Some((format!("span-panic:{}", panic_site(&p)), p)),
                Ok((_, all)) => {
                    if all.is_empty() { return Some(("empty-span-list".into(), "error has an empty span list".into())); }
                    for s in all { if s.start > s.end || s.end > text.len() { return Some(("span-outside-input".into(), format!("span {s:?} is not inside the {}-byte input", text.len()))); } }
                    None
                }
            }
        }
    }
}
fn sig_input(text: &str) -> String { hex(text.as_bytes()) }

fn nth_string(mut i: u64, len: usize) -> String { let mut s = String::new(); for _ in 0..len { s.push_str(SIGMA[(i % 18) as usize]); i /= 18; } s }

fn base_texts(ctx: &Ctx) -> Vec<String> {
    let f = families();
    let mut v = vec![];
    for i in 0..f.len("BASE") { if let Some(p) = f.get("BASE", i) { v.push(render(&p, &Style::plain()).text); if i % 3 == 0 { v.push(render(&p, &style_of(3887, 37)).text); } } }
    for i in (0..f.len("L1")).step_by(ctx.pick(211, 61)) { if let Some(p) = f.get("L1", i) { v.push(render(&p, &style_of((i * 7) % Style::PRIMARY, DEFAULT_SECONDARY)).text); } }
    v.retain(|t| t.len() <= 400); // edits are quadratic in the text length
    v.push(".orig x3000\n.stringz \"a\\\"b\\\\c\\n\"\n.end".to_string());
    v.push("LABEL: .stringz \"é😀\" ; é\r\n".to_string());
    v
}
/// Applies edit number `e` to `text` at char position index; returns None if out of range.
fn edits(text: &str) -> Vec<String> {
    let mut v = vec![];
    let bounds: Vec<usize> = text.char_indices().map(|(i, _)| i).chain([text.len()]).collect();
    for w in 0..bounds.len() {
        let b = bounds[w];
        for s in SIGMA { v.push(format!("{}{}{}", &text[..b], s, &text[b..])); }
        if w + 1 < bounds.len() {
            let e = bounds[w + 1];
            v.push(format!("{}{}", &text[..b], &text[e..]));
            for s in SIGMA { v.push(format!("{}{}{}", &text[..b], s, &text[e..])); }
            v.push(text[..b].to_string()); // truncation
        }
    }
    v
}

pub fn run(ctx: &Ctx) -> Report {
    let maxlen = ctx.pick(5usize, 6usize);
    let mut rep = Report::new("(a) all strings of length <=L over an 18-symbol alphabet with one symbol per lexer regex branch and escape-scanner branch (quote, backslash, n, LF, CR, space, 2- and 4-byte UTF-8, x, -, #, 9, R, ., comma, colon, semicolon, A); (a') all strings of length <=4 (thorough 5) over a second 16-symbol alphabet (underscore, 0, f, r, X, TAB, apostrophe, +, NBSP, an Arabic-Indic digit, a Roman-numeral letter, quote, backslash, LF, colon, BOM); (b) every single char-level edit (insert/replace/delete/truncate with every symbol at every position) of ~60 valid program texts, and every pair of edits on short texts (thorough); (c) string literals of 65533..65537 bytes with/without trailing escape or unclosed, numerals of 1..40 digits in each notation. oracle: no panic; Err carries spans with start<=end<=len. non-trivial = input containing a quote or backslash (reaches the string scanner) or rejected by the parser");
    for len in 0..=maxlen {
        let n = 18u64.pow(len as u32);
        let r = sweep(ctx, n, 8192, |i, acc| {
            let s = nth_string(i, len);
            acc.evals += 1; acc.transitions += 1;
            let res = check(&s);
            let cls = catch(|| match parse_ast(&s) { Ok(v) => format!("ok{}", v.len()), Err(e) => e.to_string() }).unwrap_or_else(|_| "panic".into());
            acc.outcomes.insert(fnv_str(&cls));
            let rejected = !cls.starts_with("ok");
            if s.contains('"') || s.contains('\\') || rejected { acc.nontrivial += 1; }
            if rejected { acc.count("rejected", 1); } else { acc.count("accepted", 1); }
            acc.sample(i + len as u64, ctx.seed, 1_000_003, || format!("{s:?}"));
            if let Some((sig, d)) = res { acc.violation(sig, sig_input(&s), format!("{d} on input {s:?}")); }
        });
        rep.absorb(r);
    }
    // (a') second alphabet (Unicode digits / letters / spaces, other token starters)
    for len in 1..=ctx.pick(4usize, 5usize) {
        let r = sweep(ctx, 16u64.pow(len as u32), 8192, |i, acc| {
            let s = nth_string2(i, len);
            acc.evals += 1; acc.transitions += 1; acc.count("alphabet2_strings", 1);
            if s.contains('"') || s.contains('\\') { acc.nontrivial += 1; }
            if let Some((sig, d)) = check(&s) { acc.violation(sig, sig_input(&s), format!("{d} on input {s:?}")); }
        });
        rep.absorb(r);
    }
    // (b)
    let texts = base_texts(ctx);
    let r = sweep(ctx, texts.len() as u64, 1, |i, acc| {
        let t = &texts[i as usize];
        if let Some((sig, d)) = check(t) { acc.violation(sig, sig_input(t), format!("{d} on valid text {t:?}")); }
        for e in edits(t) {
            acc.evals += 1; acc.transitions += 1; acc.nontrivial += 1; acc.count("edit1_cases", 1);
            if let Some((sig, d)) = check(&e) { acc.violation(sig, sig_input(&e), format!("{d} on edited text {e:?}")); }
        }
    });
    rep.absorb(r);
    if ctx.thorough() {
        let short: Vec<&String> = texts.iter().filter(|t| t.len() <= 34).take(16).collect();
        let work: Vec<String> = short.iter().flat_map(|t| edits(t)).collect();
        let r = sweep(ctx, work.len() as u64, 4, |i, acc| {
            for e in edits(&work[i as usize]) {
                acc.evals += 1; acc.transitions += 1; acc.nontrivial += 1; acc.count("edit2_cases", 1);
                if let Some((sig, d)) = check(&e) { acc.violation(sig, sig_input(&e), format!("{d} on doubly edited text {e:?}")); }
            }
        });
        rep.absorb(r);
    }
    // (c)
    let mut ladder: Vec<String> = vec![];
    for n in 65530..=65540usize {
        for tail in ["\"", "\\n\"", "\\\"", "", "\\", "\\é\"", "é\""] {
            ladder.push(format!(".stringz \"{}{tail}", "a".repeat(n)));
            ladder.push(format!(".orig x3000\nL .stringz \"{}{tail}\n.end\n", "b".repeat(n)));
        }
    }
    for d in 1..=40usize { for pre in ["", "#", "-", "#-", "x", "X", "x-", "R", "r"] { for digit in ["9", "0", "F", "1"] {
        ladder.push(format!("{pre}{}", digit.repeat(d)));
        ladder.push(format!(".fill {pre}{}", digit.repeat(d)));
        ladder.push(format!("ADD R0, R0, {pre}{}", digit.repeat(d)));
    } } }
    let r = sweep(ctx, ladder.len() as u64, 8, |i, acc| {
        let t = &ladder[i as usize];
        acc.evals += 1; acc.transitions += 1; acc.nontrivial += 1; acc.count("ladder_cases", 1);
        if let Some((sig, d)) = check(t) { acc.violation(sig, if t.len() > 200 { format!("ladder:{i}") } else { sig_input(t) }, format!("{d} on ladder input #{i} ({} bytes, starts {:?})", t.len(), &t[..t.len().min(30)])); }
    });
    rep.absorb(r);
    // (f) every character whose upper- or lower-case mapping changes its length (in chars or UTF-8 bytes) or has no single-char mapping
    //     ("special casing": sharp s, dotless/dotted i, ligatures, n-apostrophe, Greek with dialytika ...), found by scanning all of Unicode,
    //     behind 0..=8 ASCII letters, in every token position: directive name, label, label with colon, operand, after R / x / #, in a string
    let special: Vec<char> = (0u32..0x11_0000).filter_map(char::from_u32).filter(|c| {
        let (u, l): (String, String) = (c.to_uppercase().collect(), c.to_lowercase().collect());
        u.chars().count() != 1 || l.chars().count() != 1 || u.len() != c.len_utf8() || l.len() != c.len_utf8()
    }).collect();
    let ns = special.len() as u64;
    let r = sweep(ctx, ns * 9, 16, |i, acc| {
        let (c, pad) = (special[(i / 9) as usize], "a".repeat((i % 9) as usize));
        for t in [format!(".{pad}{c}"), format!(".{pad}{c} x3000"), format!("{pad}{c}"), format!("{pad}{c}: HALT"), format!("{pad}{c} HALT"), format!(".fill {pad}{c}"), format!("LD R0, {pad}{c}"), format!("R{pad}{c}"), format!("x{pad}{c}"), format!("#{pad}{c}"),
                  format!(".stringz \"{pad}{c}\""), format!(".external {pad}{c}\n.orig x3000\n.fill {pad}{}\n.end", c.to_uppercase().collect::<String>()), format!("{c}{pad}"), format!(".{c}{pad}")] {
            acc.evals += 1; acc.transitions += 1; acc.count("special_casing_inputs", 1);
            if let Some((sig, d)) = check(&t) { acc.violation(sig, sig_input(&t), format!("{d} on input {t:?}")); }
        }
    });
    rep.absorb(r);
    rep.bound("special_casing_characters", Json::i(ns));
    // (g) escape syntaxes: a backslash followed by every printable ASCII character (and a non-ASCII one), alone and followed by a value in the
    //     bracket / digit forms other languages use (\u{..}, \x.., \NNN, \U........, \N{..}), for values on both sides of every boundary of
    //     the Unicode scalar range (surrogates, > 10FFFF, > 32 bits) and of one / two bytes; plus unterminated and empty groups
    const ESC_VALUES: [&str; 30] = ["", "0", "7", "00", "000", "033", "377", "400", "777", "7F", "80", "FF", "100", "7FF", "800", "D7FF", "D800", "d800", "00D800", "DBFF", "DC00", "DFFF", "E000", "FFFF", "10000", "10FFFF", "110000", "FFFFFFFF", "100000000", "zz"];
    let esc_chars: Vec<char> = (0x21u8..0x7F).map(|b| b as char).chain(['é']).collect();
    let r = sweep(ctx, esc_chars.len() as u64 * 30, 16, |i, acc| {
        let (e, v) = (esc_chars[(i / 30) as usize], ESC_VALUES[(i % 30) as usize]);
        for lit in [format!("\\{e}{v}"), format!("\\{e}{{{v}}}"), format!("\\{e}{{{v}"), format!("\\{e}({v})"), format!("\\{e}[{v}]"), format!("\\{e}<{v}>"), format!("a\\{e}{v}b"), format!("\\{e}{{{v}}}\\{e}{{{v}}}")] {
            for t in [format!(".stringz \"{lit}\""), format!(".orig x3000\nS .stringz \"{lit}\" ; c\n.end\n")] {
                acc.evals += 1; acc.transitions += 1; acc.nontrivial += 1; acc.count("escape_syntax_inputs", 1);
                if let Some((sig, d)) = check(&t) { acc.violation(sig, sig_input(&t), format!("{d} on input {t:?}")); }
            }
        }
    });
    rep.absorb(r);
    // scale: 12 kinds of very long / very repetitive inputs x 6 sizes (255 .. 10^6), each evaluated in its own process
    let r = sweep(ctx, (GEN_KINDS.len() * GEN_N.len()) as u64, 1, |i, acc| {
        let (kind, n) = ((i as usize) / GEN_N.len(), GEN_N[(i as usize) % GEN_N.len()]);
        if (kind == 7 || kind == 0) && n > 65_536 { return; } // runs of statement-less lines are parsed in quadratic time: kept below a minute
        acc.evals += 1; acc.transitions += n as u64; acc.nontrivial += 1; acc.count("isolated_scale_inputs", 1);
        match isolated("C04", &format!("iso:gen:{kind}:{n}")) {
            Ok(None) => {}
            Ok(Some(d)) => { let sig = d.split(']').next().unwrap_or("").trim_start_matches('[').to_string(); acc.violation(if sig.is_empty() { "isolated".into() } else { sig }, format!("iso:gen:{kind}:{n}"), format!("{} (n = {n}): {d}", GEN_KINDS[kind])); }
            Err(e) => acc.violation("machinery:isolated".to_string(), format!("iso:gen:{kind}:{n}"), e),
        }
    });
    rep.absorb(r);
    rep.bound("max_length", Json::i(maxlen as u64)); rep.bound("alphabet", Json::i(18)); rep.bound("texts", Json::i(texts.len() as u64));
    rep.require(rep.acc.get("rejected") > 1000 && rep.acc.get("accepted") > 1000, "both accepted and rejected inputs explored");
    rep
}
fn parse_ok(s: &str) -> Option<bool> { catch(|| parse_ast(s).is_ok()).ok() }

/// scale inputs, identified by (kind, n): nesting / repetition / length far beyond the small scope; evaluated in a child process because a
/// stack overflow aborts instead of unwinding
const GEN_KINDS: [&str; 12] = ["n label lines before one statement", "n labels on one line before one statement", "an identifier of n characters", "a decimal literal of n digits", "a string literal of n characters",
    "n commas", "a comment of n characters", "n blank lines then a statement", "n `L:` label-colon pairs on one line", "n statements", "n nested-looking quotes and backslashes", "a hex literal of n digits"];
const GEN_N: [usize; 6] = [255, 4096, 20_000, 65_536, 200_000, 1_000_000];
fn gen_text(kind: usize, n: usize) -> String {
    match kind {
        0 => { let mut s = String::from(".orig x3000\n"); for k in 0..n { s.push_str(&format!("L{k}\n")); } s.push_str("HALT\n.end\n"); s }
        1 => { let mut s = String::from(".orig x3000\n"); for k in 0..n { s.push_str(&format!("L{k} ")); } s.push_str("HALT\n.end\n"); s }
        2 => format!(".orig x3000\nL{} HALT\n.end\n", "a".repeat(n)),
        3 => format!(".fill #{}\n", "9".repeat(n)),
        4 => format!(".stringz \"{}\"\n", "s".repeat(n)),
        5 => format!("ADD R0{}\n", ",".repeat(n)),
        6 => format!("HALT ;{}\n", "c".repeat(n)),
        7 => format!("{}HALT\n", "\n".repeat(n)),
        8 => format!("{}HALT\n", "L: ".repeat(n)),
        9 => "ADD R0, R0, #1\n".repeat(n),
        10 => format!(".stringz \"{}\n", "\\\"".repeat(n)),
        _ => format!(".fill x{}\n", "F".repeat(n)),
    }
}
fn check_gen(kind: usize, n: usize) -> Option<(String, String)> { check(&gen_text(kind, n)) }

pub fn replay(case: &str) -> Option<String> {
    if let Some(r) = case.strip_prefix("iso:gen:") { let (k, n) = r.split_once(':')?; return check_gen(k.parse().ok()?, n.parse().ok()?).map(|x| format!("[{}] {}", x.0, x.1)); }
    if let Some(i) = case.strip_prefix("ladder:") {
        // rebuild the ladder deterministically
        let i: usize = i.parse().ok()?;
        let mut ladder: Vec<String> = vec![];
        for n in 65530..=65540usize { for tail in ["\"", "\\n\"", "\\\"", "", "\\", "\\é\"", "é\""] {
            ladder.push(format!(".stringz \"{}{tail}", "a".repeat(n)));
            ladder.push(format!(".orig x3000\nL .stringz \"{}{tail}\n.end\n", "b".repeat(n)));
        } }
        return check(ladder.get(i)?).map(|x| x.1);
    }
    let s = String::from_utf8(unhex(case)?).ok()?;
    check(&s).map(|x| format!("{} on input {s:?}", x.1))
}
