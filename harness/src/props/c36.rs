//! C36 — printed statements reparse to the same statement.
use super::asmrun::*;
use crate::util::*;

/// Token-level texts: whatever the parser accepts must print to something it accepts again as the same statements — also for spellings the
/// program generators avoid (labels that look like mnemonics, registers or literals; colons; several labels; odd operand kinds).
const TOKENS: [&str; 20] = ["OUT", "out:", "LD", "R0", ",", "LOOP", "LOOP:", ".fill", "x10", "\n", "ADD", "#1", "IN:", "Ret", "BRnzp", "R8", "xyz", ".stringz", "\"s\"", "HALT"];
const LIT_PIECES: [&str; 10] = ["\\0", "0", "7", "4", "8", "\\n", "\\\\", "\\\"", "a", "x"];
fn token_text(mut i: u64, len: usize) -> String { let mut v = vec![]; for _ in 0..len { v.push(TOKENS[(i % 20) as usize]); i /= 20; } v.join(" ") }
fn check_text(text: &str) -> Option<(String, String)> {
    let ast = match catch(|| lc3_ensemble::parse::parse_ast(text)) { Ok(Ok(a)) => a, _ => return None };
    let mut out = vec![];
    super::asmcheck::check_print_reparse(&ast, &mut out);
    out.into_iter().find(|f| f.prop == "C36").map(|f| (f.sig, format!("{} (source text {text:?})", f.detail)))
}

pub fn run(ctx: &Ctx) -> Report {
    let mut rep = Report::new("every statement obtained by parsing the L1 single-statement programs (all templates and operand boundary values), the 1-2 statement sequences with 0-2 labels, label/base/fence programs and string literals over printable ASCII, TAB, LF, CR, NUL; each printed with Display and reparsed, compared through a span-insensitive projection. non-trivial = every program parsed (each contributes >=2 statements)");
    let plain = vec![(0u64, DEFAULT_SECONDARY)];
    let plans = vec![
        Plan { fam: "L1", styles: plain.clone(), debug: vec![false], stride: 1 },
        Plan { fam: "S1", styles: plain.clone(), debug: vec![false], stride: 1 },
        Plan { fam: "S2", styles: plain.clone(), debug: vec![false], stride: ctx.pick(3, 1) },
        Plan { fam: "BASE", styles: plain.clone(), debug: vec![false], stride: 1 },
        Plan { fam: "LAB", styles: plain.clone(), debug: vec![false], stride: 1 },
        Plan { fam: "LIM", styles: plain.clone(), debug: vec![false], stride: 1 },
        Plan { fam: "F1", styles: plain.clone(), debug: vec![false], stride: 1 },
        Plan { fam: "STR", styles: plain.clone(), debug: vec![false], stride: 1 },
        Plan { fam: "BIG", styles: plain.clone(), debug: vec![false], stride: 1 },
    ];
    run_plans(ctx, &mut rep, "C36", &plans, &|i| i.parsed);
    for len in 1..=ctx.pick(4usize, 5usize) {
        let r = sweep(ctx, 20u64.pow(len as u32), 1024, |i, acc| {
            let t = token_text(i, len);
            acc.evals += 1; acc.count("token_texts", 1);
            if catch(|| lc3_ensemble::parse::parse_ast(&t)).map(|r| r.is_ok()).unwrap_or(false) { acc.count("token_texts_accepted", 1); acc.nontrivial += 1; }
            if let Some((sig, d)) = check_text(&t) { acc.violation(sig, format!("tok:{}", hex(t.as_bytes())), d); }
        });
        rep.absorb(r);
    }
    // string literals as texts: every sequence of <= 5 (thorough 6) pieces over escapes and the characters that could continue one (digits after
    // \0, letters after a backslash, quotes): what the printer writes for the parsed string must read back as the same string
    for len in 0..=ctx.pick(5usize, 6usize) {
        let r = sweep(ctx, 10u64.pow(len as u32), 1024, |i, acc| {
            let mut k = i; let mut lit = String::new(); for _ in 0..len { lit.push_str(LIT_PIECES[(k % 10) as usize]); k /= 10; }
            let t = format!("S .stringz \"{lit}\"");
            acc.evals += 1; acc.count("string_literal_texts", 1); acc.nontrivial += 1;
            if let Some((sig, d)) = check_text(&t) { acc.violation(sig, format!("tok:{}", hex(t.as_bytes())), d); }
        });
        rep.absorb(r);
    }
    rep.require(rep.acc.get("token_texts_accepted") > 500, "token-level texts were accepted and printed");
    rep.require(rep.acc.nontrivial > 10_000, "many statements were printed and reparsed");
    rep.assume("string literals restricted to printable ASCII, TAB, LF, CR, NUL (property precondition); other literals are skipped");
    rep
}
pub fn replay(case: &str) -> Option<String> {
    if let Some(h) = case.strip_prefix("tok:") { return check_text(&String::from_utf8(unhex(h)?).ok()?).map(|x| format!("[{}] {}", x.0, x.1)); }
    replay_case("C36", case)
}
