//! C36 — printed statements reparse to the same statement.
use super::asmrun::*;
use crate::util::*;

pub fn run(ctx: &Ctx) -> Report {
    let mut rep = Report::new("every statement obtained by parsing the L1 single-statement programs (all templates and operand boundary values), the 1-2 statement sequences with 0-2 labels, label/base/fence programs and string literals over printable ASCII, TAB, LF, CR, NUL; each printed with Display and reparsed, compared through a span-insensitive projection. non-trivial = every program parsed (each contributes >=2 statements)");
    let plain = vec![(0u64, DEFAULT_SECONDARY)];
    let plans = vec![
        Plan { fam: "L1", styles: plain.clone(), debug: vec![false], stride: 1 },
        Plan { fam: "S1", styles: plain.clone(), debug: vec![false], stride: 1 },
        Plan { fam: "S2", styles: plain.clone(), debug: vec![false], stride: ctx.pick(3, 1) },
        Plan { fam: "BASE", styles: plain.clone(), debug: vec![false], stride: 1 },
        Plan { fam: "LAB", styles: plain.clone(), debug: vec![false], stride: 1 },
        Plan { fam: "LIM", styles: plain.clone(), debug: vec![false], stride: 1 },
        Plan { fam: "F1", styles: plain.clone(), debug: vec![false], stride: 1 },
        Plan { fam: "STR", styles: plain.clone(), debug: vec![false], stride: 1 },
        Plan { fam: "BIG", styles: plain.clone(), debug: vec![false], stride: 1 },
    ];
    run_plans(ctx, &mut rep, "C36", &plans, &|i| i.parsed);
    rep.require(rep.acc.nontrivial > 10_000, "many statements were printed and reparsed");
    rep.assume("string literals restricted to printable ASCII, TAB, LF, CR, NUL (property precondition); other literals are skipped");
    rep
}
pub fn replay(case: &str) -> Option<String> { replay_case("C36", case) }
