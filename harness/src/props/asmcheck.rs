//! Shared oracle for the parse/assemble pipeline: renders an abstract program under a style, runs the real
//! parser and assembler, and compares with RefAsm and the renderer's bookkeeping. Failures are tagged with
//! the property they violate so each engine keeps only its own.
use crate::gen::prog::*;
use crate::gen::project::*;
use crate::refs::asm::{self as refasm, Cond, RefResult};
use crate::util::*;
use lc3_ensemble::asm::{assemble, assemble_debug, AsmErr, AsmErrKind, ObjectFile};
use lc3_ensemble::ast::asm::Stmt;
use lc3_ensemble::err::Error as _;
use lc3_ensemble::parse::parse_ast;
use std::collections::{BTreeMap, BTreeSet};

pub struct Fail { pub prop: &'static str, pub sig: String, pub detail: String }
fn fail(out: &mut Vec<Fail>, prop: &'static str, sig: impl Into<String>, detail: impl Into<String>) { out.push(Fail { prop, sig: sig.into(), detail: detail.into() }); }

#[derive(Default, Clone)]
pub struct Info { pub parsed: bool, pub wellformed: bool, pub accepted: bool, pub labels: usize, pub label_operands: usize, pub image_words: usize, pub outcome_hash: u64, pub err_kind: Option<String> }

pub struct Parsed { pub ast: Vec<Stmt>, pub rendered: Rendered }

/// C03 part: parse and compare with what was written.
pub fn check_parse(prog: &AProg, style: &Style, out: &mut Vec<Fail>) -> Option<Parsed> {
    let rendered = render(prog, style);
    let text = rendered.text.clone();
    let ast = match catch(|| parse_ast(&text)) {
        Err(p) => { fail(out, "C04", format!("panic:{}", panic_site(&p)), format!("parse_ast panicked: {p}\n{text}")); return None; }
        Ok(Err(e)) => {
            fail(out, "C03", "parse-rejects", format!("in-grammar text rejected: {e:?}\n{text}"));
            // no object file for a well-formed program is a C01 failure wherever the rejection happens
            let rr = refasm::assemble(prog);
            if rr.violated.is_empty() && !rr.ambiguous { fail(out, "C01", "no-object:parse-rejects", format!("well-formed program produced no object file: the parser rejected it: {e:?}\n{text}")); }
            return None;
        }
        Ok(Ok(a)) => a,
    };
    if ast.len() != prog.len() {
        fail(out, "C03", "stmt-count", format!("{} statements parsed, {} written\n{text}", ast.len(), prog.len()));
        let rr = refasm::assemble(prog);
        if rr.violated.is_empty() && !rr.ambiguous { fail(out, "C01", "wrong-statements", format!("well-formed program: {} statements parsed, {} written, so the image cannot be the program's\n{text}", ast.len(), prog.len())); }
        return None;
    }
    let mut mismatch = false;
    for (i, (s, a)) in ast.iter().zip(prog.iter()).enumerate() {
        let got = project(s); let exp = normalize_stmt(a);
        // a statement parsed differently from what was written is C03's finding; the pipeline goes on, so that the image (C01) is judged against the text as well
        if got != exp { if !mismatch { fail(out, "C03", "stmt-mismatch", format!("statement {i}: parsed {got:?}, written {exp:?}\n{text}")); } mismatch = true; continue; }
        if s.span != rendered.spans[i] {
            fail(out, "C03", "stmt-span", format!("statement {i}: span {:?} = {:?}, expected {:?} = {:?}", s.span, text.get(s.span.clone()), rendered.spans[i], &text[rendered.spans[i].clone()]));
        }
        for (k, l) in s.labels.iter().enumerate() {
            if l.span() != rendered.label_spans[i][k] { fail(out, "C03", "label-span", format!("statement {i} label {}: span {:?}, expected {:?}", l.name, l.span(), rendered.label_spans[i][k])); }
        }
    }
    Some(Parsed { ast, rendered })
}

fn upper(s: &str) -> String { s.to_ascii_uppercase() }

/// All label names bound (defined or declared external) in the program, upper-cased -> first binding (stmt index, span).
fn first_bindings(prog: &AProg, r: &Rendered) -> BTreeMap<String, std::ops::Range<usize>> {
    let mut m = BTreeMap::new();
    for (i, s) in prog.iter().enumerate() {
        for (k, l) in s.labels.iter().enumerate() { m.entry(upper(l)).or_insert(r.label_spans[i][k].clone()); }
        if let Nuc::External(l) = &s.nuc { if let Some(sp) = &r.operand_label_spans[i] { m.entry(upper(l)).or_insert(sp.clone()); } }
    }
    m
}

pub fn check_error_spans(e: &AsmErr, text: &str, prog: &AProg, rr: &RefResult, out: &mut Vec<Fail>) {
    let kind = e.kind;
    let r = catch(|| {
        let first = e.span.first();
        let all: Vec<_> = e.span.iter().cloned().collect();
        let viaerr = e.span().map(|s| s.iter().cloned().collect::<Vec<_>>());
        (first, all, viaerr)
    });
    let (first, all, viaerr) = match r {
        Ok(x) => x,
        Err(p) => { fail(out, "C26", format!("span-panic:{}", panic_site(&p)), format!("querying the spans of {kind:?} panicked: {p}")); return; }
    };
    if all.is_empty() { fail(out, "C26", "empty-span-list", format!("{kind:?} has no spans")); return; }
    if first != all[0] || viaerr.as_ref() != Some(&all) { fail(out, "C26", "span-accessors-disagree", format!("{kind:?}: first={first:?} iter={all:?} Error::span={viaerr:?}")); }
    for s in &all {
        if s.start > s.end || s.end > text.len() || !text.is_char_boundary(s.start) || !text.is_char_boundary(s.end) {
            fail(out, "C26", "span-outside-source", format!("{kind:?}: span {s:?} not inside the {}-byte source", text.len())); return;
        }
    }
    // label errors must cover a spelling of the offending label
    let names_at = |c: Cond| -> BTreeSet<String> {
        let mut set = BTreeSet::new();
        for (cc, i) in &rr.sites { if *cc == c {
            let s = &prog[*i];
            match c {
                Cond::LabelOutsideBlock | Cond::DuplicateLabel => { for l in &s.labels { set.insert(upper(l)); } if let Nuc::External(l) = &s.nuc { set.insert(upper(l)); } }
                _ => { if let Some(l) = s.nuc.label_operand() { set.insert(upper(l)); } }
            }
        } }
        set
    };
    let offending: Option<BTreeSet<String>> = match kind {
        AsmErrKind::OverlappingLabels => Some(names_at(Cond::DuplicateLabel)),
        AsmErrKind::CouldNotFindLabel => Some(names_at(Cond::UndefinedLabel)),
        AsmErrKind::OffsetNewErr(_) => Some(names_at(Cond::OffsetDoesNotFit)),
        AsmErrKind::OffsetExternal => Some(names_at(Cond::ExternalInOffset)),
        AsmErrKind::UndetAddrLabel => Some(names_at(Cond::LabelOutsideBlock)),
        _ => None,
    };
    if let Some(names) = offending {
        if rr.ambiguous && names.is_empty() { return; }
        for s in &all {
            let t = upper(&text[s.clone()]);
            if !names.contains(&t) { fail(out, "C26", format!("label-span:{kind:?}"), format!("{kind:?}: span {s:?} covers {:?}, not a spelling of an offending label {names:?}", &text[s.clone()])); return; }
        }
    }
}

/// C26 on a source that carries characters in front of its first line which the abstract program does not describe (byte order mark, other
/// format / space / control characters): if the parser takes the text and the assembler returns an error, its spans are judged against the
/// text as given. Returns (parsed, errored).
pub fn check_affixed_spans(prog: &AProg, style: &Style, prefix: &str, out: &mut Vec<Fail>) -> (bool, bool) {
    let rendered = render(prog, style);
    let text = format!("{prefix}{}", rendered.text);
    let ast = match catch(|| parse_ast(&text)) { Err(p) => { fail(out, "C04", format!("panic:{}", panic_site(&p)), format!("parse_ast panicked: {p}")); return (false, false); } Ok(Err(_)) => return (false, false), Ok(Ok(a)) => a };
    let rr = refasm::assemble(prog);
    match catch(|| assemble_debug(ast, &text)) {
        Err(p) => { fail(out, "C02", format!("panic:{}", panic_site(&p)), format!("assembling panicked: {p}")); (true, false) }
        Ok(Ok(_)) => (true, false),
        Ok(Err(e)) => { check_error_spans(&e, &text, prog, &rr, out); (true, true) }
    }
}

/// Full pipeline check. Returns per-case info for coverage accounting.
pub fn check_program(prog: &AProg, style: &Style, debug: bool, out: &mut Vec<Fail>) -> Info {
    let mut info = Info::default();
    let Some(Parsed { ast, rendered }) = check_parse(prog, style, out) else { return info };
    info.parsed = true;
    let text = &rendered.text;
    let rr = refasm::assemble(prog);
    info.wellformed = rr.violated.is_empty() && !rr.ambiguous;
    info.label_operands = prog.iter().filter(|s| s.nuc.label_operand().is_some()).count();
    // C36 on every parsed statement
    check_print_reparse(&ast, out);
    let ast2 = ast.clone();
    let res = catch(|| if debug { assemble_debug(ast2, text) } else { assemble(ast2) });
    let res = match res {
        Ok(r) => r,
        Err(p) => {
            fail(out, "C02", format!("panic:{}", panic_site(&p)), format!("assembling panicked: {p}\n{text}"));
            if info.wellformed { fail(out, "C01", format!("no-object:panic:{}", panic_site(&p)), format!("well-formed program produced no object file: assembling panicked: {p}\n{text}")); }
            return info;
        }
    };
    match res {
        Err(e) => {
            info.err_kind = Some(format!("{:?}", e.kind));
            info.outcome_hash = fnv_str(&format!("{:?}", std::mem::discriminant(&e.kind)));
            if rr.violated.is_empty() && !rr.ambiguous {
                fail(out, "C02", format!("rejects-wellformed:{:?}", e.kind), format!("well-formed program rejected with {:?}\n{text}", e.kind));
                // C01 promises an object file with the right image for every well-formed program: none at all is a C01 failure too
                fail(out, "C01", format!("no-object:{:?}", e.kind), format!("well-formed program produced no object file: rejected with {:?}\n{text}", e.kind));
            } else {
                let named = refasm::kind_names(&e.kind);
                let ok = named.iter().any(|c| rr.violated.contains(c)) || (rr.ambiguous && refasm::address_dependent(&e.kind));
                if !ok { fail(out, "C02", format!("wrong-kind:{:?}", e.kind), format!("error {:?} names none of the violated conditions {:?}\n{text}", e.kind, rr.violated)); }
            }
            check_error_spans(&e, text, prog, &rr, out);
        }
        Ok(obj) => {
            info.accepted = true;
            if !rr.violated.is_empty() {
                fail(out, "C02", format!("accepts-illformed:{:?}", rr.violated.iter().next().unwrap()), format!("ill-formed program accepted; violated {:?}\n{text}", rr.violated));
                return info;
            }
            let Some(ro) = &rr.obj else { return info };
            info.labels = ro.labels.len(); info.image_words = ro.image.len();
            check_image(&obj, ro, debug, text, out);
            // without debug symbols a table still exists when the file declares externals (it is linker information): its label queries are judged too
            if debug || obj.symbol_table().is_some() { check_symbols(&obj, ro, prog, &rendered, out); }
            let mut h = 0u64; for (a, w) in &ro.image { h = mix(h, (*a as u64) << 17 | w.map(|x| x as u64 + 1).unwrap_or(0)); }
            info.outcome_hash = h;
        }
    }
    info
}

pub fn check_image(obj: &ObjectFile, ro: &refasm::RefObj, debug: bool, text: &str, out: &mut Vec<Fail>) {
    let mut got: BTreeMap<u16, Option<u16>> = BTreeMap::new();
    let mut dup = false;
    for (a, w) in obj.addr_iter() { if got.insert(a, w).is_some() { dup = true; } }
    if dup { fail(out, "C01", "address-twice", format!("addr_iter yields an address twice\n{text}")); }
    if got != ro.image {
        let diff: Vec<String> = ro.image.iter().filter(|(a, w)| got.get(a) != Some(w)).take(4).map(|(a, w)| format!("x{a:04X}: expected {w:x?} got {:x?}", got.get(a))).collect();
        let extra: Vec<String> = got.keys().filter(|a| !ro.image.contains_key(a)).take(4).map(|a| format!("x{a:04X} defined but should not be")).collect();
        fail(out, "C01", if !extra.is_empty() && diff.is_empty() { "extra-address" } else { "wrong-word" }, format!("image differs: {diff:?} {extra:?}\n{text}"));
    }
    // with debug symbols requested the symbol table must exist (label checks rely on it); without them the property is silent
    if debug && obj.symbol_table().is_none() { fail(out, "C01", "symbol-table-missing", "assemble_debug returned an object without a symbol table".to_string()); }
}

pub fn spellings(name: &str) -> Vec<String> {
    let alt: String = name.chars().enumerate().map(|(i, c)| if i % 2 == 0 { c.to_ascii_uppercase() } else { c.to_ascii_lowercase() }).collect();
    let mut v = vec![name.to_string(), name.to_ascii_uppercase(), name.to_ascii_lowercase(), alt];
    v.dedup(); v
}

pub fn check_symbols(obj: &ObjectFile, ro: &refasm::RefObj, prog: &AProg, r: &Rendered, out: &mut Vec<Fail>) {
    let Some(sym) = obj.symbol_table() else { return };
    let text = &r.text;
    // ---- C01/C23: label listing
    let mut listed: BTreeMap<String, (u16, bool)> = BTreeMap::new();
    // (sorted first: the listing comes out of a hash map, and every reported detail must be reproducible)
    let mut listing: Vec<(String, u16, bool)> = sym.label_iter().map(|(n, a, e)| (n.to_string(), a, e)).collect();
    listing.sort();
    for (n, a, e) in &listing { if listed.insert(upper(n), (*a, *e)).is_some() { fail(out, "C23", "label-listed-twice", format!("the listing contains two spellings of {} (e.g. {n:?})", upper(n))); } }
    let exp_names: BTreeSet<&String> = ro.labels.keys().collect();
    let got_names: BTreeSet<&String> = listed.keys().collect();
    if exp_names != got_names { fail(out, "C23", "label-set", format!("label_iter lists {got_names:?}, program has {exp_names:?}\n{text}")); fail(out, "C01", "label-set", format!("label_iter lists {got_names:?}, program has {exp_names:?}\n{text}")); }
    for (n, (a, e)) in &ro.labels {
        if let Some((ga, ge)) = listed.get(n) {
            if ga != a { fail(out, "C01", "label-addr", format!("label {n} listed at x{ga:04X}, expected x{a:04X}\n{text}")); fail(out, "C23", "label-addr", format!("label {n} listed at x{ga:04X}, expected x{a:04X}")); }
            if ge != e && !ro.ext_ambiguous.contains(n) { fail(out, "C23", "label-external-flag", format!("label {n} external={ge}, expected {e}\n{text}")); }
        }
    }
    let firsts = first_bindings(prog, r);
    // original spellings of every label
    let mut written: BTreeMap<String, String> = BTreeMap::new();
    for s in prog { for l in &s.labels { written.entry(upper(l)).or_insert(l.clone()); } if let Nuc::External(l) = &s.nuc { written.entry(upper(l)).or_insert(l.clone()); } }
    for (n, (a, _)) in &ro.labels {
        for sp in spellings(written.get(n).unwrap_or(n)) {
            match sym.lookup_label(&sp) {
                Some(g) if g == *a => {}
                other => { fail(out, "C23", "lookup_label", format!("lookup_label({sp:?}) = {other:x?}, expected x{a:04X}\n{text}")); fail(out, "C01", "lookup_label", format!("lookup_label({sp:?}) = {other:x?}, expected x{a:04X}\n{text}")); }
            }
            match sym.get_label_source(&sp) {
                Some(g) => {
                    let ok_text = text.get(g.clone()).map(|t| t.eq_ignore_ascii_case(n)).unwrap_or(false);
                    if !ok_text || Some(&g) != firsts.get(n) { fail(out, "C23", "get_label_source", format!("get_label_source({sp:?}) = {g:?} ({:?}), expected first occurrence {:?}\n{text}", text.get(g.clone()), firsts.get(n))); }
                }
                None => fail(out, "C23", "get_label_source:none", format!("get_label_source({sp:?}) = None for a label of the program (first occurrence {:?})", firsts.get(n))),
            }
        }
        match sym.rev_lookup_label(*a) {
            Some(g) if ro.labels.get(&upper(g)).map(|x| x.0) == Some(*a) => {}
            other => fail(out, "C23", "rev_lookup_label", format!("rev_lookup_label(x{a:04X}) returned {}, not a label recorded at that address\n{text}", if other.is_some() { "a name" } else { "None" })),
        }
    }
    // absent names
    let mut absent: Vec<String> = vec!["ZZ_ABSENT".into(), "".into()];
    for n in ro.labels.keys().take(3) { absent.push(format!("{n}Q")); if n.chars().count() > 1 { let mut t = n.clone(); t.pop(); absent.push(t); } }
    for n in absent {
        if ro.labels.contains_key(&upper(&n)) { continue; }
        if sym.lookup_label(&n).is_some() || sym.get_label_source(&n).is_some() { fail(out, "C23", "absent-name", format!("name {n:?} is not in the program but a lookup succeeds")); }
    }
    let used: BTreeSet<u16> = ro.labels.values().map(|x| x.0).collect();
    for a in [0x0000u16, 0x2FFF, 0x3000, 0x3001, 0xFDFF, 0xFFFF] {
        if !used.contains(&a) { if sym.rev_lookup_label(a).is_some() { fail(out, "C23", "rev-absent", format!("rev_lookup_label(x{a:04X}) returns a name but no label is at that address")); } }
    }
    // ---- C24: line <-> address
    let mut exp: BTreeMap<usize, u16> = BTreeMap::new();
    for (i, s) in prog.iter().enumerate() {
        if s.nuc.size() > 0 { if let Some(a) = ro.stmt_addr[i] { exp.insert(r.lines[i], a); } }
    }
    let got: Vec<(usize, u16)> = sym.line_iter().collect();
    let gotm: BTreeMap<usize, u16> = got.iter().cloned().collect();
    if gotm.len() != got.len() { fail(out, "C24", "line-twice", format!("line_iter lists a line twice: {got:x?}")); }
    if gotm != exp {
        let bad: Vec<String> = gotm.iter().filter(|(l, a)| exp.get(l) != Some(a)).take(3).map(|(l, a)| format!("line {l} -> x{a:04X} (expected {:x?})", exp.get(l))).collect();
        let missing: Vec<String> = exp.iter().filter(|(l, _)| !gotm.contains_key(l)).take(3).map(|(l, a)| format!("line {l} -> x{a:04X} missing")).collect();
        let sig = if let Some((l, _)) = gotm.iter().find(|(l, _)| !exp.contains_key(l)) {
            let kind = prog.iter().enumerate().find(|(i, _)| r.lines[*i] == *l).map(|(_, s)| format!("{:?}", std::mem::discriminant(&s.nuc))).unwrap_or_default();
            let _ = kind; "line-map:nonmemory-line-mapped"
        } else { "line-map" };
        fail(out, "C24", sig, format!("line map differs: {bad:?} {missing:?}\n{text}"));
    }
    let mut seen_addr: BTreeMap<u16, usize> = BTreeMap::new();
    for (l, a) in &got { if let Some(p) = seen_addr.insert(*a, *l) { if p != *l { fail(out, "C24", "address-two-lines", format!("x{a:04X} maps to lines {p} and {l}\n{text}")); } } }
    let nlines = text.matches('\n').count() + 1;
    for l in 0..nlines + 2 {
        let g = sym.lookup_line(l);
        if g != exp.get(&l).copied() { fail(out, "C24", "lookup_line", format!("lookup_line({l}) = {g:x?}, expected {:x?}\n{text}", exp.get(&l))); break; }
    }
    for (l, a) in &exp {
        let g = sym.rev_lookup_line(*a);
        if g != Some(*l) { fail(out, "C24", "rev_lookup_line", format!("rev_lookup_line(x{a:04X}) = {g:?}, expected line {l}\n{text}")); break; }
    }
    // the address a line maps to must be where the object file really holds that statement's first word: the table is also judged against
    // the placement in the image (a table that agrees with a size model while the words sit elsewhere is of no use to a debugger)
    let image: BTreeMap<u16, Option<u16>> = obj.addr_iter().collect();
    for (l, a) in &got {
        if exp.get(l) != Some(a) { continue; }
        match (image.get(a), ro.image.get(a)) {
            (Some(g), Some(e)) if g == e => {}
            (g, e) => { fail(out, "C24", "line-address-not-statement-start", format!("line {l} maps to x{a:04X}, where the object file holds {g:x?}; the first word of that line's statement is {e:x?}\n{text}")); break; }
        }
    }
    let mapped: BTreeSet<u16> = exp.values().copied().collect();
    for (a, _) in ro.image.iter().take(600) {
        if !mapped.contains(a) { if let Some(g) = sym.rev_lookup_line(*a) { fail(out, "C24", "rev-nonfirst-word", format!("x{a:04X} is not the first word of a statement but maps to line {g}\n{text}")); break; } }
    }
}

fn printable_literal(s: &str) -> bool { s.chars().all(|c| (' '..='~').contains(&c) || matches!(c, '\t' | '\n' | '\r' | '\0')) }

/// C36: print then parse gives the same statement (spans ignored).
pub fn check_print_reparse(ast: &[Stmt], out: &mut Vec<Fail>) {
    for s in ast {
        let a = project(s);
        if let Nuc::Stringz(lit) = &a.nuc { if !printable_literal(lit) { continue; } }
        let printed = match catch(|| s.to_string()) { Ok(p) => p, Err(p) => { fail(out, "C36", format!("panic:{}", panic_site(&p)), p); continue; } };
        match catch(|| parse_ast(&printed)) {
            Ok(Ok(re)) => {
                if re.len() != 1 || project(&re[0]) != a { fail(out, "C36", format!("reparse-differs:{}", nuc_name(&a.nuc)), format!("`{printed}` reparses to {:?}, original {a:?}", re.iter().map(project).collect::<Vec<_>>())); }
            }
            Ok(Err(e)) => fail(out, "C36", format!("reparse-rejects:{}", nuc_name(&a.nuc)), format!("`{printed}` does not parse: {e:?}")),
            Err(p) => fail(out, "C36", format!("panic:{}", panic_site(&p)), format!("`{printed}`: {p}")),
        }
    }
}
pub fn nuc_name(n: &Nuc) -> String { let d = format!("{n:?}"); d.split(|c: char| !c.is_ascii_alphanumeric()).next().unwrap_or("").to_string() }
