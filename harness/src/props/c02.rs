//! C02 — assembler accepts exactly the well-formed programs.
use super::asmrun::*;
use crate::util::*;

pub fn run(ctx: &Ctx) -> Report {
    let mut rep = Report::new("deviation 0: base, offset-limit, block-layout and fence-post programs; deviation 1: every single fault (delete/duplicate/swap/move each statement; insert .orig/.end/labelled stmt/.external/undefined use/huge .blkw at every position; redefine/declare-external/use every label in flipped case at every position; retarget every label operand; move every .orig onto boundary addresses) on every base program; deviation 2: every pair of faults (thorough: all pairs up to the stride; quick: every 37th); accept/reject compared with RefAsm's violated-condition set, error kind must name a violated condition, no panic. non-trivial = ill-formed program (at least one violated condition)");
    let plain = vec![(0u64, DEFAULT_SECONDARY)];
    let both = vec![false, true];
    let plans = vec![
        Plan { fam: "BASE", styles: plain.clone(), debug: both.clone(), stride: 1 },
        Plan { fam: "LIM", styles: plain.clone(), debug: both.clone(), stride: 1 },
        Plan { fam: "BLK", styles: plain.clone(), debug: both.clone(), stride: 1 },
        Plan { fam: "BIG", styles: plain.clone(), debug: both.clone(), stride: 1 },
        Plan { fam: "FENCE", styles: plain.clone(), debug: both.clone(), stride: 1 },
        Plan { fam: "LAB", styles: plain.clone(), debug: both.clone(), stride: 1 },
        // "compared ignoring case" for every cased letter of Unicode (the case mapping is the standard library's str::to_uppercase)
        Plan { fam: "CASE", styles: plain.clone(), debug: both.clone(), stride: 1 },
        Plan { fam: "S2", styles: plain.clone(), debug: vec![true], stride: 1 },
        Plan { fam: "F1", styles: plain.clone(), debug: both.clone(), stride: 1 },
        Plan { fam: "F2", styles: plain.clone(), debug: vec![true], stride: ctx.pick(37, 1) },
    ];
    run_plans(ctx, &mut rep, "C02", &plans, &|i| i.parsed && !i.wellformed);
    rep.require(rep.acc.get("accepted") > 1000 && rep.acc.get("rejected") > 1000, "both accepted and rejected programs explored");
    rep.require(rep.acc.outcomes.len() >= 12, "most error kinds observed");
    rep.assume("RefAsm's well-formedness predicate encodes the property statement; after a structural break (nested .orig, block past xFE00) any address-dependent error kind is accepted");
    rep
}
pub fn replay(case: &str) -> Option<String> { replay_case("C02", case) }
