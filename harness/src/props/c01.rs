//! C01 — assembled image is the exact LC-3 encoding of the source.
use super::asmrun::*;
use crate::util::*;

pub fn run(ctx: &Ctx) -> Report {
    let mut rep = Report::new("L1: every single-statement instance of the grammar (all templates, registers in every position, operand boundary values) x 9 origins; L2: every sequence of <=2 (quick) / <=3 (thorough) statements over a 20-statement alphabet with every label operand bound to every position, 3 origins, 3 reference spellings; offset-limit programs (at/inside/one past each PC-offset limit, wrap-around through x0000); 2-3 block layouts in every source order; fence-post and base programs; each with and without debug symbols; image, label set and label addresses compared with RefAsm. non-trivial = well-formed program that assembles and has at least one word");
    let plain = vec![(0u64, DEFAULT_SECONDARY)];
    let two = vec![(0u64, DEFAULT_SECONDARY), (3887u64, 0u64)];
    let both = vec![false, true];
    let mut plans = vec![
        Plan { fam: "L1", styles: two.clone(), debug: both.clone(), stride: 1 },
        Plan { fam: "S1", styles: plain.clone(), debug: both.clone(), stride: 1 },
        Plan { fam: "S2", styles: plain.clone(), debug: both.clone(), stride: 1 },
        Plan { fam: "LIM", styles: two.clone(), debug: both.clone(), stride: 1 },
        Plan { fam: "BLK", styles: plain.clone(), debug: both.clone(), stride: 1 },
        Plan { fam: "BASE", styles: two.clone(), debug: both.clone(), stride: 1 },
        Plan { fam: "FENCE", styles: plain.clone(), debug: both.clone(), stride: 1 },
        Plan { fam: "LAB", styles: plain.clone(), debug: both.clone(), stride: 1 },
        Plan { fam: "NAMES", styles: plain.clone(), debug: both.clone(), stride: 1 },
        Plan { fam: "STR", styles: plain.clone(), debug: both.clone(), stride: 1 },
        // scale family: counts and lengths past 2^5 .. 2^16 (label length, blocks, statements, initialized runs, externals' uses), also spread over > 65536 lines
        Plan { fam: "BIG", styles: vec![(0u64, DEFAULT_SECONDARY), (0u64, 1 + 160 * 4)], debug: both.clone(), stride: 1 },
    ];
    // thorough: all 3-statement sequences under six renderings (plain; lower-case / own-line labels with colons / comment lines; tabs and decimal
    // notation with CRLF comments; mixed case with wide separators), the label, name and string families under all of them as well
    let six = vec![(0u64, DEFAULT_SECONDARY), (3887u64, 0u64), (324 * 5 + 17, 37), (324 * 9 + 100, 70), (324 * 2 + 1, 21), (324 * 7 + 200, 3)];
    plans.push(Plan { fam: "S3", styles: if ctx.thorough() { six.clone() } else { plain.clone() }, debug: if ctx.thorough() { both.clone() } else { vec![true] }, stride: ctx.pick(7, 1) });
    if ctx.thorough() { for fam in ["LAB", "NAMES", "STR", "S2", "BLK", "FENCE"] { plans.push(Plan { fam, styles: six[1..].to_vec(), debug: both.clone(), stride: 1 }); } }
    run_plans(ctx, &mut rep, "C01", &plans, &|i| i.wellformed && i.accepted && i.image_words > 0);
    rep.bound("sequence_length", Json::s(ctx.pick("<=2 complete, 3 every 7th index", "<=3 complete")));
    rep.require(rep.acc.get("accepted") > 10_000 && rep.acc.outcomes.len() > 1000, "many distinct images were produced and compared");
    rep.assume("RefAsm (harness reference assembler) is correct");
    rep
}
pub fn replay(case: &str) -> Option<String> { replay_case("C01", case) }
