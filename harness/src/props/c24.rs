//! C24 — line-to-address debug mapping is one-to-one.
use super::asmrun::*;
use crate::gen::prog::Style;
use crate::util::*;

pub fn run(ctx: &Ctx) -> Report {
    let mut rep = Report::new("base, label, block-layout and 1-2 statement programs rendered under the line-affecting style dimensions (label placement x4, comment/blank-line/CRLF style x3, leading blank lines, indentation, missing final newline) and, for base programs, the full style product; every line checked line->address and address->line against the renderer's own bookkeeping; exact line_iter set. Linked files: 3 debug-symbol files whose texts carry every combination of 8 leading/trailing affixes, linked as ordered pairs and triples from either side (and read back through both file formats): every member statement's address maps to a line holding that statement's text, lookup_line inverts rev_lookup_line, and line_iter has exactly one entry per statement. non-trivial = assembled program with >=1 memory-occupying statement");
    // line-affecting styles: label(4) x line(3) at primary positions 6,7 ; secondary leading_blank/final_newline/indent
    let mut styles: Vec<(u64, u64)> = vec![];
    for label in 0..4u64 { for line in 0..3u64 { for sec in [DEFAULT_SECONDARY, 1 + 20, 1 + 40, 1 + 80, 1 + 20 + 40 + 80, 2 + 4 * 2] {
        styles.push(((label + 4 * line) * 324, sec));
    } } }
    let full: Vec<(u64, u64)> = (0..Style::PRIMARY).step_by(ctx.pick(5, 1)).map(|p| (p, DEFAULT_SECONDARY)).collect();
    let plans = vec![
        Plan { fam: "BASE", styles: full, debug: vec![true], stride: 1 },
        Plan { fam: "LAB", styles: styles.clone(), debug: vec![true], stride: 1 },
        Plan { fam: "BLK", styles: styles.clone(), debug: vec![true], stride: ctx.pick(3, 1) },
        Plan { fam: "S1", styles: styles.clone(), debug: vec![true], stride: 1 },
        Plan { fam: "S2", styles: styles.clone(), debug: vec![true], stride: ctx.pick(5, 1) },
        // string literals over {a, blank, TAB, LF, CR, NUL, quote, backslash, ;, e-acute} followed by another statement: sizes in words vs characters vs bytes
        Plan { fam: "STR", styles: vec![(0, DEFAULT_SECONDARY), (5 * 324, 1 + 20)], debug: vec![true], stride: ctx.pick(3, 1) },
        // scale family under the gap styles: 255 / 256 / 257 / 300 / 1000 comment lines before statements, 16 before every statement (> 65536 lines in all)
        Plan { fam: "BIG", styles: vec![(0, DEFAULT_SECONDARY), (0, 1 + 160), (0, 1 + 160 * 4), (7 * 324, 1 + 20 + 160 * 6)], debug: vec![true], stride: 1 },
        Plan { fam: "BASE", styles: (1..7u64).map(|g| (0u64, 1 + 160 * g)).collect(), debug: vec![true], stride: 1 },
        Plan { fam: "F1", styles: vec![(0, DEFAULT_SECONDARY), (11 * 324, 1 + 20)], debug: vec![true], stride: 1 },
    ];
    run_plans(ctx, &mut rep, "C24", &plans, &|i| i.accepted && i.image_words > 0);
    super::linksrc::run_for(ctx, &mut rep, "C24");
    rep.require(rep.acc.nontrivial > 5_000, "programs with memory-occupying statements were assembled with debug symbols");
    rep
}
pub fn replay(case: &str) -> Option<String> {
    if case.starts_with("ls:") { return super::linksrc::replay_for("C24", case); }
    replay_case("C24", case)
}
