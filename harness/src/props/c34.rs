//! C34 — timer interrupts follow the configured interval (every sample sequence through hook H2).
use crate::util::*;
use lc3_ensemble::sim::device::{ExternalDevice, TimerDevice};
use lc3_ensemble::verif;
use std::cell::RefCell;
use std::rc::Rc;

#[derive(Clone, Copy, Debug, PartialEq, Eq)]
pub struct Range { lo: u32, hi: u32, incl: bool }
impl Range {
    fn max(&self) -> u32 { if self.incl { self.hi } else { self.hi - 1 } }
    fn contains(&self, g: u32) -> bool { g >= self.lo && g <= self.max() }
    fn size(&self) -> u32 { self.max() - self.lo + 1 }
    fn set(&self, t: &mut TimerDevice) { if self.incl { t.set_range(self.lo..=self.hi); } else { t.set_range(self.lo..self.hi); } }
    /// The same configuration reached along different paths: 0 constructed with it; 1 constructed with another range, then set_range;
    /// 2 another range, set_exact(3), then set_range (or set_exact for an exact count); 3 another range, set_range(2..=5), then set_exact / set_range.
    /// Paths 1-3 end with reset_remaining() so that the new configuration starts a fresh interval.
    fn make_via(&self, path: u8, seed: Option<u64>) -> TimerDevice {
        if path == 0 { return self.make(seed); }
        let mut t = TimerDevice::new(seed, 7..=9, 0x81, 4);
        if path == 2 { t.set_exact(3); }
        if path == 3 { t.set_range(2..=5); }
        if path >= 2 && self.incl && self.lo == self.hi && self.lo >= 1 && path == 3 { t.set_exact(self.lo); } else { self.set(&mut t); }
        t.reset_remaining();
        t
    }
    fn make(&self, seed: Option<u64>) -> TimerDevice { if self.incl { TimerDevice::new(seed, self.lo..=self.hi, 0x81, 4) } else { TimerDevice::new(seed, self.lo..self.hi, 0x81, 4) } }
}
fn ranges() -> Vec<Range> {
    let mut v = vec![];
    for n in 1..=8 { v.push(Range { lo: n, hi: n, incl: true }); }
    for lo in 0..=4 { for hi in lo..=4 { if !(lo == hi && lo >= 1) { v.push(Range { lo, hi, incl: true }); } if hi > lo { v.push(Range { lo, hi, incl: false }); } } }
    v
}

/// scale: intervals around 2^8 and 2^16 polls (exact counts and ranges of three values), run for four intervals
fn big_ranges() -> Vec<Range> {
    let mut v = vec![];
    for n in [255u32, 256, 257, 65535, 65536, 65537, 70000] { v.push(Range { lo: n, hi: n, incl: true }); }
    for lo in [254u32, 65534, 65535, 65536] { v.push(Range { lo, hi: lo + 2, incl: true }); v.push(Range { lo, hi: lo + 3, incl: false }); }
    v
}
/// events applied before poll i: 1 = disable, 2 = enable, 3 = io_reset
#[derive(Clone, Debug, Default)]
struct Plan { choices: Vec<u32>, events: Vec<(u32, u8)>, path: u8 }

struct Trace { fires: Vec<bool>, samples_asked: Vec<u32>, enabled: Vec<bool>, resets: Vec<u32> }

/// Runs the real TimerDevice for `polls` polls; every RNG sample is decided by `plan.choices` (then the range minimum).
fn run_hooked(r: Range, plan: &Plan, polls: u32) -> Result<Trace, String> {
    let asked: Rc<RefCell<Vec<u32>>> = Rc::new(RefCell::new(vec![]));
    let choices = plan.choices.clone();
    let a2 = asked.clone();
    verif::set_timer_sampler(Some(Box::new(move |start, end, incl| {
        if (start, end, incl) != (r.lo, r.hi, r.incl) { return None; } // draws for another configuration on the way (paths 1-3): left to the RNG
        let mut a = a2.borrow_mut();
        let k = a.len();
        let size = if incl { end - start + 1 } else { end - start };
        a.push(size);
        Some(start + choices.get(k).copied().unwrap_or(0))
    })));
    let res = catch(|| {
        let mut t = r.make_via(plan.path, Some(1));
        t.enabled = true;
        let mut tr = Trace { fires: vec![], samples_asked: vec![], enabled: vec![], resets: vec![] };
        for i in 0..polls {
            for (at, ev) in &plan.events { if *at == i { match ev { 1 => t.enabled = false, 2 => t.enabled = true, _ => { t.io_reset(); tr.resets.push(i); } } } }
            tr.enabled.push(t.enabled);
            tr.fires.push(t.poll_interrupt().is_some());
        }
        tr
    });
    verif::set_timer_sampler(None);
    let mut tr = res?;
    tr.samples_asked = asked.borrow().clone();
    Ok(tr)
}

/// The property, as stated. Returns Err((sig, detail)).
fn judge(r: Range, tr: &Trace, what: &str) -> Result<(), (String, String)> {
    let zero = r.lo == 0;
    let sig = |s: &str| if zero { format!("{s}:range-contains-0") } else { s.to_string() };
    // segments: maximal runs of polls with the timer enabled and no reset inside
    let n = tr.fires.len();
    let mut last_fire: Option<usize> = None; // within the current segment
    let mut seg_start = 0usize;
    for i in 0..n {
        let boundary = i > 0 && (tr.enabled[i] != tr.enabled[i - 1]) || tr.resets.contains(&(i as u32));
        if boundary { last_fire = None; seg_start = i; }
        if !tr.enabled[i] {
            if tr.fires[i] { return Err(("fires-while-disabled".into(), format!("{what}: interrupt raised at poll {i} while disabled"))); }
            continue;
        }
        if tr.fires[i] {
            if let Some(lf) = last_fire {
                let gap = (i - lf - 1) as u32;
                if !r.contains(gap) { return Err((sig("gap-out-of-range"), format!("{what}: {gap} polls between the interrupts at polls {lf} and {i}; range {r:?}; fires {:?}", fires_str(tr)))); }
            } else {
                // first interrupt of the segment: at most max+1 polls after enable/reset, i.e. at most `max` polls strictly before it... "at most one poll later than the range's maximum"
                let waited = (i - seg_start) as u32 + 1; // it is the waited-th poll since enable/reset
                if waited > r.max() + 1 { return Err((sig("first-interrupt-late"), format!("{what}: first interrupt at the {waited}th poll after enable/reset; range max {}; fires {:?}", r.max(), fires_str(tr)))); }
            }
            last_fire = Some(i);
        } else {
            // no interrupt yet: must not have waited longer than allowed
            let since = match last_fire { Some(lf) => (i - lf) as u32, None => (i - seg_start) as u32 + 1 };
            let limit = match last_fire { Some(_) => r.max(), None => r.max() + 1 };
            if since > limit { return Err((sig(if last_fire.is_some() { "gap-out-of-range" } else { "first-interrupt-late" }), format!("{what}: no interrupt for {since} polls (limit {limit}) up to poll {i}; fires {:?}", fires_str(tr)))); }
        }
    }
    Ok(())
}
fn fires_str(tr: &Trace) -> String { tr.fires.iter().map(|f| if *f { '!' } else { '.' }).collect() }

/// Exhaustive DFS over sample sequences for one (range, events) configuration.
fn explore(r: Range, events: &[(u32, u8)], path: u8, polls: u32, acc: &mut Acc, case_prefix: &str) {
    let mut stack: Vec<Vec<u32>> = vec![vec![]];
    while let Some(prefix) = stack.pop() {
        let plan = Plan { choices: prefix.clone(), events: events.to_vec(), path };
        let what = format!("range {r:?} (configuration path {path}) events {events:?} samples {prefix:?}");
        acc.evals += 1; acc.traces += 1; acc.transitions += polls as u64;
        match run_hooked(r, &plan, polls) {
            Err(p) => { acc.violation(format!("panic:{}", panic_site(&p)), format!("{case_prefix}:{}", prefix.iter().map(|x| x.to_string()).collect::<Vec<_>>().join(",")), format!("{what}: {p}")); continue; }
            Ok(tr) => {
                acc.outcomes.insert(fnv_str(&fires_str(&tr)));
                if tr.fires.iter().any(|f| *f) { acc.nontrivial += 1; }
                if let Err((sig, d)) = judge(r, &tr, &what) { acc.violation(sig, format!("{case_prefix}:{}", prefix.iter().map(|x| x.to_string()).collect::<Vec<_>>().join(",")), d); }
                // branch on every sample taken after the prefix
                for k in prefix.len()..tr.samples_asked.len().min(7) {
                    for alt in 1..tr.samples_asked[k] {
                        let mut p2: Vec<u32> = prefix.clone(); p2.resize(k, 0); p2.push(alt);
                        stack.push(p2);
                    }
                }
            }
        }
    }
}

fn event_sets(polls: u32, maxdev: usize) -> Vec<Vec<(u32, u8)>> {
    let mut v = vec![vec![]];
    let singles: Vec<(u32, u8)> = (0..polls.min(14)).flat_map(|p| [(p, 1u8), (p, 3u8)]).collect();
    for s in &singles { v.push(vec![*s]); }
    if maxdev >= 2 {
        // disable then enable later; reset twice; disable then reset
        for a in 0..polls.min(10) { for b in a + 1..polls.min(12) { v.push(vec![(a, 1), (b, 2)]); v.push(vec![(a, 3), (b, 3)]); } }
    }
    v
}
fn parse_events(s: &str) -> Vec<(u32, u8)> { s.split(';').filter(|x| !x.is_empty()).filter_map(|x| { let (a, b) = x.split_once('/')?; Some((a.parse().ok()?, b.parse().ok()?)) }).collect() }
fn events_str(e: &[(u32, u8)]) -> String { e.iter().map(|(a, b)| format!("{a}/{b}")).collect::<Vec<_>>().join(";") }

pub fn run(ctx: &Ctx) -> Report {
    let mut rep = Report::new("exact counts n=1..8 and every non-empty range lo..=hi / lo..hi with 0<=lo<=hi<=4; through hook H2 every RNG sample is a branch point, so EVERY sample sequence (first 7 samples) is run on the real TimerDevice for 40 polls; each configuration also reached through setter sequences (another range then set_range; set_exact(3) then set_range; set_range(2..=5) then set_exact/set_range; each followed by reset_remaining); every range also behind Arc<Mutex<_>> and Arc<RwLock<_>> (polled directly and inside a simulator, with and without the wrapper's lock poisoned by a dead holder); deviations: disable / io_reset at each of the first 14 polls (1 deviation) and disable-then-enable / double reset pairs (2 deviations); oracle (the property itself): polls strictly between consecutive interrupts within the range (= n for exact n), first interrupt at most max+1 polls after enable/reset, never while disabled; plus unhooked runs: same seed => same sequence (6 seeds x 2), the same device inside a Simulator (interrupt priorities 1, 4, 7; one poll per instruction cycle) observed through a pass-through probe, and Simulator::reset() after the range was shortened mid-interval (24 cases). non-trivial = runs with at least one interrupt");
    let rs = ranges();
    let polls = 40;
    let evs = event_sets(polls, 2);
    let nr = rs.len() as u64; let ne = evs.len() as u64;
    let ne_eff = ctx.pick(ne.min(29), ne); // quick: no-deviation and single deviations; thorough: pairs too
    let npath_ev = ctx.pick(5u64, 29u64);
    let r = sweep(ctx, nr * ne_eff, 1, |k, acc| {
        let (ri, ei) = ((k / ne_eff) as usize, (k % ne_eff) as usize);
        acc.count(if evs[ei].is_empty() { "configs_0_deviations" } else if evs[ei].len() == 1 { "configs_1_deviation" } else { "configs_2_deviations" }, 1);
        explore(rs[ri], &evs[ei], 0, polls, acc, &format!("h:{ri}:{}", events_str(&evs[ei])));
        // the same configuration reached through set_range / set_exact sequences
        if (ei as u64) < npath_ev { for path in 1..=3u8 { acc.count("configs_via_setters", 1); explore(rs[ri], &evs[ei], path, polls, acc, &format!("h{path}:{ri}:{}", events_str(&evs[ei]))); } }
        acc.sample(k, ctx.seed, 41, || format!("range {:?} events {:?}", rs[ri], evs[ei]));
    });
    rep.absorb(r);
    // scale: big intervals, every choice of the first two samples (and the range minimum afterwards), 4 intervals long; with and without a reset mid-way
    let big = big_ranges();
    let r = sweep(ctx, big.len() as u64 * 9 * 2, 1, |k, acc| {
        let (r, c0, c1, ev) = (big[(k / 18) as usize], (k / 6 % 3) as u32, (k / 2 % 3) as u32, k % 2 == 1);
        if c0 >= r.size() || c1 >= r.size() { return; }
        let polls = 4 * r.max() + 20;
        let events = if ev { vec![(r.max() / 2, 3u8)] } else { vec![] };
        let what = format!("range {r:?} events {events:?} samples [{c0}, {c1}] over {polls} polls");
        acc.evals += 1; acc.traces += 1; acc.transitions += polls as u64; acc.count("big_interval_runs", 1);
        match run_hooked(r, &Plan { choices: vec![c0, c1], events, path: 0 }, polls) {
            Err(p) => acc.violation(format!("panic:{}", panic_site(&p)), format!("g:{k}"), format!("{what}: {p}")),
            Ok(tr) => { if tr.fires.iter().any(|f| *f) { acc.nontrivial += 1; } if let Err((sig, d)) = judge(r, &tr, &what) { acc.violation(sig, format!("g:{k}"), d.chars().take(400).collect::<String>()); } }
        }
    });
    rep.absorb(r);
    // unhooked: same seed => same sequence; all values of the range are produced
    for (ri, r) in rs.iter().enumerate() { for seed in [0u64, 1, 2, 7, 1 << 63, u64::MAX] {
        let run = |seed: u64| -> Result<Vec<bool>, String> { catch(|| { let mut t = r.make(Some(seed)); t.enabled = true; (0..200).map(|_| t.poll_interrupt().is_some()).collect() }) };
        rep.acc.evals += 2; rep.acc.transitions += 400;
        match (run(seed), run(seed)) {
            (Ok(a), Ok(b)) => {
                if a != b { rep.acc.violation("same-seed-different-sequence", format!("u:{ri}:{seed}"), format!("range {r:?} seed {seed}: two timers built with the same seed fire differently")); }
                let tr = Trace { enabled: vec![true; a.len()], fires: a, samples_asked: vec![], resets: vec![] };
                if let Err((sig, d)) = judge(*r, &tr, &format!("range {r:?} seed {seed} (real RNG)")) { rep.acc.violation(sig, format!("u:{ri}:{seed}"), d); }
            }
            (Err(p), _) | (_, Err(p)) => rep.acc.violation(format!("panic:{}", panic_site(&p)), format!("u:{ri}:{seed}"), p),
        }
    } }
    // inside a simulator: the device's answers at each instruction boundary obey the same rule
    for (ri, r) in rs.iter().enumerate() { for prio in [1u8, 4, 7] { if let Err((sig, d)) = in_simulator(*r, prio) { rep.acc.violation(sig, format!("s:{ri}:{prio}"), d); } rep.acc.evals += 1; } }
    for (ri, r) in rs.iter().enumerate() { for k in 0..8u8 {
        rep.acc.evals += 1; rep.acc.count("wrapped_device_cases", 1);
        if let Err((sig, d)) = wrapped(*r, k & 1, k & 2 != 0, k & 4 != 0) { rep.acc.violation(sig, format!("w:{ri}:{k}"), d); }
    } }
    for (ri, r) in rs.iter().enumerate() { for k in 0..6u64 {
        rep.acc.evals += 1; rep.acc.count("other_source_cases", 1);
        if let Err((sig, d)) = with_pinger(*r, k % 2 == 0, [1, 3, 7][(k / 2) as usize]) { rep.acc.violation(sig, format!("p:{ri}:{k}"), d); }
    } }
    for long in [30u32, 200] { for short in [1u32, 3, 8] { for before in [0u32, 1, 5, 12] {
        rep.acc.evals += 1; rep.acc.count("simulator_reset_cases", 1);
        if let Err((sig, d)) = reset_in_simulator(long, short, before) { rep.acc.violation(sig, format!("r:{long}:{short}:{before}"), d); }
    } } }
    // the device's own random generator (no sampler hook): unseeded and under three seeds, every range, 4000 polls: every gap between
    // consecutive interrupts must be one that some exact count inside the range produces. (Not exhaustive over the generator's draws: a
    // membership test on what it happens to draw; sound, and with thousands of draws from at most 5 values, every value of a range is drawn.)
    for (ri, r) in rs.iter().enumerate() { for sd in 0..4u8 {
        rep.acc.evals += 1; rep.acc.count("free_running_generator_cases", 1);
        if let Err((sig, d)) = free_running(*r, sd) { rep.acc.violation(sig, format!("u:{ri}:{sd}"), d); }
        if r.lo >= 1 { rep.acc.evals += 1; rep.acc.count("free_running_generator_cases", 1); if let Err((sig, d)) = free_running_spelled(*r, sd, true) { rep.acc.violation(format!("excluded-start:{sig}"), format!("ux:{ri}:{sd}"), d); } }
    } }
    for (ri, r) in rs.iter().enumerate() { for k in 0..12u8 {
        rep.acc.evals += 1; rep.acc.count("range_spelling_cases", 1);
        if let Err((sig, d)) = spelled(*r, k % 6, k >= 6) { rep.acc.violation(sig, format!("sp:{ri}:{k}"), d); }
    } }
    rep.bound("ranges", Json::i(nr)); rep.bound("polls", Json::i(polls)); rep.bound("event_sets", Json::i(ne_eff)); rep.bound("samples_branched", Json::i(7));
    rep.require(rep.acc.nontrivial > 1000 && rep.acc.outcomes.len() > 100, "many distinct firing patterns explored");
    rep.assume("the free_running_generator_cases (timer on its own random generator, 116 range x seed cases of 4000 polls) are a sound membership test on sampled draws, NOT an exhaustive exploration; everything else reported here is enumerated exhaustively through hook H2");
    rep.assume("hook H2 replaces only the RNG draw; empty ranges (rand panics at construction) are caller error and outside the property");
    rep
}

/// Every way a caller can spell the bounds of the same set of intervals (`a..b`, `a..=b`, excluded start, unbounded start from 0): whenever
/// the device consults its generator (hook H2 records the request and answers with the smallest value), the set of values it asks for must
/// be the configured set. Deterministic: no draw is left to the generator.
fn spelled(r: Range, spelling: u8, via_set: bool) -> Result<(), (String, String)> {
    use std::ops::Bound::*;
    let hi_incl = r.max();
    let bounds = match spelling {
        0 => (Included(r.lo), Included(hi_incl)), 1 => (Included(r.lo), Excluded(hi_incl + 1)),
        2 if r.lo >= 1 => (Excluded(r.lo - 1), Included(hi_incl)), 3 if r.lo >= 1 => (Excluded(r.lo - 1), Excluded(hi_incl + 1)),
        4 if r.lo == 0 => (Unbounded, Included(hi_incl)), 5 if r.lo == 0 => (Unbounded, Excluded(hi_incl + 1)),
        _ => return Ok(()),
    };
    let asked: Rc<RefCell<Vec<(u32, u32, bool)>>> = Rc::new(RefCell::new(vec![]));
    let a2 = asked.clone();
    verif::set_timer_sampler(Some(Box::new(move |start, end, incl| { a2.borrow_mut().push((start, end, incl)); Some(start) })));
    let res = catch(move || {
        let mut t = if via_set { let mut t = TimerDevice::new(Some(1), 7..=9, 0x81, 4); t.set_range(bounds); t.reset_remaining(); t } else { TimerDevice::new(Some(1), bounds, 0x81, 4) };
        t.enabled = true;
        for _ in 0..40 { let _ = t.poll_interrupt(); }
    });
    verif::set_timer_sampler(None);
    let what = format!("timer whose range {}..={hi_incl} is spelled {} ({})", r.lo, ["a..=b", "a..b", "(excluded a-1)..=b", "(excluded a-1)..b", "..=b", "..b"][spelling as usize], if via_set { "set_range" } else { "new" });
    if let Err(p) = res { return Err((format!("panic:{}", panic_site(&p)), format!("{what}: {p}"))); }
    for (i, (start, end, incl)) in asked.borrow().iter().enumerate() {
        if via_set && i == 0 && (*start, *end, *incl) == (7, 9, true) { continue; } // the draw made for the construction-time range
        let top = if *incl { *end } else { end.saturating_sub(1) };
        if (*start, top) != (r.lo, hi_incl) { return Err((format!("range-spelling:{}", ["incl", "excl-end", "excl-start", "excl-both", "unbounded-start", "unbounded-start-excl-end"][spelling as usize]), format!("{what}: the generator is asked for values {start}..={top}"))); }
    }
    Ok(())
}
fn gaps_of(mut t: TimerDevice, polls: u32) -> Vec<u32> {
    t.enabled = true;
    let mut gaps = vec![]; let mut since: Option<u32> = None;
    for _ in 0..polls { let f = t.poll_interrupt().is_some(); if f { if let Some(g) = since { gaps.push(g); } since = Some(0); } else if let Some(g) = &mut since { *g += 1; } }
    gaps
}
/// `sd`: 0 = unseeded, 1..3 = seeds 0, 1, u64::MAX
fn free_running(r: Range, sd: u8) -> Result<(), (String, String)> { free_running_spelled(r, sd, false) }
/// `xlo`: the same range spelled with an excluded start bound, `(Excluded(lo - 1), ..)` (needs lo >= 1)
fn free_running_spelled(r: Range, sd: u8, xlo: bool) -> Result<(), (String, String)> {
    let res = catch(move || {
        let hi_incl = if r.incl { r.hi } else { r.hi.saturating_sub(1) };
        let mut allowed = std::collections::BTreeSet::new();
        for n in r.lo..=hi_incl { let g = gaps_of(Range { lo: n, hi: n, incl: true }.make(Some(5)), 60); if let Some(x) = g.first() { allowed.insert(*x); } }
        let seed = match sd { 0 => None, 1 => Some(0u64), 2 => Some(1), _ => Some(u64::MAX) };
        let gaps = gaps_of(if xlo { use std::ops::Bound::*; TimerDevice::new(seed, (Excluded(r.lo - 1), if r.incl { Included(r.hi) } else { Excluded(r.hi) }), 0x81, 4) } else { r.make(seed) }, 4000);
        (allowed, gaps)
    });
    let (allowed, gaps) = match res { Ok(x) => x, Err(p) => return Err((format!("panic:{}", panic_site(&p)), format!("{r:?}: {p}"))) };
    let what = format!("timer with range {}{}{}{} and {} polled 4000 times with its own generator", if xlo { format!("(excluded start bound {}, i.e. from) ", r.lo - 1) } else { String::new() }, r.lo, if r.incl { "..=" } else { ".." }, r.hi, if sd == 0 { "no seed".to_string() } else { format!("seed #{sd}") });
    if !allowed.is_empty() && gaps.len() < 100 { return Err(("free-running:too-few-interrupts".into(), format!("{what}: fewer than 100 interrupts"))); }
    if gaps.iter().any(|g| !allowed.contains(g)) { return Err((format!("free-running:gap-outside-range:{}", if sd == 0 { "unseeded" } else { "seeded" }), format!("{what}: some gap between consecutive interrupts is not one that an exact count inside the range gives (those give {allowed:?} polls in between)"))); }
    Ok(())
}

/// The timer behind the shared-ownership wrappers (`Arc<Mutex<_>>`, `Arc<RwLock<_>>`), polled through the wrapper; optionally after a
/// thread died while holding the wrapper's lock (poisoned, free). Same rule as for the bare device.
fn wrapped(r: Range, kind: u8, poisoned: bool, in_sim: bool) -> Result<(), (String, String)> {
    use std::sync::{Arc, Mutex, RwLock};
    let what = format!("range {r:?} behind Arc<{}>{}{}", if kind == 0 { "Mutex" } else { "RwLock" }, if poisoned { ", lock poisoned earlier" } else { "" }, if in_sim { ", attached to a simulator" } else { "" });
    let res = catch(|| {
        let mut t = r.make(Some(5)); t.enabled = true;
        let fires: Vec<bool> = if kind == 0 {
            let d = Arc::new(Mutex::new(t));
            if poisoned { poison_mutex(&d); d.lock().unwrap_or_else(|e| e.into_inner()).reset_remaining(); }
            if in_sim { poll_in_sim(d.clone(), 120) } else { let mut w = d.clone(); (0..120).map(|_| w.poll_interrupt().is_some()).collect() }
        } else {
            let d = Arc::new(RwLock::new(t));
            if poisoned { poison_rwlock(&d); d.write().unwrap_or_else(|e| e.into_inner()).reset_remaining(); }
            if in_sim { poll_in_sim(d.clone(), 120) } else { let mut w = d.clone(); (0..120).map(|_| w.poll_interrupt().is_some()).collect() }
        };
        fires
    });
    match res {
        Err(p) => Err((format!("panic:{}", panic_site(&p)), format!("{what}: {p}"))),
        Ok(fires) => { let tr = Trace { enabled: vec![true; fires.len()], fires, samples_asked: vec![], resets: vec![] }; judge(r, &tr, &what).map_err(|(s, d)| (format!("wrapped:{s}"), d)) }
    }
}
/// attaches `dev` (through a recording shim) to a simulator running ADDs with an RTI handler; returns what the device answered at each poll
fn poll_in_sim<D: ExternalDevice + Send + Sync + 'static>(dev: D, steps: usize) -> Vec<bool> {
    use lc3_ensemble::sim::mem::MachineInitStrategy;
    use lc3_ensemble::sim::{SimFlags, Simulator};
    struct Shim<D> { inner: D, log: std::sync::Arc<std::sync::Mutex<Vec<bool>>> }
    impl<D: ExternalDevice> ExternalDevice for Shim<D> {
        fn io_read(&mut self, a: u16, e: bool) -> Option<u16> { self.inner.io_read(a, e) }
        fn io_write(&mut self, a: u16, d: u16) -> bool { self.inner.io_write(a, d) }
        fn io_reset(&mut self) { self.inner.io_reset() }
        fn poll_interrupt(&mut self) -> Option<lc3_ensemble::sim::device::Interrupt> { let r = self.inner.poll_interrupt(); self.log.lock().unwrap_or_else(|e| e.into_inner()).push(r.is_some()); r }
    }
    let mut sim = Simulator::new(SimFlags { machine_init: MachineInitStrategy::Known { value: 0 }, ..Default::default() });
    sim.mem[0x0181].set(0x1F00); sim.mem[0x1F00].set(0x8000);
    for a in 0x3000..0x3100u16 { sim.mem[a].set(0x1021); }
    let log = std::sync::Arc::new(std::sync::Mutex::new(vec![]));
    sim.device_handler.add_device(Shim { inner: dev, log: log.clone() }, &[]).ok().unwrap();
    for _ in 0..steps { let _ = sim.step_in(); }
    let v = log.lock().unwrap_or_else(|e| e.into_inner()).clone(); v
}

/// Another interrupt source on the same handler: it raises an *external* interrupt (the step returns an error) at every `period`-th poll.
/// Attached before or after the timer; the timer must be polled once per instruction cycle regardless, and its intervals must stay in range.
struct Pinger { n: u64, period: u64 }
impl ExternalDevice for Pinger {
    fn io_read(&mut self, _: u16, _: bool) -> Option<u16> { None }
    fn io_write(&mut self, _: u16, _: u16) -> bool { false }
    fn io_reset(&mut self) {}
    fn poll_interrupt(&mut self) -> Option<lc3_ensemble::sim::device::Interrupt> { self.n += 1; if self.n % self.period == 0 { Some(lc3_ensemble::sim::device::Interrupt::external(std::io::Error::other("ping"))) } else { None } }
}
fn with_pinger(r: Range, pinger_first: bool, period: u64) -> Result<(), (String, String)> {
    use lc3_ensemble::sim::mem::MachineInitStrategy;
    use lc3_ensemble::sim::{SimFlags, Simulator};
    let what = format!("range {r:?} next to a device raising an external interrupt every {period} polls (attached {} the timer)", if pinger_first { "before" } else { "after" });
    let res = catch(|| {
        let mut sim = Simulator::new(SimFlags { machine_init: MachineInitStrategy::Known { value: 0 }, ..Default::default() });
        sim.mem[0x0181].set(0x1F00); sim.mem[0x1F00].set(0x8000);
        for a in 0x3000..0x3200u16 { sim.mem[a].set(0x1021); }
        let log = std::sync::Arc::new(std::sync::Mutex::new(vec![]));
        let mut t = r.make(Some(3)); t.enabled = true;
        if pinger_first { sim.device_handler.add_device(Pinger { n: 0, period }, &[]).ok().unwrap(); }
        sim.device_handler.add_device(Probe { inner: t, log: log.clone() }, &[]).ok().unwrap();
        if !pinger_first { sim.device_handler.add_device(Pinger { n: 0, period }, &[]).ok().unwrap(); }
        let mut steps = 0usize;
        for _ in 0..150 { let _ = sim.step_in(); steps += 1; }
        let v = log.lock().unwrap_or_else(|e| e.into_inner()).clone(); (v, steps)
    });
    match res {
        Err(p) => Err((format!("panic:{}", panic_site(&p)), p)),
        Ok((fires, steps)) => { if fires.len() != steps { return Err(("poll-count:other-source".into(), format!("{what}: the timer was polled {} times in {steps} instruction cycles", fires.len()))); }
            let tr = Trace { enabled: vec![true; fires.len()], fires, samples_asked: vec![], resets: vec![] }; judge(r, &tr, &what) }
    }
}

struct Probe { inner: TimerDevice, log: std::sync::Arc<std::sync::Mutex<Vec<bool>>> }
impl ExternalDevice for Probe {
    fn io_read(&mut self, a: u16, e: bool) -> Option<u16> { self.inner.io_read(a, e) }
    fn io_write(&mut self, a: u16, d: u16) -> bool { self.inner.io_write(a, d) }
    fn io_reset(&mut self) { self.inner.io_reset() }
    fn poll_interrupt(&mut self) -> Option<lc3_ensemble::sim::device::Interrupt> { let r = self.inner.poll_interrupt(); self.log.lock().unwrap_or_else(|e| e.into_inner()).push(r.is_some()); r }
}
/// Simulator::reset must re-arm an attached timer: after a long interval is under way, the range is shortened and the simulator reset;
/// the first interrupt has to arrive within the NEW maximum + 1 polls.
fn reset_in_simulator(long: u32, short: u32, run_before: u32) -> Result<(), (String, String)> {
    use lc3_ensemble::sim::mem::MachineInitStrategy;
    use lc3_ensemble::sim::{SimFlags, Simulator};
    use std::sync::{Arc, RwLock};
    let what = format!("timer exact {long}, {run_before} steps, set_exact({short}), Simulator::reset()");
    let res = catch(|| {
        let mut sim = Simulator::new(SimFlags { machine_init: MachineInitStrategy::Known { value: 0 }, ..Default::default() });
        let log = std::sync::Arc::new(std::sync::Mutex::new(vec![]));
        let mut t = TimerDevice::new(Some(3), long..=long, 0x81, 4); t.enabled = true;
        let dev = Arc::new(RwLock::new(Probe { inner: t, log: log.clone() }));
        sim.device_handler.add_device(dev.clone(), &[]).ok().unwrap();
        let prep = |sim: &mut Simulator| { sim.mem[0x0181].set(0x1F00); sim.mem[0x1F00].set(0x8000); for a in 0x3000..0x3100u16 { sim.mem[a].set(0x1021); } };
        prep(&mut sim);
        for _ in 0..run_before { let _ = sim.step_in(); }
        dev.write().unwrap_or_else(|e| e.into_inner()).inner.set_exact(short);
        sim.reset();
        prep(&mut sim);
        log.lock().unwrap_or_else(|e| e.into_inner()).clear();
        for _ in 0..(short + 6) { let _ = sim.step_in(); }
        let v = log.lock().unwrap_or_else(|e| e.into_inner()).clone(); v
    });
    match res {
        Err(p) => Err((format!("panic:{}", panic_site(&p)), p)),
        Ok(fires) => match fires.iter().position(|f| *f) {
            Some(i) if i as u32 + 1 <= short + 1 => Ok(()),
            other => Err(("first-interrupt-late:after-simulator-reset".into(), format!("{what}: first interrupt after the reset at poll {:?} (1-based), allowed at most {}; fires {:?}", other.map(|i| i + 1), short + 1, fires.iter().map(|f| if *f { '!' } else { '.' }).collect::<String>()))),
        },
    }
}
fn in_simulator(r: Range, prio: u8) -> Result<(), (String, String)> {
    use lc3_ensemble::sim::mem::MachineInitStrategy;
    use lc3_ensemble::sim::{SimFlags, Simulator};
    let res = catch(|| {
        let mut sim = Simulator::new(SimFlags { machine_init: MachineInitStrategy::Known { value: 0 }, ..Default::default() });
        sim.mem[0x0181].set(0x1F00); sim.mem[0x1F00].set(0x8000); // handler: RTI
        for a in 0x3000..0x3100u16 { sim.mem[a].set(0x1021); }
        let log = std::sync::Arc::new(std::sync::Mutex::new(vec![]));
        let mut t = r.make(Some(3)); t.enabled = true; t.priority = prio;
        sim.device_handler.add_device(Probe { inner: t, log: log.clone() }, &[]).ok().unwrap();
        for _ in 0..120 { let _ = sim.step_in(); }
        let v = log.lock().unwrap_or_else(|e| e.into_inner()).clone(); v
    });
    match res {
        Err(p) => Err((format!("panic:{}", panic_site(&p)), p)),
        Ok(fires) => { if fires.len() != 120 { return Err(("poll-count".into(), format!("range {r:?} priority {prio}: device polled {} times in 120 steps (a device is polled once per instruction cycle)", fires.len()))); }
            let tr = Trace { enabled: vec![true; fires.len()], fires, samples_asked: vec![], resets: vec![] }; judge(r, &tr, &format!("range {r:?} priority {prio} inside a simulator")) }
    }
}

pub fn replay(case: &str) -> Option<String> {
    if let Some(r) = case.strip_prefix("sp:") { let (a, b) = r.split_once(':')?; let k: u8 = b.parse().ok()?; return spelled(*ranges().get(a.parse::<usize>().ok()?)?, k % 6, k >= 6).err().map(|(s, d)| format!("[{s}] {d}")); }
    if let Some(r) = case.strip_prefix("ux:") { let (a, b) = r.split_once(':')?; return free_running_spelled(*ranges().get(a.parse::<usize>().ok()?)?, b.parse().ok()?, true).err().map(|(s, d)| format!("[excluded-start:{s}] {d}")); }
    if let Some(r) = case.strip_prefix("u:") { let (a, b) = r.split_once(':')?; return free_running(*ranges().get(a.parse::<usize>().ok()?)?, b.parse().ok()?).err().map(|(s, d)| format!("[{s}] {d}")); }
    let p: Vec<&str> = case.splitn(4, ':').collect();
    let rs = ranges();
    match *p.first()? {
        h @ ("h" | "h1" | "h2" | "h3") => {
            let path: u8 = h[1..].parse().unwrap_or(0);
            let r = rs[p.get(1)?.parse::<usize>().ok()?];
            let events = parse_events(p.get(2)?);
            let choices: Vec<u32> = p.get(3)?.split(',').filter(|x| !x.is_empty()).filter_map(|x| x.parse().ok()).collect();
            let what = format!("range {r:?} (configuration path {path}) events {events:?} samples {choices:?}");
            match run_hooked(r, &Plan { choices, events, path }, 40) { Ok(tr) => judge(r, &tr, &what).err().map(|x| format!("[{}] {}", x.0, x.1)), Err(p) => Some(p) }
        }
        "u" => { let r = rs[p.get(1)?.parse::<usize>().ok()?]; let seed: u64 = p.get(2)?.parse().ok()?;
            let fires: Vec<bool> = catch(|| { let mut t = r.make(Some(seed)); t.enabled = true; (0..200).map(|_| t.poll_interrupt().is_some()).collect() }).ok()?;
            let tr = Trace { enabled: vec![true; fires.len()], fires, samples_asked: vec![], resets: vec![] };
            judge(r, &tr, "real RNG").err().map(|x| format!("[{}] {}", x.0, x.1)) }
        "s" => in_simulator(rs[p.get(1)?.parse::<usize>().ok()?], p.get(2).and_then(|x| x.parse().ok()).unwrap_or(4)).err().map(|x| format!("[{}] {}", x.0, x.1)),
        "g" => { let k: u64 = p.get(1)?.parse().ok()?; let big = big_ranges(); let r = *big.get((k / 18) as usize)?; let (c0, c1, ev) = ((k / 6 % 3) as u32, (k / 2 % 3) as u32, k % 2 == 1);
            let polls = 4 * r.max() + 20; let events = if ev { vec![(r.max() / 2, 3u8)] } else { vec![] };
            match run_hooked(r, &Plan { choices: vec![c0, c1], events, path: 0 }, polls) { Ok(tr) => judge(r, &tr, "big interval").err().map(|x| format!("[{}] {}", x.0, x.1.chars().take(400).collect::<String>())), Err(p) => Some(p) } }
        "p" => { let k: u64 = p.get(2)?.parse().ok()?; with_pinger(rs[p.get(1)?.parse::<usize>().ok()?], k % 2 == 0, [1, 3, 7][(k / 2) as usize]).err().map(|x| format!("[{}] {}", x.0, x.1)) }
        "w" => { let k: u8 = p.get(2)?.parse().ok()?; wrapped(rs[p.get(1)?.parse::<usize>().ok()?], k & 1, k & 2 != 0, k & 4 != 0).err().map(|x| format!("[{}] {}", x.0, x.1)) }
        "r" => reset_in_simulator(p.get(1)?.parse().ok()?, p.get(2)?.parse().ok()?, p.get(3)?.parse().ok()?).err().map(|x| format!("[{}] {}", x.0, x.1)),
        _ => None,
    }
}
