//! C17 — binary object format round-trips every object file.
use super::objrt;
use crate::util::*;
pub fn run(ctx: &Ctx) -> Report {
    let mut rep = Report::new("every object of the family (base/label/block-layout/fence/fault/link-family/2-statement programs assembled with and without debug symbols under 3 styles; every successful link of 2 and 3 link-family members; links mixing debug and non-debug members; the empty object) plus objects assembled from hostile source texts (<=3 (thorough 4) tokens over quotes, backslash, TAB, CR, control, non-ASCII, ' | ', '====', '#', '.TEXT', NUL, digits and letters that continue an escape (7, n, u{41}, x41), U+2028, empty and whitespace-only lines; 3 layouts): BinaryFormat::deserialize(serialize(o)) == Some(o) by the derived equality (image, labels, external flags, relocations, line map, source). non-trivial = object carrying a symbol table");
    objrt::run_family(ctx, &mut rep, false);
    objrt::run_hostile(ctx, &mut rep, false);
    // life cycle: every 11th object's round trip again right after the reader was given a damaged copy of it on the same thread (14 kinds of damage)
    objrt::run_after_failed_reads(ctx, &mut rep, false);
    rep.require(rep.acc.get("linked_objects") > 100 && rep.acc.get("assembled_objects") > 300, "assembled and linked objects explored");
    rep
}
pub fn replay(case: &str) -> Option<String> { objrt::replay(case, false) }
