//! C23 — symbol-table label queries agree and ignore case.
use super::asmrun::*;
use crate::util::*;

pub fn run(ctx: &Ctx) -> Report {
    let mut rep = Report::new("label-focused programs (mixed-case ASCII labels, several labels on one statement, the same label repeated at one address, labels on .end, external declarations before/inside/after blocks; the label and fault families also assembled WITHOUT debug symbols, where a program with externals still carries a label table), base programs, all 1-2 (thorough 3) statement sequences with labels on every statement; every label queried as written/UPPER/lower/alternating through lookup_label, get_label_source, rev_lookup_label and label_iter, plus absent names. non-trivial = assembled program with at least one label");
    let styles: Vec<(u64, u64)> = vec![(0, DEFAULT_SECONDARY), (3887, 0), (1234, 9), (2600, 33)];
    let plans = vec![
        Plan { fam: "LAB", styles: styles.clone(), debug: vec![true, false], stride: 1 },
        Plan { fam: "BASE", styles: styles.clone(), debug: vec![true], stride: 1 },
        Plan { fam: "BLK", styles: vec![(0, DEFAULT_SECONDARY)], debug: vec![true], stride: 1 },
        Plan { fam: "S1", styles: styles.clone(), debug: vec![true], stride: 1 },
        Plan { fam: "S2", styles: vec![(0, DEFAULT_SECONDARY)], debug: vec![true], stride: 1 },
        Plan { fam: "S3", styles: vec![(0, DEFAULT_SECONDARY)], debug: vec![true], stride: ctx.pick(11, 1) },
        Plan { fam: "F1", styles: vec![(0, DEFAULT_SECONDARY)], debug: vec![true, false], stride: 1 },
        Plan { fam: "BIG", styles: vec![(0, DEFAULT_SECONDARY)], debug: vec![true, false], stride: 1 },
    ];
    run_plans(ctx, &mut rep, "C23", &plans, &|i| i.accepted && i.labels > 0);
    rep.require(rep.acc.nontrivial > 5_000, "programs with labels were assembled and queried");
    rep.assume("ASCII labels (property precondition); first occurrence = first binding (definition or .external declaration) in source order");
    rep
}
pub fn replay(case: &str) -> Option<String> { replay_case("C23", case) }
