//! Lock-step harness: builds a real `Simulator` and a `RefLc3` from one machine description, steps both and compares
//! everything the ISA pins down. Shared by C08, C09, C10, C12, C14, C27, C28.
use crate::refs::isa::reg;
use crate::refs::lc3::*;
use crate::util::*;
use lc3_ensemble::sim::device::{BufferedDisplay, BufferedKeyboard, ExternalDevice, Interrupt};
use lc3_ensemble::sim::mem::{MachineInitStrategy, Word};
use lc3_ensemble::sim::{InternalRegister, MemAccessCtx, SimErr, SimFlags, Simulator};
use std::collections::{BTreeMap, VecDeque};
use std::sync::{Arc, Mutex, OnceLock};

pub const SSP_PORT: u16 = 0xFE30;
pub const CUSTOM_PORTS: [u16; 2] = [0xFE10, 0xFE12];
pub const FILL: u16 = 0x0000;

/// Initial memory image of a fresh simulator (OS + Known fill), read once from the implementation (C29 checks it separately).
pub fn base_image(fill: u16) -> Arc<Vec<u16>> {
    static B: OnceLock<Mutex<BTreeMap<u16, Arc<Vec<u16>>>>> = OnceLock::new();
    let m = B.get_or_init(|| Mutex::new(BTreeMap::new()));
    let mut g = m.lock().unwrap_or_else(|e| e.into_inner());
    g.entry(fill).or_insert_with(|| {
        let sim = Simulator::new(SimFlags { machine_init: MachineInitStrategy::Known { value: fill }, ..Default::default() });
        Arc::new((0..=0xFFFFu16).map(|a| sim.mem[a].get()).collect())
    }).clone()
}

/// Recording custom device (ports xFE10, xFE12): answers every read with `custom_value`, accepts every write.
#[derive(Clone, Default)]
pub struct Recorder { pub log: Arc<Mutex<Vec<(bool, u16, u16)>>> }
impl ExternalDevice for Recorder {
    fn io_read(&mut self, addr: u16, effectful: bool) -> Option<u16> { if effectful { self.log.lock().unwrap_or_else(|e| e.into_inner()).push((false, addr, 0)); } Some(custom_value(addr)) }
    fn io_write(&mut self, addr: u16, data: u16) -> bool { self.log.lock().unwrap_or_else(|e| e.into_inner()).push((true, addr, data)); true }
    fn io_reset(&mut self) {}
    fn poll_interrupt(&mut self) -> Option<Interrupt> { None }
}

/// Harness interrupt source: raises a level-triggered request from a chosen poll index until it is taken.
#[derive(Clone)]
pub struct IntSource { pub vect: u8, pub prio: u8, pub state: Arc<Mutex<IntState>> }
#[derive(Default)]
pub struct IntState { /** edge-triggered: a request is visible only at the poll it is raised at (lost if not taken then) */ pub edge: bool, pub poll: u64, pub raise_at: Vec<u64>, pub pending: u32, pub clear_mcr_at: Option<u64>, /** clears the MCR at every poll whose index is n-1 modulo n (a brake for programs that never stop by themselves) */ pub clear_mcr_every: Option<u64>, pub mcr: Option<Arc<std::sync::atomic::AtomicBool>> }
impl ExternalDevice for IntSource {
    fn io_read(&mut self, _: u16, _: bool) -> Option<u16> { None }
    fn io_write(&mut self, _: u16, _: u16) -> bool { false }
    fn io_reset(&mut self) {}
    fn poll_interrupt(&mut self) -> Option<Interrupt> {
        let mut s = self.state.lock().unwrap_or_else(|e| e.into_inner());
        let p = s.poll; s.poll += 1;
        let n = s.raise_at.iter().filter(|x| **x == p).count() as u32;
        s.pending += n;
        if let (Some(at), Some(m)) = (s.clear_mcr_at, &s.mcr) { if at == p { m.store(false, std::sync::atomic::Ordering::Relaxed); } }
        if let (Some(n), Some(m)) = (s.clear_mcr_every, &s.mcr) { if p % n == n - 1 { m.store(false, std::sync::atomic::Ordering::Relaxed); } }
        if s.edge { s.pending = 0; return if n > 0 { Some(Interrupt::vectored(self.vect, self.prio)) } else { None }; }
        if s.pending > 0 { Some(Interrupt::vectored(self.vect, self.prio)) } else { None }
    }
}

#[derive(Clone, Debug, Default)]
pub struct Machine {
    pub real_traps: bool,
    pub ignore_priv: bool,
    pub debug_frames: bool,
    pub strict: bool,
    pub pc: u16,
    pub regs: [u16; 8],
    /// value written to the PSR through xFFFC (privilege, priority, CC)
    pub psr: u16,
    pub saved_sp: u16,
    pub pokes: Vec<(u16, u16)>,
    pub kb: Option<Vec<u8>>,
    pub kb_ie: bool,
    pub display: bool,
    pub custom: bool,
    /// registers left as the machine initialised them (uninitialised, holding the fill value) instead of being set
    pub uninit_regs: u8,
    /// scale dimension: this many devices were attached to the simulator and removed again before the ones the scenario uses
    /// (device ids are never reused, so the scenario's devices get ids beyond 2^8 / 2^9)
    pub device_churn: u32,
}
#[derive(Clone)]
pub struct Idle;
impl ExternalDevice for Idle {
    fn io_read(&mut self, _: u16, _: bool) -> Option<u16> { None }
    fn io_write(&mut self, _: u16, _: u16) -> bool { false }
    fn io_reset(&mut self) {}
    fn poll_interrupt(&mut self) -> Option<Interrupt> { None }
}
impl Machine {
    pub fn user() -> Machine { Machine { pc: 0x3000, psr: 0x8002, saved_sp: 0x3000, regs: [0; 8], kb: Some(vec![]), display: true, custom: true, ..Default::default() } }
}

pub struct Pair {
    pub sim: Simulator,
    pub rf: RefLc3,
    pub kb: BufferedKeyboard,
    pub disp: BufferedDisplay,
    pub rec: Recorder,
    pub sources: Vec<IntSource>,
    /// additional requests visible at the next poll (devices modelled by the caller, e.g. the timer)
    pub extra: Vec<(u8, u8)>,
    /// "another thread" holds the keyboard / display buffer lock during the next step (the real RwLock write guard is taken)
    pub hold_kb: bool,
    pub hold_disp: bool,
    /// the holder is a reader: it takes the shared (read) guard instead of the write guard
    pub hold_read: bool,
}

pub fn build(m: &Machine) -> Pair {
    let flags = SimFlags { strict: m.strict, use_real_traps: m.real_traps, machine_init: MachineInitStrategy::Known { value: FILL }, debug_frames: m.debug_frames, ignore_privilege: m.ignore_priv };
    let mut sim = Simulator::new(flags);
    let mut rf = RefLc3::new(base_image(FILL));
    rf.real_traps = m.real_traps; rf.ignore_priv = m.ignore_priv;
    let kb = BufferedKeyboard::default(); let disp = BufferedDisplay::default(); let rec = Recorder::default();
    for _ in 0..m.device_churn { if let Ok(id) = sim.device_handler.add_device(Idle, &[0xFE50]) { sim.device_handler.remove_device(id); } }
    if let Some(q) = &m.kb {
        kb.get_buffer().write().unwrap_or_else(|e| e.into_inner()).extend(q.iter().copied());
        sim.device_handler.set_keyboard(kb.clone());
        rf.kb_attached = true; rf.kb_queue = q.iter().copied().collect::<VecDeque<u8>>();
    }
    if m.display { sim.device_handler.set_display(disp.clone()); rf.disp_attached = true; }
    if m.custom { let _ = sim.device_handler.add_device(rec.clone(), &CUSTOM_PORTS); rf.custom_ports.extend(CUSTOM_PORTS); }
    sim.mmap_internal(SSP_PORT, InternalRegister::SavedSP).expect("mmap SavedSP");
    rf.iregs.insert(SSP_PORT, IReg::SavedSp);
    for (a, v) in &m.pokes { sim.mem[*a].set(*v); rf.set_mem(*a, *v); }
    for i in 0..8 { if m.uninit_regs >> i & 1 == 1 { rf.r[i as usize] = sim.reg_file[reg(i)].get(); continue; } sim.reg_file[reg(i)].set(m.regs[i as usize]); rf.r[i as usize] = m.regs[i as usize]; }
    sim.pc = m.pc; rf.pc = m.pc;
    let omni = MemAccessCtx::omnipotent();
    sim.write_mem(0xFFFC, Word::new_init(m.psr), omni).expect("set PSR"); rf.write_psr(m.psr); rf.set_mem(0xFFFC, m.psr);
    sim.write_mem(SSP_PORT, Word::new_init(m.saved_sp), omni).expect("set saved SP"); rf.saved_sp = m.saved_sp; rf.set_mem(SSP_PORT, m.saved_sp);
    if m.kb_ie && m.kb.is_some() { sim.write_mem(KBSR, Word::new_init(0x4000), omni).expect("set IE"); rf.kb_ie = true; rf.set_mem(KBSR, 0x4000); }
    sim.observer.clear();
    Pair { sim, rf, kb, disp, rec, sources: vec![], extra: vec![], hold_kb: false, hold_disp: false, hold_read: false }
}

/// A pair whose simulator was used before: `prior` (same device configuration as `m`) is set up and run for up to `steps` steps, the
/// flags are switched to `m`'s, `reset()` is called, and `m` is then set up through the public fields exactly as `build` does on a
/// fresh simulator (the saved stack pointer is only written when `m` asks for a non-default one). The reference machine is fresh.
pub fn build_reused(m: &Machine, prior: &Machine, steps: u32) -> Result<Pair, String> { build_reused_held(m, prior, steps, 0) }
/// `hold`: while `reset()` runs, "another thread" holds a buffer lock: 1 keyboard (exclusive), 2 display (exclusive), 3 keyboard (reader),
/// 4 display (reader), 5 both exclusively. The guards are released right after the reset, before the next use is set up.
pub fn build_reused_held(m: &Machine, prior: &Machine, steps: u32, hold: u8) -> Result<Pair, String> {
    assert!(prior.kb.is_some() == m.kb.is_some() && prior.display == m.display && prior.custom == m.custom);
    let mut p = build(prior);
    catch(std::panic::AssertUnwindSafe(|| {
        for _ in 0..steps { let before = (p.sim.pc, p.sim.instructions_run); if p.sim.step_in().is_err() || (p.sim.pc, p.sim.instructions_run) == before { break; } }
        p.sim.flags = SimFlags { strict: m.strict, use_real_traps: m.real_traps, machine_init: MachineInitStrategy::Known { value: FILL }, debug_frames: m.debug_frames, ignore_privilege: m.ignore_priv };
        let (kbuf, dbuf) = (p.kb.get_buffer(), p.disp.get_buffer());
        let g1 = if hold == 1 || hold == 5 { Some(kbuf.write().unwrap_or_else(|e| e.into_inner())) } else { None };
        let g2 = if hold == 2 || hold == 5 { Some(dbuf.write().unwrap_or_else(|e| e.into_inner())) } else { None };
        let g3 = if hold == 3 { Some(kbuf.read().unwrap_or_else(|e| e.into_inner())) } else { None };
        let g4 = if hold == 4 { Some(dbuf.read().unwrap_or_else(|e| e.into_inner())) } else { None };
        p.sim.reset();
        drop((g1, g2, g3, g4));
    }))?;
    let fresh = build(m); // supplies the reference machine (and is dropped)
    let Pair { rf, .. } = fresh;
    p.rf = rf;
    { let mut q = p.kb.get_buffer().write().unwrap_or_else(|e| e.into_inner()); q.clear(); q.extend(m.kb.clone().unwrap_or_default()); }
    p.disp.get_buffer().write().unwrap_or_else(|e| e.into_inner()).clear();
    p.rec.log.lock().unwrap_or_else(|e| e.into_inner()).clear();
    let sim = &mut p.sim;
    for (a, v) in &m.pokes { sim.mem[*a].set(*v); }
    for i in 0..8 { sim.reg_file[reg(i)].set(m.regs[i as usize]); }
    sim.pc = m.pc;
    let omni = MemAccessCtx::omnipotent();
    sim.write_mem(0xFFFC, Word::new_init(m.psr), omni).map_err(|e| format!("set PSR: {e:?}"))?;
    if m.saved_sp != 0x3000 { sim.write_mem(SSP_PORT, Word::new_init(m.saved_sp), omni).map_err(|e| format!("set saved SP: {e:?}"))?; }
    if m.kb_ie && m.kb.is_some() { sim.write_mem(KBSR, Word::new_init(0x4000), omni).map_err(|e| format!("set IE: {e:?}"))?; }
    sim.observer.clear();
    Ok(p)
}

/// A prior use of the simulator that `reset()` interrupts while the machine is in supervisor mode, with a stack pointer of its own in user
/// memory (so that the stack pointer *not* in R6 at that moment holds a user address): kind 1 = a program blocked inside the OS's GETC
/// routine under real traps (empty keyboard); kind 2 = supervisor-mode code at x1000 spinning, with saved (user) stack pointer x4000;
/// kind 3 = inside an interrupt service routine entered from user code. Same device configuration as `m`.
pub fn supervisor_prior(m: &Machine, kind: u8) -> (Machine, u32) {
    let mut pm = Machine::user();
    pm.kb = m.kb.as_ref().map(|_| vec![]); pm.display = m.display; pm.custom = m.custom; pm.device_churn = 0;
    pm.regs = [0, 1, 2, 3, 4, 5, 0xF000, 7];
    match kind {
        1 => { pm.real_traps = true; pm.pokes.extend([(0x3000u16, 0xF020u16), (0x3001, 0xF025)]); (pm, 40) }
        2 => { pm.psr = 0x0002; pm.pc = 0x1000; pm.saved_sp = 0x4000; pm.regs[6] = 0x2FF0; pm.pokes.extend([(0x1000u16, 0x0FFFu16)]); (pm, 5) }
        _ => { pm.ignore_priv = true; pm.pokes.extend([(0x3000u16, 0x0FFFu16), (0x0000, 0x1F80), (0x1F80, 0x0FFF)]); pm.psr = 0x8002; (pm, 3) } // TRAP-less: BR self; the caller raises nothing, so kind 3 falls back to user mode
    }
}

impl Pair {
    pub fn add_source(&mut self, vect: u8, prio: u8, raise_at: Vec<u64>) -> usize {
        let s = IntSource { vect, prio, state: Arc::new(Mutex::new(IntState { raise_at, ..Default::default() })) };
        self.sim.device_handler.add_device(s.clone(), &[]).ok().expect("add interrupt source");
        self.sources.push(s);
        self.sources.len() - 1
    }
    /// The same interrupt source installed through another public registration call: slot 1 = `set_display` (the machine must have no
    /// display of its own), slot 2 = `set_keyboard` (no keyboard), anything else = `add_device`. The source answers no port, so the display /
    /// keyboard registers read and write as on a machine without that device.
    pub fn add_source_in_slot(&mut self, slot: u8, vect: u8, prio: u8, raise_at: Vec<u64>) -> usize {
        let s = IntSource { vect, prio, state: Arc::new(Mutex::new(IntState { raise_at, ..Default::default() })) };
        match slot {
            1 => { assert!(!self.rf.disp_attached); self.sim.device_handler.set_display(s.clone()); }
            2 => { assert!(!self.rf.kb_attached); self.sim.device_handler.set_keyboard(s.clone()); }
            _ => { self.sim.device_handler.add_device(s.clone(), &[]).ok().expect("add interrupt source"); }
        }
        self.sources.push(s);
        self.sources.len() - 1
    }
    /// requests visible at the next poll, in device order, for the reference model
    fn next_requests(&self) -> Vec<(u8, u8)> {
        let mut v = vec![];
        for s in &self.sources {
            let st = s.state.lock().unwrap_or_else(|e| e.into_inner());
            let will = st.pending + st.raise_at.iter().filter(|x| **x == st.poll).count() as u32;
            if will > 0 { v.push((s.vect, s.prio.min(7))); }
        }
        v.extend(self.extra.iter().copied());
        v
    }
    pub fn saved_sp(&mut self) -> u16 { self.sim.read_mem(SSP_PORT, MemAccessCtx::omnipotent()).map(|w| w.get()).unwrap_or(0xDEAD) }
}

#[derive(Clone, Debug, PartialEq, Eq, Hash)]
pub enum SimOutcome { Ok, Err(String) }

pub fn err_class(e: &SimErr) -> Option<RefErr> {
    match e { SimErr::AccessViolation => Some(RefErr::Acv), SimErr::PrivilegeViolation => Some(RefErr::Priv), SimErr::IllegalOpcode => Some(RefErr::IllegalOpcode), SimErr::InvalidInstrFormat => Some(RefErr::InvalidFormat), _ => None }
}

pub struct StepInfo { pub outcome: Outcome, pub sim_result: Result<(), String>, pub taken: Option<(u8, u8)> }

/// Steps both machines once and compares. `Err((sig, detail))` is a disagreement.
pub fn step_compare(p: &mut Pair, check_observer: bool) -> Result<StepInfo, (String, String)> {
    let reqs = p.next_requests();
    let pre_pc = p.rf.pc; let pre_psr = p.rf.psr;
    let before_cnt = p.sim.instructions_run;
    p.rf.kb_locked = p.hold_kb; p.rf.disp_locked = p.hold_disp;
    let out = p.rf.step(&reqs);
    p.rf.kb_locked = false; p.rf.disp_locked = false;
    let stepped = {
        let (kbuf, dbuf) = (p.kb.get_buffer().clone(), p.disp.get_buffer().clone());
        let _gk = if p.hold_kb && !p.hold_read { Some(kbuf.write().unwrap_or_else(|e| e.into_inner())) } else { None };
        let _gd = if p.hold_disp && !p.hold_read { Some(dbuf.write().unwrap_or_else(|e| e.into_inner())) } else { None };
        let _rk = if p.hold_kb && p.hold_read { Some(kbuf.read().unwrap_or_else(|e| e.into_inner())) } else { None };
        let _rd = if p.hold_disp && p.hold_read { Some(dbuf.read().unwrap_or_else(|e| e.into_inner())) } else { None };
        catch(|| p.sim.step_in())
    };
    let res = match stepped { Ok(r) => r, Err(m) => return Err((format!("panic:{}", panic_site(&m)), format!("step_in panicked at pc=x{pre_pc:04X}: {m}"))) };
    // an interrupt taken consumes one pending request of the winning source
    let mut taken = None;
    if out == Outcome::Interrupted {
        let v = ((p.rf.frames.last().map(|f| f.1).unwrap_or(0)) - 0x100) as u8;
        if let Some(s) = p.sources.iter().find(|s| s.vect == v) { let mut st = s.state.lock().unwrap_or_else(|e| e.into_inner()); if st.pending > 0 { st.pending -= 1; } taken = Some((v, s.prio)); } else { taken = Some((v, 4)); }
    }
    let ctx = format!("word=x{:04X} at pc=x{pre_pc:04X} psr=x{pre_psr:04X} real_traps={} ignore_priv={}", p.rf.mem(pre_pc), p.rf.real_traps, p.rf.ignore_priv);
    // ---- result variant
    let sim_result = res.as_ref().map(|_| ()).map_err(|e| format!("{e:?}"));
    match (&out, &res) {
        (Outcome::Executed | Outcome::Interrupted | Outcome::Halt | Outcome::Exception(_), Ok(())) => {}
        (Outcome::Err(e), Err(se)) if err_class(se) == Some(*e) => {
            let pp = match catch(|| p.sim.prefetch_pc()) { Ok(x) => x, Err(m) => return Err((format!("panic:{}", panic_site(&m)), format!("prefetch_pc panicked after {ctx}: {m}"))) };
            if pp != p.rf.instr_addr { return Err(("fault-address".into(), format!("{ctx}: error {se:?} reported with prefetch_pc=x{pp:04X}, faulting instruction is at x{:04X}", p.rf.instr_addr))); }
        }
        _ => return Err((format!("result:{}", outcome_name(&out)), format!("{ctx}: reference outcome {out:?}, simulator returned {res:?}"))),
    }
    // ---- registers, PC, PSR, saved SP
    for i in 0..8 { let g = p.sim.reg_file[reg(i)].get(); if g != p.rf.r[i as usize] { return Err((format!("reg:{}", outcome_name(&out)), format!("{ctx}: R{i} = x{g:04X}, reference x{:04X}", p.rf.r[i as usize]))); } }
    if p.sim.pc != p.rf.pc { return Err((format!("pc:{}", outcome_name(&out)), format!("{ctx}: PC = x{:04X}, reference x{:04X}", p.sim.pc, p.rf.pc))); }
    let mask = if p.rf.cc_defined { 0xFFFF } else { 0xFFF8 };
    let gpsr = p.sim.psr().get();
    if gpsr & mask != p.rf.psr & mask { return Err((format!("psr:{}", outcome_name(&out)), format!("{ctx}: PSR = x{gpsr:04X}, reference x{:04X} (mask x{mask:04X})", p.rf.psr))); }
    let ssp = p.saved_sp();
    if ssp != p.rf.saved_sp { return Err((format!("saved-sp:{}", outcome_name(&out)), format!("{ctx}: saved SP = x{ssp:04X}, reference x{:04X}", p.rf.saved_sp))); }
    // ---- touched memory (non-I/O), devices, MCR, count, depth
    for a in &p.rf.log {
        if a.addr < 0xFE00 && !p.rf.unspecified.contains(&a.addr) {
            let g = p.sim.mem[a.addr].get();
            if g != p.rf.mem(a.addr) { return Err((format!("mem:{}", outcome_name(&out)), format!("{ctx}: mem[x{:04X}] = x{g:04X}, reference x{:04X}", a.addr, p.rf.mem(a.addr)))); }
        }
    }
    let d: Vec<u8> = p.disp.get_buffer().read().unwrap_or_else(|e| e.into_inner()).clone();
    if d != p.rf.disp { return Err(("display".into(), format!("{ctx}: display {d:x?}, reference {:x?}", p.rf.disp))); }
    let q: Vec<u8> = p.kb.get_buffer().read().unwrap_or_else(|e| e.into_inner()).iter().copied().collect();
    if p.rf.kb_attached && q != p.rf.kb_queue.iter().copied().collect::<Vec<u8>>() { return Err(("keyboard".into(), format!("{ctx}: keyboard queue {q:x?}, reference {:x?}", p.rf.kb_queue))); }
    let rl = p.rec.log.lock().unwrap_or_else(|e| e.into_inner()).clone();
    if rl != p.rf.custom_log { return Err(("custom-device".into(), format!("{ctx}: recording device saw {rl:x?}, reference {:x?}", p.rf.custom_log))); }
    if p.sim.instructions_run - before_cnt != (out == Outcome::Executed) as u64 { return Err(("instruction-count".into(), format!("{ctx}: instructions_run advanced by {}, reference outcome {out:?}", p.sim.instructions_run - before_cnt))); }
    if check_observer {
        if let Some(e) = compare_observer(p, &ctx) { return Err(e); }
    }
    Ok(StepInfo { outcome: out, sim_result, taken })
}
pub fn outcome_name(o: &Outcome) -> &'static str {
    match o { Outcome::Executed => "executed", Outcome::Interrupted => "interrupt", Outcome::Halt => "halt", Outcome::Err(_) => "error", Outcome::Exception(_) => "exception" }
}

/// C28: observer sets vs the reference access log of the last step.
pub fn compare_observer(p: &mut Pair, ctx: &str) -> Option<(String, String)> {
    let mut exp: BTreeMap<u16, (bool, bool, bool)> = BTreeMap::new();
    for a in &p.rf.log { let e = exp.entry(a.addr).or_default(); if a.write { e.1 = true; if a.changed { e.2 = true; } } else { e.0 = true; } }
    let got: BTreeMap<u16, (bool, bool, bool)> = p.sim.observer.take_mem_accesses().map(|(a, s)| (a, (s.read(), s.written(), s.modified()))).collect();
    for (a, (r, w, m)) in &got {
        let e = exp.get(a).copied().unwrap_or_default();
        if *a < 0xFE00 {
            if *r != e.0 { return Some(("observer:read".into(), format!("{ctx}: x{a:04X} marked read={r}, reference read={}", e.0))); }
            if *w != e.1 { return Some(("observer:written".into(), format!("{ctx}: x{a:04X} marked written={w}, reference written={}", e.1))); }
        } else if *w && !e.1 { return Some(("observer:io-written".into(), format!("{ctx}: I/O address x{a:04X} marked written but the instruction did not write it"))); }
        if *m && !*w { return Some(("observer:modified-not-written".into(), format!("{ctx}: x{a:04X} marked modified but not written"))); }
        if *a < 0xFE00 && e.2 && !*m { return Some(("observer:modified-missing".into(), format!("{ctx}: x{a:04X} was written with a different value but is not marked modified"))); }
    }
    for (a, e) in &exp { if *a < 0xFE00 && !got.contains_key(a) { return Some(("observer:missing".into(), format!("{ctx}: x{a:04X} was accessed (read={} written={}) but the observer has no entry", e.0, e.1))); } }
    None
}

/// Full non-I/O memory comparison (end of a run).
pub fn compare_memory(p: &Pair) -> Option<(String, String)> {
    for a in 0..0xFE00u16 {
        if p.rf.unspecified.contains(&a) { continue; }
        let g = p.sim.mem[a].get();
        if g != p.rf.mem(a) { return Some(("final-memory".into(), format!("mem[x{a:04X}] = x{g:04X}, reference x{:04X}", p.rf.mem(a)))); }
    }
    None
}
