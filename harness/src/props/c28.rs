//! C28 — access observer records exactly the memory the program touched.
use super::c08::{outcome_hash, s1, s2, HORIZON};
use super::simcmp::*;
use super::simfam::*;
use crate::refs::lc3::Outcome;
use crate::util::*;
use lc3_ensemble::sim::mem::Word;
use lc3_ensemble::sim::MemAccessCtx;
use std::collections::BTreeMap;

/// Per-run variant: the observer accumulates over a whole `run_with_limit`; compare with the union of the reference logs.
fn run_variant(len: usize, idx: u64, flags: u64) -> Result<u64, (String, String)> { run_variant_on(program_machine(len, idx, flags), flags) }
/// the same for the self-referential programs: stores that patch an instruction which is fetched later in the same run, loads of the next instruction ...
fn run_selfref(len: usize, idx: u64, flags: u64) -> Result<u64, (String, String)> { run_variant_on(selfref_machine(len, idx, flags), flags) }
/// the same runs with the debugger's frame tracking on and a stack-argument signature registered for every address the program can call
/// (what the debugger peeks at to fill in its frames is not something the executed instructions read)
fn run_frames(len: usize, idx: u64, flags: u64) -> Result<u64, (String, String)> {
    let (mut m, words) = program_machine(len, idx, flags);
    m.debug_frames = true;
    run_variant_on((m, words), flags | 0x100)
}
fn run_variant_on((m, words): (Machine, Vec<u16>), flags: u64) -> Result<u64, (String, String)> {
    let mut p = build(&m);
    if flags & 0x100 != 0 {
        use lc3_ensemble::sim::frame::ParameterList;
        for a in (0x3000..0x3020u16).chain([0x0200, 0x1F00, 0x3100, 0x3006, 0xFD00]) { p.sim.frame_stack.set_subroutine_def(a, ParameterList::with_calling_convention(&["a", "b", "c"])); }
    }
    let mut exp: BTreeMap<u16, (bool, bool, bool)> = BTreeMap::new();
    let mut steps = 0u64;
    while p.rf.instr_count < HORIZON as u64 && steps < 4000 {
        let o = p.rf.step(&[]);
        steps += 1;
        for a in &p.rf.log { let e = exp.entry(a.addr).or_default(); if a.write { e.1 = true; if a.changed { e.2 = true; } } else { e.0 = true; } }
        if matches!(o, Outcome::Halt | Outcome::Err(_)) || p.rf.saw_user_rti { break; }
    }
    if p.rf.saw_user_rti { return Ok(0); }
    let r = catch(|| p.sim.run_with_limit(HORIZON as u64));
    if let Err(m) = r { return Err((format!("panic:{}", panic_site(&m)), m)); }
    let ctx = format!("run of program {words:x?} flags {flags}");
    let got: BTreeMap<u16, (bool, bool, bool)> = p.sim.observer.take_mem_accesses().map(|(a, s)| (a, (s.read(), s.written(), s.modified()))).collect();
    // the real-trap HALT path ends by clearing MCR, after which `run` stops but the reference would keep looping: compare only when both ended the same way
    if p.rf.instr_count != p.sim.instructions_run { return Ok(0); }
    for (a, (r, w, m)) in &got {
        if *a >= 0xFE00 { if *w && !exp.get(a).map(|e| e.1).unwrap_or(false) { return Err(("observer:io-written".into(), format!("{ctx}: I/O address x{a:04X} marked written but never written"))); } continue; }
        let e = exp.get(a).copied().unwrap_or_default();
        if *r != e.0 || *w != e.1 { return Err((format!("observer:run:{}", if *r != e.0 { "read" } else { "written" }), format!("{ctx}: x{a:04X} marked read={r} written={w}, reference read={} written={}", e.0, e.1))); }
        if *m && !*w { return Err(("observer:modified-not-written".into(), format!("{ctx}: x{a:04X} modified but not written"))); }
        if e.2 && !*m { return Err(("observer:modified-missing".into(), format!("{ctx}: x{a:04X} changed value but is not marked modified"))); }
    }
    for (a, e) in &exp { if *a < 0xFE00 && !got.contains_key(a) { return Err(("observer:missing".into(), format!("{ctx}: x{a:04X} accessed (read={} written={}) but not recorded", e.0, e.1))); } }
    // host accesses through untracked contexts are not recorded
    let untracked = MemAccessCtx { track_access: false, ..p.sim.default_mem_ctx() };
    for a in [0x3000u16, 0x3333, 0xFDFF] {
        let _ = p.sim.read_mem(a, MemAccessCtx::omnipotent());
        let _ = p.sim.write_mem(a, Word::new_init(0xBEEF), MemAccessCtx::omnipotent());
        let _ = p.sim.read_mem(a, untracked);
        let _ = p.sim.write_mem(a, Word::new_init(0xFEED), MemAccessCtx { privileged: true, ..untracked });
    }
    if let Some((a, s)) = p.sim.observer.take_mem_accesses().next() { return Err(("observer:untracked-recorded".into(), format!("{ctx}: host access through an untracked context was recorded at x{a:04X}: {s:?}"))); }
    Ok(steps)
}

/// step_over variant: each `step_over` call is one execution (the observer is cleared when it starts): what it leaves in the observer must
/// be the union of what the instructions it executed accessed (the calling instruction's own fetch and pushes included).
fn stepover_variant(len: usize, idx: u64, flags: u64) -> Result<u64, (String, String)> {
    // virtual traps only: under real traps a program that faults into an exception loop never completes an instruction, and step_over
    // (which has no step limit of its own) would not return
    let flags = flags & 2;
    let (m, words) = program_machine(len, idx, flags);
    let mut p = build(&m);
    let mut calls = 0u64;
    // step_over has no step limit of its own: a harness device clears the machine-control register 3000 polls into a call, which ends it
    // (calls cut short this way are not compared)
    let brake = p.add_source(0x90, 0, vec![]);
    p.sources[brake].state.lock().unwrap_or_else(|e| e.into_inner()).mcr = Some(p.sim.mcr().clone());
    while p.rf.instr_count < HORIZON as u64 && calls < 60 {
        { let mut st = p.sources[brake].state.lock().unwrap_or_else(|e| e.into_inner()); st.clear_mcr_at = Some(st.poll + 3000); }
        let n0 = p.sim.instructions_run;
        let r = catch(|| p.sim.step_over());
        let res = match r { Err(m) => return Err((format!("panic:{}", panic_site(&m)), m)), Ok(x) => x };
        calls += 1;
        let mut exp: BTreeMap<u16, (bool, bool, bool)> = BTreeMap::new();
        let mut last = Outcome::Executed;
        let target = p.sim.instructions_run;
        let mut guard = 0;
        loop {
            if p.rf.instr_count >= target && !(target == n0 && guard == 0) { break; }
            last = p.rf.step(&[]); guard += 1;
            for a in &p.rf.log { let e = exp.entry(a.addr).or_default(); if a.write { e.1 = true; if a.changed { e.2 = true; } } else { e.0 = true; } }
            if matches!(last, Outcome::Halt | Outcome::Err(_) | Outcome::Exception(_)) || p.rf.saw_user_rti || guard > 4000 { break; }
        }
        // the call ended on an instruction that does not complete (virtual HALT parks the machine, a fault is reported): its accesses belong to the call
        if (p.sim.hit_halt() || res.is_err()) && !matches!(last, Outcome::Halt | Outcome::Err(_)) && guard > 0 && p.rf.instr_count == target {
            last = p.rf.step(&[]);
            for a in &p.rf.log { let e = exp.entry(a.addr).or_default(); if a.write { e.1 = true; if a.changed { e.2 = true; } } else { e.0 = true; } }
            if !matches!(last, Outcome::Halt | Outcome::Err(_)) { return Ok(calls); }
        }
        if p.rf.saw_user_rti || matches!(last, Outcome::Exception(_)) || p.rf.instr_count != p.sim.instructions_run || p.rf.pc != p.sim.pc { return Ok(calls); } // the two ended differently (judged by C13/C08), nothing to compare
        let ctx = format!("step_over call {calls} of program {words:x?} flags {flags} (instructions {n0}..{target})");
        let got: BTreeMap<u16, (bool, bool, bool)> = p.sim.observer.take_mem_accesses().map(|(a, s)| (a, (s.read(), s.written(), s.modified()))).collect();
        for (a, (r, w, _)) in &got {
            if *a >= 0xFE00 { continue; }
            let e = exp.get(a).copied().unwrap_or_default();
            if *r != e.0 || *w != e.1 { return Err((format!("observer:step_over:{}", if *r != e.0 { "read" } else { "written" }), format!("{ctx}: x{a:04X} marked read={r} written={w}, the executed instructions read={} wrote={}", e.0, e.1))); }
        }
        for (a, e) in &exp { if *a < 0xFE00 && !got.contains_key(a) { return Err(("observer:step_over:missing".into(), format!("{ctx}: x{a:04X} accessed (read={} written={}) during the call but not recorded", e.0, e.1))); } }
        if res.is_err() || matches!(last, Outcome::Halt | Outcome::Err(_)) { break; }
    }
    Ok(calls)
}

/// scale: more than 2^16 executions (observer generations) on one simulator: a load, a store and then a branch-to-self stepped 70000 times with the
/// observer compared after every step (variant 0: drained with take_mem_accesses; variant 1: only peeked with get_mem_accesses)
fn long_variant(variant: u64) -> Result<u64, (String, String)> {
    let (mut m, _) = program_machine(0, 0, 0);
    // LD R0,+2 ; ST R0,+2 ; BRnzp to itself: the first two instructions and their data are touched once, 70000 generations before the end
    for (k, w) in [0x2002u16, 0x3002, 0x0FFF, 0x1234, 0x0000].iter().enumerate() { m.pokes.push((0x3000 + k as u16, *w)); }
    let mut p = build(&m);
    let mut prev: Vec<u16> = vec![];
    for step in 0..70_000u64 {
        if variant == 0 { step_compare(&mut p, true).map_err(|(s, d)| (s, format!("step {step} of the LD/ST/BR loop (observer drained after every step): {d}")))?; }
        else {
            step_compare(&mut p, false).map_err(|(s, d)| (s, format!("step {step}: {d}")))?;
            let mut exp: BTreeMap<u16, (bool, bool)> = BTreeMap::new();
            for a in &p.rf.log { let e = exp.entry(a.addr).or_default(); if a.write { e.1 = true; } else { e.0 = true; } }
            for (a, e) in &exp { let g = p.sim.observer.get_mem_accesses(*a); if g.read() != e.0 || g.written() != e.1 { return Err(("observer:long:flags".into(), format!("step {step} of the LD/ST/BR loop (observer only peeked): x{a:04X} marked read={} written={}, the step read={} wrote={}", g.read(), g.written(), e.0, e.1))); } }
            for a in &prev { if !exp.contains_key(a) && p.sim.observer.get_mem_accesses(*a).accessed() { return Err(("observer:long:stale".into(), format!("step {step} of the LD/ST/BR loop (observer only peeked): x{a:04X} was accessed by an earlier step only but is marked {:?}", p.sim.observer.get_mem_accesses(*a)))); } }
            prev = vec![0x3000, 0x3001, 0x3002, 0x3003, 0x3004];
        }
    }
    Ok(70_000)
}

/// Peek variant: a front end that reads the observer between steps with the non-draining `get_mem_accesses` (step_in clears the
/// observer itself): after every step each address the step accessed carries exactly its flags, and every address the previous
/// step accessed but this one did not is back to empty.
/// self-referential words: loads/stores/branches whose data or target address is the instruction itself or its neighbour, so that the
/// last access of one step and the fetch of the next hit the same word
const SELFREF: [u16; 12] = [0x2000, 0x21FF, 0x3000, 0x31FF, 0xA000, 0xB1FF, 0x0FFF, 0x0E00, 0xE200, 0x6040, 0x7040, 0x1021];
fn selfref_machine(len: usize, mut idx: u64, flags: u64) -> (Machine, Vec<u16>) {
    let (mut m, _) = program_machine(0, 0, flags);
    m.regs[0] = 0x1021; m.regs[1] = 0x3001;
    let mut words = vec![];
    for _ in 0..len { words.push(SELFREF[(idx % 12) as usize]); idx /= 12; }
    for (k, w) in words.iter().enumerate() { m.pokes.push((0x3000 + k as u16, *w)); }
    (m, words)
}
fn peek_variant(len: usize, idx: u64, flags: u64) -> Result<u64, (String, String)> { peek_on(program_machine(len, idx, flags)) }
fn peek_selfref(len: usize, idx: u64, flags: u64) -> Result<u64, (String, String)> { peek_on(selfref_machine(len, idx, flags)) }
fn peek_on((m, words): (Machine, Vec<u16>)) -> Result<u64, (String, String)> {
    let flags = (m.real_traps as u64) | (m.ignore_priv as u64) << 1;
    let mut p = build(&m);
    let mut prev: Vec<u16> = vec![];
    let mut steps = 0u64;
    for _ in 0..HORIZON {
        let info = step_compare(&mut p, false)?;
        steps += 1;
        let mut exp: BTreeMap<u16, (bool, bool, bool)> = BTreeMap::new();
        for a in &p.rf.log { let e = exp.entry(a.addr).or_default(); if a.write { e.1 = true; if a.changed { e.2 = true; } } else { e.0 = true; } }
        let ctx = format!("program {words:x?} flags {flags}, step {steps} (observer read with get_mem_accesses, not drained between steps)");
        for (a, e) in &exp {
            if *a >= 0xFE00 { continue; }
            let g = p.sim.observer.get_mem_accesses(*a);
            if g.read() != e.0 { return Err(("observer:peek:read".into(), format!("{ctx}: x{a:04X} marked read={}, the step read it: {}", g.read(), e.0))); }
            if g.written() != e.1 { return Err(("observer:peek:written".into(), format!("{ctx}: x{a:04X} marked written={}, the step wrote it: {}", g.written(), e.1))); }
            if e.2 && !g.modified() { return Err(("observer:peek:modified-missing".into(), format!("{ctx}: x{a:04X} changed value but is not marked modified"))); }
        }
        for a in &prev { if *a < 0xFE00 && !exp.contains_key(a) && p.sim.observer.get_mem_accesses(*a).accessed() { return Err(("observer:peek:stale".into(), format!("{ctx}: x{a:04X} was accessed by the previous step only but is still marked {:?}", p.sim.observer.get_mem_accesses(*a)))); } }
        prev = exp.keys().copied().collect();
        if matches!(info.outcome, Outcome::Halt | Outcome::Err(_)) || p.rf.saw_user_rti { break; }
    }
    Ok(steps)
}

pub fn run(ctx: &Ctx) -> Report {
    let mut rep = Report::new("same exploration as C08-S1 (every word x machine contexts, one step + the following fetch) and C08-S2 (all programs of <=2 (3) instructions over the 40-word alphabet, per step_in) with the AccessObserver compared after every step against RefLC3's ordered access log: read/written sets equal on non-I/O addresses, no I/O address marked written that the instruction did not write, modified subset of written and superset of value-changing writes; plus the same programs stepped with the observer only peeked (get_mem_accesses, never drained: consecutive executions whose last and first access hit the same address) (also every program of <=3 self-referential words: loads, stores and branches aimed at the instruction itself or its neighbour) under step_over (one observer generation per call: the union over the instructions the call executed) and under run_with_limit (observer accumulates over the run) and host accesses through omnipotent()/track_access:false contexts leave the observer empty. non-trivial = steps that access data memory");
    let nctx = context_count(ctx.thorough());
    let wstride = ctx.pick(1u64, 1u64);
    let r = sweep(ctx, nctx * 65536 / wstride, 1024, |k, acc| {
        let (ci, w) = (k / (65536 / wstride), ((k % (65536 / wstride)) * wstride) as u16);
        acc.evals += 1; acc.transitions += 2; acc.count("s1_steps", 1);
        if matches!(w >> 12, 2 | 3 | 6 | 7 | 10 | 11 | 15 | 8) { acc.nontrivial += 1; }
        match s1(ci, w, true) {
            Ok(o) => { acc.outcomes.insert(mix((w >> 12) as u64 * 16 + ci % 16, outcome_hash(&o))); }
            Err((sig, d)) => if sig.starts_with("observer") || sig.starts_with("panic") { acc.violation(sig, format!("s1:{ci}:{w}"), d) },
        }
        acc.sample(k, ctx.seed, 1_000_003, || format!("s1 context {ci} word x{w:04X}"));
    });
    rep.absorb(r);
    let maxlen = ctx.pick(2usize, 3usize);
    for len in 1..=maxlen {
        let n = 40u64.pow(len as u32);
        let r = sweep(ctx, n * 4 * 5, 16, |k, acc| {
            let (idx, flags, variant) = (k / 20, k / 5 % 4, k % 5);
            acc.evals += 1;
            let res = if variant == 0 { acc.count("s2_step_programs", 1); s2(len, idx, flags, true).map(|x| x.0) } else if variant == 1 { acc.count("s2_run_programs", 1); run_variant(len, idx, flags) } else if variant == 2 { acc.count("s2_peek_programs", 1); peek_variant(len, idx, flags) } else if variant == 4 { acc.count("s2_run_programs_with_frame_tracking", 1); run_frames(len, idx, flags) } else { acc.count("s2_stepover_programs", 1); stepover_variant(len, idx, flags) };
            match res {
                Ok(steps) => { acc.transitions += steps; acc.traces += 1; acc.nontrivial += 1; }
                Err((sig, d)) => if sig.starts_with("observer") || sig.starts_with("panic") { acc.violation(sig, format!("s2:{len}:{idx}:{flags}:{variant}"), d) },
            }
        });
        rep.absorb(r);
    }
    for len in 1..=3usize {
        let n = 12u64.pow(len as u32);
        let r = sweep(ctx, n * 4, 16, |k, acc| {
            let (idx, flags) = (k / 4, k % 4);
            acc.evals += 1; acc.count("selfref_peek_programs", 1);
            match peek_selfref(len, idx, flags) {
                Ok(steps) => { acc.transitions += steps; acc.traces += 1; acc.nontrivial += 1; }
                Err((sig, d)) => if sig.starts_with("observer") || sig.starts_with("panic") { acc.violation(sig, format!("sr:{len}:{idx}:{flags}"), d) },
            }
            match run_selfref(len, idx, flags) {
                Ok(steps) => { acc.transitions += steps; acc.traces += 1; }
                Err((sig, d)) => if sig.starts_with("observer") || sig.starts_with("panic") { acc.violation(sig, format!("srr:{len}:{idx}:{flags}"), d) },
            }
        });
        rep.absorb(r);
    }
    for variant in 0..2u64 {
        rep.acc.evals += 1; rep.acc.count("long_generation_runs", 1);
        match long_variant(variant) { Ok(n) => { rep.acc.transitions += n; rep.acc.nontrivial += 1; } Err((sig, d)) => if sig.starts_with("observer") || sig.starts_with("panic") { rep.acc.violation(sig, format!("long:{variant}"), d) } }
    }
    rep.bound("contexts", Json::i(nctx)); rep.bound("program_length", Json::i(maxlen as u64));
    rep.require(rep.acc.get("s2_run_programs") > 1000, "run-level comparison exercised");
    rep.assume("non-strict mode (property precondition); RefLC3 access log is the oracle (assumptions A1-A10)");
    rep
}
pub fn replay(case: &str) -> Option<String> {
    let p: Vec<&str> = case.split(':').collect();
    let n = |i: usize| -> Option<u64> { p.get(i)?.parse().ok() };
    let r = match *p.first()? {
        "s1" => s1(n(1)?, n(2)? as u16, true).map(|_| ()),
        "s2" => match n(4)? { 0 => s2(n(1)? as usize, n(2)?, n(3)?, true).map(|_| ()), 1 => run_variant(n(1)? as usize, n(2)?, n(3)?).map(|_| ()), 2 => peek_variant(n(1)? as usize, n(2)?, n(3)?).map(|_| ()), 4 => run_frames(n(1)? as usize, n(2)?, n(3)?).map(|_| ()), _ => stepover_variant(n(1)? as usize, n(2)?, n(3)?).map(|_| ()) },
        "long" => long_variant(n(1)?).map(|_| ()),
        "srr" => run_selfref(n(1)? as usize, n(2)?, n(3)?).map(|_| ()),
        "sr" => peek_selfref(n(1)? as usize, n(2)?, n(3)?).map(|_| ()),
        _ => return None,
    };
    r.err().filter(|(s, _)| s.starts_with("observer") || s.starts_with("panic")).map(|(s, d)| format!("[{s}] {d}"))
}
