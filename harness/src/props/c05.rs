//! C05 — numeric and register tokens denote exactly their written value.
use crate::util::*;
use lc3_ensemble::ast::asm::{AsmInstr, Directive, StmtKind};
use lc3_ensemble::ast::{ImmOrReg, PCOffset};
use lc3_ensemble::parse::lex::Token;
use lc3_ensemble::parse::parse_ast;
use logos::Logos;

#[derive(Clone, Copy, Debug, PartialEq, Eq)]
enum Form { Dec, HashDec, Hex, HexUp }
const FORMS: [Form; 4] = [Form::Dec, Form::HashDec, Form::Hex, Form::HexUp];

/// Magnitude as a decimal / hex digit string (arbitrary size), sign, leading zeros.
fn render(form: Form, neg: bool, dec: &str, hexs: &str, zeros: usize) -> String {
    let z = "0".repeat(zeros);
    match (form, neg) {
        (Form::Dec, false) => format!("{z}{dec}"),
        (Form::Dec, true) => format!("-{z}{dec}"),
        (Form::HashDec, false) => format!("#{z}{dec}"),
        (Form::HashDec, true) => format!("#-{z}{dec}"),
        (Form::Hex, false) => format!("x{z}{hexs}"),
        (Form::Hex, true) => format!("x-{z}{hexs}"),
        (Form::HexUp, false) => format!("X{z}{}", hexs.to_uppercase()),
        (Form::HexUp, true) => format!("X-{z}{}", hexs.to_uppercase()),
    }
}

/// RefNum: the value a token denotes, if it is a legal token. `mag` is None when the magnitude exceeds u128.
fn token_value(neg: bool, mag: Option<u128>) -> Option<i64> {
    let m = mag?;
    if neg { if m <= 32768 { Some(-(m as i64)) } else { None } }
    else if m <= 65535 { Some(m as i64) } else { None }
}

#[derive(Clone, Copy, Debug, PartialEq, Eq)]
enum Cx { Bare, Imm5, Off6, Pc9Ld, Pc9Br, Pc11, Trap8, Orig, Blkw, Fill, Mn(u8) }
const CXS: [Cx; 10] = [Cx::Bare, Cx::Imm5, Cx::Off6, Cx::Pc9Ld, Cx::Pc9Br, Cx::Pc11, Cx::Trap8, Cx::Orig, Cx::Blkw, Cx::Fill];
/// every other mnemonic with a numeric operand field (the ten contexts above use one representative per field): (template, field bits)
impl Cx {
    fn idx(self) -> u64 { match self { Cx::Mn(k) => 10 + k as u64, other => CXS.iter().position(|c| *c == other).unwrap() as u64 } }
    fn from_idx(i: usize) -> Option<Cx> { if i < 10 { Some(CXS[i]) } else if i < 10 + MNEMONICS.len() { Some(Cx::Mn((i - 10) as u8)) } else { None } }
}
fn all_cx() -> Vec<Cx> { (0..10 + MNEMONICS.len()).filter_map(Cx::from_idx).collect() }
const MNEMONICS: [(&str, u32); 18] = [("AND R1, R2, {}", 5), ("STR R1, R2, {}", 6), ("ST R1, {}", 9), ("LDI R1, {}", 9), ("STI R1, {}", 9), ("LEA R1, {}", 9), ("NOP {}", 9),
    ("BR {}", 9), ("BRn {}", 9), ("BRz {}", 9), ("BRp {}", 9), ("BRnp {}", 9), ("BRzp {}", 9), ("BRnzp {}", 9), ("brNZ {}", 9), ("add r1, r2, {}", 5), ("ldr r1, r2, {}", 6), ("jsr {}", 11)];

fn fits_signed(v: i64, n: u32) -> bool { v >= -(1i64 << (n - 1)) && v < (1i64 << (n - 1)) }
fn fits_unsigned(v: i64, n: u32) -> bool { v >= 0 && v < (1i64 << n) }

/// Expected observation: None = rejected; Some(v) = accepted with 16-bit pattern / value v.
fn expected(cx: Cx, tv: Option<i64>) -> Option<i64> {
    let v = tv?;
    let ok = match cx {
        Cx::Bare | Cx::Fill => true,
        Cx::Imm5 => fits_signed(v, 5),
        Cx::Off6 => fits_signed(v, 6),
        Cx::Pc9Ld | Cx::Pc9Br => fits_signed(v, 9),
        Cx::Pc11 => fits_signed(v, 11),
        Cx::Trap8 => fits_unsigned(v, 8),
        Cx::Orig => fits_unsigned(v, 16),
        Cx::Blkw => fits_unsigned(v, 16) && v != 0,
        Cx::Mn(k) => fits_signed(v, MNEMONICS[k as usize].1),
    };
    if !ok { return None; }
    Some(if cx == Cx::Fill { v.rem_euclid(65536) } else { v })
}

fn observe(cx: Cx, tok: &str) -> Result<Option<i64>, String> {
    let src = match cx {
        Cx::Bare => {
            let mut lx = Token::lexer(tok);
            let first = lx.next();
            let rest = lx.next();
            if rest.is_some() { return Err(format!("`{tok}` lexes as more than one token")); }
            return Ok(match first {
                Some(Ok(Token::Unsigned(n))) => Some(n as i64),
                Some(Ok(Token::Signed(n))) => Some(n as i64),
                Some(Ok(t)) => return Err(format!("`{tok}` lexes as {t:?}, not a numeric token")),
                Some(Err(_)) => None,
                None => return Err(format!("`{tok}` lexes as nothing")),
            });
        }
        Cx::Imm5 => format!("ADD R1, R2, {tok}"),
        Cx::Off6 => format!("LDR R1, R2, {tok}"),
        Cx::Pc9Ld => format!("LD R1, {tok}"),
        Cx::Pc9Br => format!("BRnz {tok}"),
        Cx::Pc11 => format!("JSR {tok}"),
        Cx::Trap8 => format!("TRAP {tok}"),
        Cx::Orig => format!(".orig {tok}"),
        Cx::Blkw => format!(".blkw {tok}"),
        Cx::Fill => format!(".fill {tok}"),
        Cx::Mn(k) => MNEMONICS[k as usize].0.replace("{}", tok),
    };
    let ast = match parse_ast(&src) { Ok(a) => a, Err(_) => return Ok(None) };
    if ast.len() != 1 { return Err(format!("`{src}` parsed into {} statements", ast.len())); }
    let v = match &ast[0].nucleus {
        StmtKind::Instr(AsmInstr::ADD(_, _, ImmOrReg::Imm(i)) | AsmInstr::AND(_, _, ImmOrReg::Imm(i))) => i.get() as i64,
        StmtKind::Instr(AsmInstr::LDR(_, _, o) | AsmInstr::STR(_, _, o)) => o.get() as i64,
        StmtKind::Instr(AsmInstr::LD(_, PCOffset::Offset(o)) | AsmInstr::ST(_, PCOffset::Offset(o)) | AsmInstr::LDI(_, PCOffset::Offset(o)) | AsmInstr::STI(_, PCOffset::Offset(o)) | AsmInstr::LEA(_, PCOffset::Offset(o)) | AsmInstr::NOP(PCOffset::Offset(o))) => o.get() as i64,
        StmtKind::Instr(AsmInstr::BR(_, PCOffset::Offset(o))) => o.get() as i64,
        StmtKind::Instr(AsmInstr::JSR(PCOffset::Offset(o))) => o.get() as i64,
        StmtKind::Instr(AsmInstr::TRAP(v)) => v.get() as i64,
        StmtKind::Directive(Directive::Orig(o)) => o.get() as i64,
        StmtKind::Directive(Directive::Blkw(o)) => o.get() as i64,
        StmtKind::Directive(Directive::Fill(PCOffset::Offset(o))) => o.get() as i64,
        other => return Err(format!("`{src}` parsed as {other:?}")),
    };
    Ok(Some(v))
}

/// width of the instruction field the literal lands in (None for directives and bare tokens)
fn field_bits(cx: Cx) -> Option<u32> { match cx { Cx::Imm5 => Some(5), Cx::Off6 => Some(6), Cx::Pc9Ld | Cx::Pc9Br => Some(9), Cx::Pc11 => Some(11), Cx::Trap8 => Some(8), Cx::Mn(k) => Some(MNEMONICS[k as usize].1), _ => None } }
/// "and then denotes that value": an accepted literal operand of an N-bit field must be what the assembled word's field holds, wherever the
/// statement is placed (a literal PC offset is the offset itself, not an address)
fn check_encoded(cx: Cx, tok: &str, v: i64, n: u32) -> Option<(String, String)> {
    let stmt = match cx { Cx::Imm5 => format!("ADD R1, R2, {tok}"), Cx::Off6 => format!("LDR R1, R2, {tok}"), Cx::Pc9Ld => format!("LD R1, {tok}"), Cx::Pc9Br => format!("BRnz {tok}"), Cx::Pc11 => format!("JSR {tok}"), Cx::Trap8 => format!("TRAP {tok}"), Cx::Mn(k) => MNEMONICS[k as usize].0.replace("{}", tok), _ => return None };
    let mask = ((1u32 << n) - 1) as u16;
    for origin in [0x0000u16, 0x0001, 0x00FF, 0x0100, 0x3000, 0x7FFF, 0x8000, 0xFDFF] {
        let src = format!(".orig x{origin:04X}\n{stmt}\n.end");
        let r = catch(|| { let ast = parse_ast(&src).map_err(|e| format!("{e:?}"))?; let obj = lc3_ensemble::asm::assemble(ast).map_err(|e| format!("{:?}", e.kind))?; let first = obj.addr_iter().next(); Ok::<_, String>(first) });
        match r {
            Err(p) => return Some((format!("panic:{}", panic_site(&p)), format!("`{stmt}` at x{origin:04X}: {p}"))),
            Ok(Err(e)) => return Some((format!("{cx:?}:accepted-but-does-not-assemble"), format!("`{stmt}` parses with the literal accepted as {v}, but does not assemble at x{origin:04X}: {e}"))),
            Ok(Ok(Some((a, Some(w))))) if a == origin && w & mask == (v as u16) & mask => {}
            Ok(Ok(got)) => return Some((format!("{cx:?}:field-holds-other-value"), format!("`{stmt}` at x{origin:04X}: the literal denotes {v}, the assembled word is {got:x?} whose {n}-bit field holds {}", got.and_then(|g| g.1).map(|w| (w & mask).to_string()).unwrap_or_default()))),
        }
    }
    None
}
fn check_num(cx: Cx, form: Form, neg: bool, dec: &str, hexs: &str, mag: Option<u128>, zeros: usize) -> Option<(String, String)> {
    let tok = render(form, neg, dec, hexs, zeros);
    let exp = expected(cx, token_value(neg, mag));
    match catch(|| observe(cx, &tok)) {
        Ok(Ok(got)) if got == exp => match (exp, field_bits(cx)) { (Some(v), Some(n)) => check_encoded(cx, &tok, v, n), _ => None },
        Ok(Ok(got)) => Some((format!("{cx:?}:{}", match (got, exp) { (Some(_), None) => "accepts-invalid", (None, Some(_)) => "rejects-valid", _ => "wrong-value" }),
                             format!("`{tok}` in context {cx:?}: observed {got:?}, expected {exp:?}"))),
        Ok(Err(e)) => Some((format!("{cx:?}:shape"), e)),
        Err(p) => Some((format!("panic:{}", panic_site(&p)), format!("`{tok}` in {cx:?}: {p}"))),
    }
}

fn check_reg(upper: bool, digits: &str) -> Option<(String, String)> {
    let tok = format!("{}{digits}", if upper { 'R' } else { 'r' });
    let val: Option<u128> = digits.parse().ok();
    let exp = match val { Some(v) if v <= 7 => Some(v as u8), _ => None };
    let r = catch(|| {
        // bare
        let mut lx = Token::lexer(&tok);
        let bare = match (lx.next(), lx.next()) { (Some(Ok(Token::Reg(n))), None) => Some(n), (Some(Err(_)), None) => None, other => return Err(format!("`{tok}` lexes as {other:?}")) };
        // in context
        let src = format!("NOT {tok}, R0");
        let ctx = match parse_ast(&src) {
            Ok(a) => match a.first().map(|s| &s.nucleus) { Some(StmtKind::Instr(AsmInstr::NOT(d, _))) if a.len() == 1 => Some(d.reg_no()), other => return Err(format!("`{src}` parsed as {other:?}")) },
            Err(_) => None,
        };
        Ok((bare, ctx))
    });
    match r {
        Ok(Ok((b, c))) if b == exp && c == exp => None,
        Ok(Ok((b, c))) => Some(("reg".into(), format!("`{tok}`: bare {b:?}, operand {c:?}, expected {exp:?}"))),
        Ok(Err(e)) => Some(("reg:shape".into(), e)),
        Err(p) => Some((format!("panic:{}", panic_site(&p)), format!("`{tok}`: {p}"))),
    }
}

fn magnitudes(ctx: &Ctx) -> Vec<u128> {
    let mut v: Vec<u128> = vec![];
    if ctx.thorough() { v.extend(0..=300000u128); }
    else {
        for b in [0u128, 15, 16, 31, 32, 255, 256, 1023, 1024, 32767, 32768, 65535, 65536, 70000, 140000] {
            for d in 0..=300u128 { v.push(b + d); if b >= d { v.push(b - d); } }
        }
        for n in 1..=16u32 { for d in 0..=3u128 { v.push((1u128 << n) + d); v.push((1u128 << n) - d.min(1u128 << n)); v.push((1u128 << (n - 1)) + d); } }
    }
    // huge values: 10^k +-1, 2^k +-1
    for k in 1..=38u32 { let p = 10u128.pow(k); v.push(p); v.push(p - 1); v.push(p + 1); }
    for k in 17..=126u32 { let p = 1u128 << k; v.push(p); v.push(p - 1); v.push(p + 1); }
    v.sort(); v.dedup(); v
}

pub fn run(ctx: &Ctx) -> Report {
    let mut rep = Report::new("every magnitude in the window (thorough: 0..=300000, i.e. values -150000..=300000; quick: +-300 around every boundary) plus 10^k+-1 (k<=38), 2^k+-1 (k<=126) and 40-digit literals x notation {n,#n,xH,XH} x sign x 0-3 leading zeros x 28 contexts (bare token, one representative per field kind, and every other mnemonic with a numeric field incl. NOP, all BR variants and lower-case spellings); registers R/r x 0..999 x 0-12 leading zeros; non-trivial = magnitude within 1 of a field or token boundary");
    let mags = magnitudes(ctx);
    let bounds: Vec<u128> = { let mut b = vec![0u128]; for n in 1..=16 { b.push(1 << n); b.push(1 << (n - 1)); } b };
    let n = mags.len() as u64;
    let r = sweep(ctx, n, 256, |i, acc| {
        let m = mags[i as usize];
        let dec = m.to_string(); let hexs = format!("{m:x}");
        let near = bounds.iter().any(|b| (*b as i128 - m as i128).abs() <= 1);
        for neg in [false, true] {
            if neg && m > 150000 && m < (1u128 << 19) { continue; }
            for form in FORMS { for zeros in 0..4usize { for cx in all_cx() {
                acc.evals += 1; acc.transitions += 1;
                if near { acc.nontrivial += 1; }
                let res = check_num(cx, form, neg, &dec, &hexs, Some(m), zeros);
                acc.outcomes.insert(mix(cx.idx(), expected(cx, token_value(neg, Some(m))).is_some() as u64 * 2 + neg as u64));
                if let Some((sig, d)) = res { acc.violation(sig, format!("n:{}:{}:{}:{m}:{zeros}", cx.idx(), form as u8, neg as u8), d); }
            } } }
        }
        acc.sample(i, ctx.seed, 5003, || format!("magnitude {m}: tokens {} {} in all 28 contexts", render(Form::HashDec, true, &dec, &hexs, 1), render(Form::HexUp, false, &dec, &hexs, 0)));
    });
    rep.absorb(r);
    // a literal beyond u128: 40 digits
    for form in FORMS { for neg in [false, true] { for cx in all_cx() {
        let dec = "9".repeat(40); let hexs = "f".repeat(40);
        rep.acc.evals += 1; rep.acc.transitions += 1;
        if let Some((sig, d)) = check_num(cx, form, neg, &dec, &hexs, None, 0) { rep.acc.violation(sig, format!("h:{}:{}:{}", cx.idx(), form as u8, neg as u8), d); }
    } } }
    // registers
    let r = sweep(ctx, 2 * 1000 * 13, 512, |i, acc| {
        let upper = i % 2 == 0; let n = (i / 2) % 1000; let z = (i / 2000) as usize;
        let digits = format!("{}{n}", "0".repeat(z));
        acc.evals += 1; acc.transitions += 2; acc.count("register_tokens", 1);
        if (7..=8).contains(&n) { acc.nontrivial += 1; }
        if let Some((sig, d)) = check_reg(upper, &digits) { acc.violation(sig, format!("r:{}:{digits}", upper as u8), d); }
    });
    rep.absorb(r);
    rep.bound("magnitudes", Json::i(n)); rep.bound("window", Json::s(if ctx.thorough() { "0..=300000 complete" } else { "+-300 around boundaries" }));
    rep.require(rep.acc.outcomes.len() >= 30, "acceptance and rejection seen in every context");
    rep
}

pub fn replay(case: &str) -> Option<String> {
    let p: Vec<&str> = case.split(':').collect();
    match *p.first()? {
        "n" => {
            let cx = Cx::from_idx(p.get(1)?.parse::<usize>().ok()?)?; let form = FORMS[p.get(2)?.parse::<usize>().ok()?];
            let neg = *p.get(3)? == "1"; let m: u128 = p.get(4)?.parse().ok()?; let z: usize = p.get(5)?.parse().ok()?;
            check_num(cx, form, neg, &m.to_string(), &format!("{m:x}"), Some(m), z).map(|x| x.1)
        }
        "h" => {
            let cx = Cx::from_idx(p.get(1)?.parse::<usize>().ok()?)?; let form = FORMS[p.get(2)?.parse::<usize>().ok()?];
            check_num(cx, form, *p.get(3)? == "1", &"9".repeat(40), &"f".repeat(40), None, 0).map(|x| x.1)
        }
        "r" => check_reg(*p.get(1)? == "1", p.get(2)?).map(|x| x.1),
        _ => None,
    }
}
