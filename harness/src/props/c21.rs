//! C21 — external references are never silently left unresolved.
use crate::gen::objs::assemble_prog;
use crate::gen::prog::*;
use crate::util::*;
use lc3_ensemble::asm::ObjectFile;
use lc3_ensemble::sim::mem::MachineInitStrategy;
use lc3_ensemble::sim::{SimErr, SimFlags, Simulator};

/// placement: 0 before the block, 1 inside before the use, 2 inside after the use, 3 after the block, 4 between two blocks (use in the first), 5 between two blocks (use in the second)
const PLACEMENTS: u64 = 6;
const USES: u64 = 3; // 1 use, 2 uses, 2 uses in different case
const ORIGINS: [u16; 3] = [0x3000, 0x0000, 0xFDF0];
const DEFS: [u16; 3] = [0x4000, 0x4001, 0x0100];
/// external label names: mixed-case ASCII, and one with a non-ASCII letter (the lexer accepts any Unicode word character)
const NAMES: [&str; 2] = ["XtRn", "café_1"];

fn user(placement: u64, uses: u64, origin: u16, name: &str) -> (AProg, Vec<u16>) { user_pre(placement, uses, origin, name, 0) }
/// `pre`: what stands in front of the first use (its size decides where the uses are): HALT; a string of 2-, 3- and 4-byte characters
/// (one word per UTF-8 byte plus the terminator); a reserved region; an empty string
fn user_pre(placement: u64, uses: u64, origin: u16, name: &str, pre: u64) -> (AProg, Vec<u16>) {
    let ext = st(Nuc::External(name.to_string()));
    let (first, size) = match pre { 0 => (Nuc::Halt, 1u16), 1 => (Nuc::Stringz("é€𝄞a".into()), 11), 2 => (Nuc::Blkw(3), 3), _ => (Nuc::Stringz(String::new()), 1) };
    let mut body: Vec<AStmt> = vec![st(first), lst("U1", Nuc::Fill(FillOp::Lab(name.to_string())))];
    let mut addrs = vec![origin + size];
    if uses >= 1 { body.push(st(Nuc::Fill(FillOp::Num(0x7777)))); body.push(st(Nuc::Fill(FillOp::Lab(if uses == 2 { name.to_lowercase() } else { name.to_string() })))); addrs.push(origin + size + 2); }
    let other = block(0x6000, vec![lst("OTHER", Nuc::Fill(FillOp::Num(1)))]);
    let prog = match placement {
        0 => { let mut p = vec![ext]; p.extend(block(origin, body)); p }
        1 => { let mut b = vec![ext]; b.extend(body); addrs = addrs.clone(); block(origin, b) }
        2 => { let mut b = body; b.push(ext); block(origin, b) }
        3 => { let mut p = block(origin, body); p.push(ext); p }
        4 => { let mut p = block(origin, body); p.push(ext); p.extend(other); p }
        _ => { let mut p = other; p.push(ext); p.extend(block(origin, body)); p }
    };
    (prog, addrs)
}
fn definer(name: &str, at: u16) -> AProg { block(at, vec![lst(name, Nuc::Fill(FillOp::Num(0xD0D0))), st(Nuc::Halt)]) }

fn new_sim() -> Simulator { Simulator::new(SimFlags { machine_init: MachineInitStrategy::Known { value: 0x1111 }, ..Default::default() }) }

fn check(i: u64) -> Option<(String, String)> {
    let placement = i % PLACEMENTS; let uses = i / PLACEMENTS % USES; let debug = i / (PLACEMENTS * USES) % 2 == 1;
    let origin = ORIGINS[(i / (PLACEMENTS * USES * 2) % 3) as usize]; let def_at = DEFS[(i / (PLACEMENTS * USES * 6) % 3) as usize];
    let def_debug = i / (PLACEMENTS * USES * 18) % 2 == 1;
    let name = NAMES[(i / (PLACEMENTS * USES * 36) % 2) as usize];
    let pre = i / (PLACEMENTS * USES * 72) % 4;
    let (prog, addrs) = user_pre(placement, uses, origin, name, pre);
    let tag = format!("placement={placement} uses={uses} debug={debug} origin=x{origin:04X} definer@x{def_at:04X} definer_debug={def_debug} first-statement={}", ["HALT", "a string of multi-byte characters", ".blkw 3", "an empty string"][pre as usize]);
    let r = catch(|| -> Result<(), (String, String)> {
        let Some((obj, text)) = assemble_prog(&prog, debug, &Style::plain()) else { return Err(("machinery:generator".into(), format!("user program does not assemble ({tag})"))); };
        // direct load must fail with UnresolvedExternal
        let mut sim = new_sim();
        match sim.load_obj_file(&obj) {
            Err(SimErr::UnresolvedExternal(l)) if l.to_uppercase() == name.to_uppercase() => {}
            Err(e) => return Err(("direct-load-wrong-error".into(), format!("{tag}: load failed with {e:?}\n{text}"))),
            Ok(()) => return Err((format!("direct-load-succeeds:{}", if debug { "debug" } else { "nodebug" }), format!("{tag}: loading a file with an unresolved .fill {name} succeeded; words at {addrs:x?} = {:x?}\n{text}", addrs.iter().map(|a| sim.mem[*a].get()).collect::<Vec<_>>()))),
        }
        let Some((dobj, _)) = assemble_prog(&definer(name, def_at), def_debug, &Style::plain()) else { return Err(("machinery:generator".into(), "definer does not assemble".into())); };
        for order in 0..2 {
            let linked = if order == 0 { ObjectFile::link(obj.clone(), dobj.clone()) } else { ObjectFile::link(dobj.clone(), obj.clone()) };
            let linked = match linked { Ok(l) => l, Err(e) => return Err(("link-fails".into(), format!("{tag} order={order}: link failed with {:?}", e.kind))) };
            if !def_debug {
                // A definer assembled without debug symbols carries no label table (documented: symbol_table() is None),
                // so it defines nothing the linker can see. The external must then stay *detectably* unresolved.
                let mut sim = new_sim();
                match sim.load_obj_file(&linked) {
                    Err(SimErr::UnresolvedExternal(_)) => continue,
                    other => {
                        let words: std::collections::BTreeMap<u16, Option<u16>> = linked.addr_iter().collect();
                        if addrs.iter().all(|a| words.get(a) == Some(&Some(def_at))) { continue; } // resolved after all: fine
                        return Err(("silently-unresolved-after-link".into(), format!("{tag} order={order}: definer has no label table; load of the linked file returned {other:?} with the .fill words unresolved")));
                    }
                }
            }
            let words: std::collections::BTreeMap<u16, Option<u16>> = linked.addr_iter().collect();
            for a in &addrs {
                if words.get(a) != Some(&Some(def_at)) {
                    return Err((format!("linked-word-not-resolved:{}:{}", if debug { "debug" } else { "nodebug" }, if def_debug { "defdebug" } else { "defnodebug" }), format!("{tag} order={order}: word at x{a:04X} is {:x?} after linking, expected x{def_at:04X}\n{text}", words.get(a))));
                }
            }
            let mut sim = new_sim();
            if let Err(e) = sim.load_obj_file(&linked) { return Err(("linked-load-fails".into(), format!("{tag} order={order}: loading the linked file failed with {e:?}"))); }
            for a in &addrs { if sim.mem[*a].get() != def_at { return Err(("loaded-word-wrong".into(), format!("{tag}: mem[x{a:04X}] = x{:04X} after loading the linked file", sim.mem[*a].get()))); } }
        }
        Ok(())
    });
    match r { Ok(Ok(())) => None, Ok(Err(e)) => Some(e), Err(p) => Some((format!("panic:{}", panic_site(&p)), format!("{tag}: {p}"))) }
}

// ---- several externals, bound one after the other, in every order and bracketing
/// (name, program, externals used: (label, site addresses), labels defined)
fn multi_files() -> Vec<(&'static str, AProg, Vec<(&'static str, Vec<u16>)>, Vec<(&'static str, u16)>)> {
    let ext = |l: &str| st(Nuc::External(l.to_string()));
    let fl = |l: &str| st(Nuc::Fill(FillOp::Lab(l.to_string())));
    let def = |l: &str, at: u16| block(at, vec![lst(l, Nuc::Fill(FillOp::Num(0xD0D0))), st(Nuc::Halt)]);
    vec![
        ("user of P,Q,P", { let mut p = vec![ext("P"), ext("Q")]; p.extend(block(0x5000, vec![fl("P"), fl("Q"), fl("P")])); p }, vec![("P", vec![0x5000, 0x5002]), ("Q", vec![0x5001])], vec![]),
        ("user of P,Q,R,q", { let mut p = block(0x5100, vec![fl("P"), fl("Q"), fl("R"), fl("q")]); p.insert(1, ext("R")); p.push(ext("Q")); p.insert(0, ext("P")); p }, vec![("P", vec![0x5100]), ("Q", vec![0x5101, 0x5103]), ("R", vec![0x5102])], vec![]),
        ("definer of P", def("P", 0x4000), vec![], vec![("P", 0x4000)]),
        ("definer of Q", def("Q", 0x4100), vec![], vec![("Q", 0x4100)]),
        ("definer of R", def("R", 0x4200), vec![], vec![("R", 0x4200)]),
        ("definer of P and Q", block(0x4300, vec![lst("P", Nuc::Halt), lst("Q", Nuc::Halt)]), vec![], vec![("P", 0x4300), ("Q", 0x4301)]),
        ("definer of R using P", { let mut p = vec![ext("P")]; p.extend(block(0x4400, vec![lst("R", Nuc::Fill(FillOp::Lab("P".into())))])); p }, vec![("P", vec![0x4400])], vec![("R", 0x4400)]),
    ]
}
fn multi_objs() -> &'static Vec<Vec<ObjectFile>> {
    static O: std::sync::OnceLock<Vec<Vec<ObjectFile>>> = std::sync::OnceLock::new();
    O.get_or_init(|| multi_files().iter().map(|f| (0..2).map(|d| assemble_prog(&f.1, d == 1 || f.2.is_empty(), &Style::plain()).expect("multi family assembles").0).collect()).collect())
}
/// decodes the k-th ordered selection of `len` distinct files out of 7
fn selection(mut k: u64, len: usize) -> Option<Vec<usize>> { let mut v = vec![]; for _ in 0..len { v.push((k % 7) as usize); k /= 7; } let mut s = v.clone(); s.sort(); s.dedup(); if s.len() == len { Some(v) } else { None } }
fn check_multi(k: u64, len: usize, right: bool, user_debug: bool) -> Option<(String, String)> {
    let sel = selection(k, len)?;
    let files = multi_files(); let objs = multi_objs();
    let tag = format!("{} of {:?} (files with externals assembled {} debug symbols)", if right { "right fold" } else { "left fold" }, sel.iter().map(|i| files[*i].0).collect::<Vec<_>>(), if user_debug { "with" } else { "without" });
    let r = catch(|| -> Result<(), (String, String)> {
        let order: Vec<usize> = if right { sel.iter().rev().copied().collect() } else { sel.clone() };
        let mut acc: Option<ObjectFile> = None; let mut present: Vec<usize> = vec![];
        for i in order {
            let o = objs[i][user_debug as usize].clone();
            let dup = present.iter().any(|j| files[*j].3.iter().any(|d| files[i].3.iter().any(|e| e.0 == d.0)));
            present.push(i);
            let linked = match acc.take() { None => o, Some(a) => {
                let r = if right { ObjectFile::link(o, a) } else { ObjectFile::link(a, o) };
                match r { Ok(l) => l, Err(e) => { if dup { return Ok(()); } return Err(("multi:link-fails".into(), format!("{tag}: linking in {} failed with {:?}", files[i].0, e.kind))); } }
            } };
            if dup { return Err(("multi:duplicate-definition-accepted".into(), format!("{tag}: two files define the same label and the link succeeded"))); }
            let defs: std::collections::BTreeMap<&str, u16> = present.iter().flat_map(|j| files[*j].3.iter().copied()).collect();
            let needs: Vec<(&str, Vec<u16>)> = present.iter().flat_map(|j| files[*j].2.iter().cloned()).collect();
            let missing: Vec<&str> = needs.iter().filter(|n| !defs.contains_key(n.0)).map(|n| n.0).collect();
            let mut sim = new_sim();
            match sim.load_obj_file(&linked) {
                Err(SimErr::UnresolvedExternal(l)) => { if !missing.iter().any(|m| m.eq_ignore_ascii_case(&l)) { return Err(("multi:wrong-unresolved-label".into(), format!("{tag}: after {} files load reports unresolved {l:?}; labels still undefined: {missing:?}", present.len()))); } }
                Err(e) => return Err(("multi:load-error".into(), format!("{tag}: load failed with {e:?}"))),
                Ok(()) => {
                    if !missing.is_empty() { return Err(("multi:load-succeeds-with-unresolved".into(), format!("{tag}: after {} files the load succeeded although {missing:?} are not defined anywhere", present.len()))); }
                    for (l, sites) in &needs { for a in sites { if sim.mem[*a].get() != defs[l] { return Err(("multi:silently-unresolved".into(), format!("{tag}: after {} files the load succeeds, but mem[x{a:04X}] (.fill {l}) = x{:04X}, {l} is at x{:04X}", present.len(), sim.mem[*a].get(), defs[l]))); } } }
                }
            }
            acc = Some(linked);
        }
        Ok(())
    });
    match r { Ok(Ok(())) => None, Ok(Err(e)) => Some(e), Err(p) => Some((format!("panic:{}", panic_site(&p)), format!("{tag}: {p}"))) }
}

// ---- scale: many uses of externals in one file (relocation tables past 32 / 64 / 256 entries), declarations before or after the uses
fn check_many(ne: usize, nf: usize, after: bool, user_debug: bool) -> Option<(String, String)> {
    let tag = format!("{ne} externals x {nf} .fill uses each, declared {} the uses, user {} debug symbols", if after { "after" } else { "before" }, if user_debug { "with" } else { "without" });
    let r = catch(|| -> Result<(), (String, String)> {
        let mut body = vec![]; for u in 0..nf { for e in 0..ne { body.push(st(Nuc::Fill(FillOp::Lab(format!("{}{e}", if u % 2 == 0 { "EXT" } else { "ext" }))))); } }
        let decls: Vec<AStmt> = (0..ne).map(|e| st(Nuc::External(format!("Ext{e}")))).collect();
        let mut user = vec![]; if !after { user.extend(decls.clone()); } user.extend(block(0x5000, body)); if after { user.extend(decls); }
        let definer = block(0x4000, (0..ne).map(|e| lst(&format!("EXT{e}"), Nuc::Fill(FillOp::Num(e as u16)))).collect());
        let Some((uo, _)) = assemble_prog(&user, user_debug, &Style::plain()) else { return Err(("machinery:generator".into(), format!("{tag}: user does not assemble"))) };
        let Some((dobj, _)) = assemble_prog(&definer, true, &Style::plain()) else { return Err(("machinery:generator".into(), "definer does not assemble".into())) };
        let mut sim = new_sim();
        if !matches!(sim.load_obj_file(&uo), Err(SimErr::UnresolvedExternal(_))) { return Err(("many:direct-load-succeeds".into(), format!("{tag}: loading the unlinked user succeeded"))); }
        for order in 0..2 {
            let linked = if order == 0 { ObjectFile::link(uo.clone(), dobj.clone()) } else { ObjectFile::link(dobj.clone(), uo.clone()) };
            let linked = linked.map_err(|e| ("many:link-fails".to_string(), format!("{tag} order={order}: {:?}", e.kind)))?;
            let mut sim = new_sim();
            if let Err(e) = sim.load_obj_file(&linked) { return Err(("many:linked-load-fails".into(), format!("{tag} order={order}: {e:?}"))); }
            let bad: Vec<u16> = (0..nf * ne).filter(|k| sim.mem[0x5000 + *k as u16].get() != 0x4000 + (*k % ne) as u16).map(|k| 0x5000 + k as u16).collect();
            if !bad.is_empty() { return Err(("many:silently-unresolved".into(), format!("{tag}: the load of the linked file succeeds but some of its {} .fill sites do not hold their label's address (which ones can vary between runs)", nf * ne))); }
        }
        Ok(())
    });
    match r { Ok(Ok(())) => None, Ok(Err(e)) => Some(e), Err(p) => Some((format!("panic:{}", panic_site(&p)), format!("{tag}: {p}"))) }
}
const MANY: [(usize, usize); 12] = [(1, 31), (1, 32), (1, 33), (1, 64), (1, 65), (1, 66), (1, 255), (1, 256), (1, 257), (6, 8), (3, 40), (2, 300)];

pub fn run(ctx: &Ctx) -> Report {
    let mut rep = Report::new(".external X placed {before the block, inside before the use, inside after the use, after the block, between two blocks (use before / after)} x {1 use, 2 uses, 2 uses in different letter case} x user assembled with/without debug symbols x 3 origins x 3 definer addresses x definer with/without debug symbols x label name {ASCII mixed case, containing a non-ASCII letter}; direct load must fail with UnresolvedExternal; after linking with a definer that carries its label table, in either order, every .fill word must hold X's address and the load must succeed; after linking with a definer assembled without debug symbols (no label table, nothing to resolve against) the load must still fail with UnresolvedExternal rather than run with 0. Chains: every ordered selection of 2-3 (thorough 4) of 7 files (two users of 2 and 3 distinct externals with repeated and differently-cased uses, definers of P / Q / R / P+Q, a definer of R that itself uses P), folded from the left and from the right, every file that declares externals (users, and the definer that itself uses an external) with and without debug symbols; after every link step: if some used label is still undefined the load must fail naming one of them, otherwise it must succeed with every .fill site holding its label's address; links fail only on duplicate definitions. non-trivial = every case (each has an unresolved external)");
    let n = PLACEMENTS * USES * 2 * 3 * 3 * 2 * 2 * 4;
    let r = sweep(ctx, n, 4, |i, acc| {
        acc.evals += 1; acc.transitions += 6; acc.nontrivial += 1;
        acc.outcomes.insert(i % (PLACEMENTS * USES * 2));
        acc.sample(i, ctx.seed, 53, || { let (p, _) = user(i % PLACEMENTS, i / PLACEMENTS % USES, 0x3000, "XtRn"); format!("case {i}: {}", render(&p, &Style::plain()).text.replace('\n', "\\n")) });
        if let Some((sig, d)) = check(i) { acc.violation(sig, i.to_string(), d); }
    });
    rep.absorb(r);
    for len in 2..=ctx.pick(3usize, 4usize) {
        let m = 7u64.pow(len as u32);
        let r = sweep(ctx, m * 4, 8, |j, acc| {
            let (k, right, ud) = (j / 4, j % 2 == 1, j / 2 % 2 == 1);
            if selection(k, len).is_none() { return; }
            acc.evals += 1; acc.transitions += len as u64; acc.nontrivial += 1; acc.count("multi_external_chains", 1);
            if let Some((sig, d)) = check_multi(k, len, right, ud) { acc.violation(sig, format!("m:{k}:{len}:{}:{}", right as u8, ud as u8), d); }
        });
        rep.absorb(r);
    }
    let r = sweep(ctx, MANY.len() as u64 * 4, 1, |j, acc| {
        let ((ne, nf), after, ud) = (MANY[(j / 4) as usize], j % 2 == 1, j / 2 % 2 == 1);
        acc.evals += 1; acc.transitions += (ne * nf) as u64; acc.nontrivial += 1; acc.count("many_uses_cases", 1);
        if let Some((sig, d)) = check_many(ne, nf, after, ud) { acc.violation(sig, format!("n:{j}"), d); }
    });
    rep.absorb(r);
    rep.require(rep.acc.get("multi_external_chains") > 500, "chains with several externals were judged");
    rep.bound("cases", Json::i(n));
    rep
}
pub fn replay(case: &str) -> Option<String> {
    if let Some(j) = case.strip_prefix("n:") { let j: u64 = j.parse().ok()?; let (ne, nf) = *MANY.get((j / 4) as usize)?; return check_many(ne, nf, j % 2 == 1, j / 2 % 2 == 1).map(|x| format!("[{}] {}", x.0, x.1)); }
    if let Some(rest) = case.strip_prefix("m:") {
        let p: Vec<u64> = rest.split(':').filter_map(|x| x.parse().ok()).collect();
        return check_multi(*p.first()?, *p.get(1)? as usize, *p.get(2)? == 1, *p.get(3)? == 1).map(|x| format!("[{}] {}", x.0, x.1));
    }
    check(case.parse().ok()?).map(|x| format!("[{}] {}", x.0, x.1))
}
