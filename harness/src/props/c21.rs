//! C21 — external references are never silently left unresolved.
use crate::gen::objs::assemble_prog;
use crate::gen::prog::*;
use crate::util::*;
use lc3_ensemble::asm::ObjectFile;
use lc3_ensemble::sim::mem::MachineInitStrategy;
use lc3_ensemble::sim::{SimErr, SimFlags, Simulator};

/// placement: 0 before the block, 1 inside before the use, 2 inside after the use, 3 after the block, 4 between two blocks (use in the first), 5 between two blocks (use in the second)
const PLACEMENTS: u64 = 6;
const USES: u64 = 3; // 1 use, 2 uses, 2 uses in different case
const ORIGINS: [u16; 3] = [0x3000, 0x0000, 0xFDF0];
const DEFS: [u16; 3] = [0x4000, 0x4001, 0x0100];
/// external label names: mixed-case ASCII, and one with a non-ASCII letter (the lexer accepts any Unicode word character)
const NAMES: [&str; 2] = ["XtRn", "café_1"];

fn user(placement: u64, uses: u64, origin: u16, name: &str) -> (AProg, Vec<u16>) {
    let ext = st(Nuc::External(name.to_string()));
    let mut body: Vec<AStmt> = vec![st(Nuc::Halt), lst("U1", Nuc::Fill(FillOp::Lab(name.to_string())))];
    let mut addrs = vec![origin + 1];
    if uses >= 1 { body.push(st(Nuc::Fill(FillOp::Num(0x7777)))); body.push(st(Nuc::Fill(FillOp::Lab(if uses == 2 { name.to_lowercase() } else { name.to_string() })))); addrs.push(origin + 3); }
    let other = block(0x6000, vec![lst("OTHER", Nuc::Fill(FillOp::Num(1)))]);
    let prog = match placement {
        0 => { let mut p = vec![ext]; p.extend(block(origin, body)); p }
        1 => { let mut b = vec![ext]; b.extend(body); addrs = addrs.clone(); block(origin, b) }
        2 => { let mut b = body; b.push(ext); block(origin, b) }
        3 => { let mut p = block(origin, body); p.push(ext); p }
        4 => { let mut p = block(origin, body); p.push(ext); p.extend(other); p }
        _ => { let mut p = other; p.push(ext); p.extend(block(origin, body)); p }
    };
    (prog, addrs)
}
fn definer(name: &str, at: u16) -> AProg { block(at, vec![lst(name, Nuc::Fill(FillOp::Num(0xD0D0))), st(Nuc::Halt)]) }

fn new_sim() -> Simulator { Simulator::new(SimFlags { machine_init: MachineInitStrategy::Known { value: 0x1111 }, ..Default::default() }) }

fn check(i: u64) -> Option<(String, String)> {
    let placement = i % PLACEMENTS; let uses = i / PLACEMENTS % USES; let debug = i / (PLACEMENTS * USES) % 2 == 1;
    let origin = ORIGINS[(i / (PLACEMENTS * USES * 2) % 3) as usize]; let def_at = DEFS[(i / (PLACEMENTS * USES * 6) % 3) as usize];
    let def_debug = i / (PLACEMENTS * USES * 18) % 2 == 1;
    let name = NAMES[(i / (PLACEMENTS * USES * 36) % 2) as usize];
    let (prog, addrs) = user(placement, uses, origin, name);
    let tag = format!("placement={placement} uses={uses} debug={debug} origin=x{origin:04X} definer@x{def_at:04X} definer_debug={def_debug}");
    let r = catch(|| -> Result<(), (String, String)> {
        let Some((obj, text)) = assemble_prog(&prog, debug, &Style::plain()) else { return Err(("machinery:generator".into(), format!("user program does not assemble ({tag})"))); };
        // direct load must fail with UnresolvedExternal
        let mut sim = new_sim();
        match sim.load_obj_file(&obj) {
            Err(SimErr::UnresolvedExternal(l)) if l.to_uppercase() == name.to_uppercase() => {}
            Err(e) => return Err(("direct-load-wrong-error".into(), format!("{tag}: load failed with {e:?}\n{text}"))),
            Ok(()) => return Err((format!("direct-load-succeeds:{}", if debug { "debug" } else { "nodebug" }), format!("{tag}: loading a file with an unresolved .fill {name} succeeded; words at {addrs:x?} = {:x?}\n{text}", addrs.iter().map(|a| sim.mem[*a].get()).collect::<Vec<_>>()))),
        }
        let Some((dobj, _)) = assemble_prog(&definer(name, def_at), def_debug, &Style::plain()) else { return Err(("machinery:generator".into(), "definer does not assemble".into())); };
        for order in 0..2 {
            let linked = if order == 0 { ObjectFile::link(obj.clone(), dobj.clone()) } else { ObjectFile::link(dobj.clone(), obj.clone()) };
            let linked = match linked { Ok(l) => l, Err(e) => return Err(("link-fails".into(), format!("{tag} order={order}: link failed with {:?}", e.kind))) };
            if !def_debug {
                // A definer assembled without debug symbols carries no label table (documented: symbol_table() is None),
                // so it defines nothing the linker can see. The external must then stay *detectably* unresolved.
                let mut sim = new_sim();
                match sim.load_obj_file(&linked) {
                    Err(SimErr::UnresolvedExternal(_)) => continue,
                    other => {
                        let words: std::collections::BTreeMap<u16, Option<u16>> = linked.addr_iter().collect();
                        if addrs.iter().all(|a| words.get(a) == Some(&Some(def_at))) { continue; } // resolved after all: fine
                        return Err(("silently-unresolved-after-link".into(), format!("{tag} order={order}: definer has no label table; load of the linked file returned {other:?} with the .fill words unresolved")));
                    }
                }
            }
            let words: std::collections::BTreeMap<u16, Option<u16>> = linked.addr_iter().collect();
            for a in &addrs {
                if words.get(a) != Some(&Some(def_at)) {
                    return Err((format!("linked-word-not-resolved:{}:{}", if debug { "debug" } else { "nodebug" }, if def_debug { "defdebug" } else { "defnodebug" }), format!("{tag} order={order}: word at x{a:04X} is {:x?} after linking, expected x{def_at:04X}\n{text}", words.get(a))));
                }
            }
            let mut sim = new_sim();
            if let Err(e) = sim.load_obj_file(&linked) { return Err(("linked-load-fails".into(), format!("{tag} order={order}: loading the linked file failed with {e:?}"))); }
            for a in &addrs { if sim.mem[*a].get() != def_at { return Err(("loaded-word-wrong".into(), format!("{tag}: mem[x{a:04X}] = x{:04X} after loading the linked file", sim.mem[*a].get()))); } }
        }
        Ok(())
    });
    match r { Ok(Ok(())) => None, Ok(Err(e)) => Some(e), Err(p) => Some((format!("panic:{}", panic_site(&p)), format!("{tag}: {p}"))) }
}

pub fn run(ctx: &Ctx) -> Report {
    let mut rep = Report::new(".external X placed {before the block, inside before the use, inside after the use, after the block, between two blocks (use before / after)} x {1 use, 2 uses, 2 uses in different letter case} x user assembled with/without debug symbols x 3 origins x 3 definer addresses x definer with/without debug symbols x label name {ASCII mixed case, containing a non-ASCII letter}; direct load must fail with UnresolvedExternal; after linking with a definer that carries its label table, in either order, every .fill word must hold X's address and the load must succeed; after linking with a definer assembled without debug symbols (no label table, nothing to resolve against) the load must still fail with UnresolvedExternal rather than run with 0. non-trivial = every case (each has an unresolved external)");
    let n = PLACEMENTS * USES * 2 * 3 * 3 * 2 * 2;
    let r = sweep(ctx, n, 4, |i, acc| {
        acc.evals += 1; acc.transitions += 6; acc.nontrivial += 1;
        acc.outcomes.insert(i % (PLACEMENTS * USES * 2));
        acc.sample(i, ctx.seed, 53, || { let (p, _) = user(i % PLACEMENTS, i / PLACEMENTS % USES, 0x3000, "XtRn"); format!("case {i}: {}", render(&p, &Style::plain()).text.replace('\n', "\\n")) });
        if let Some((sig, d)) = check(i) { acc.violation(sig, i.to_string(), d); }
    });
    rep.absorb(r);
    rep.bound("cases", Json::i(n));
    rep
}
pub fn replay(case: &str) -> Option<String> { check(case.parse().ok()?).map(|x| format!("[{}] {}", x.0, x.1)) }
