//! C30 — reset restores a fresh machine and keeps configuration (explicit-state BFS, reset after every prefix).
use crate::refs::isa::reg;
use crate::util::*;
use lc3_ensemble::asm::{assemble, ObjectFile};
use lc3_ensemble::parse::parse_ast;
use lc3_ensemble::sim::debug::{Breakpoint, Comparator};
use lc3_ensemble::sim::device::{BufferedDisplay, BufferedKeyboard, ExternalDevice, Interrupt};
use lc3_ensemble::sim::mem::{MachineInitStrategy, Word};
use lc3_ensemble::sim::{InternalRegister, MemAccessCtx, SimFlags, Simulator};
use std::sync::{Arc, Mutex, OnceLock};

#[derive(Clone, Copy, Debug)]
enum Op { Load, Step, Run3, ToggleStrict, ToggleReal, ToggleIgnore, ToggleFrames, BpInsertPc, BpInsertReg, BpRemovePc, AddDev, RemoveDev3, SetKb, SetDisp, MmapPc, MunmapPc, WriteReg, WriteMem, WritePsr, TypeKey, Reset, MunmapPsr, MunmapMcr, SetInit, Deep, MmapOverDev, /** another holder of the shared MCR handle switches the machine on (what a front end does before it starts a run) */ McrOn }
const OPS: [Op; 27] = [Op::Load, Op::Step, Op::Run3, Op::ToggleStrict, Op::ToggleReal, Op::ToggleIgnore, Op::ToggleFrames, Op::BpInsertPc, Op::BpInsertReg, Op::BpRemovePc,
    Op::AddDev, Op::RemoveDev3, Op::SetKb, Op::SetDisp, Op::MmapPc, Op::MunmapPc, Op::WriteReg, Op::WriteMem, Op::WritePsr, Op::TypeKey, Op::Reset, Op::MunmapPsr, Op::MunmapMcr, Op::SetInit, Op::Deep, Op::MmapOverDev, Op::McrOn];

fn program() -> &'static ObjectFile {
    static P: OnceLock<ObjectFile> = OnceLock::new();
    P.get_or_init(|| assemble(parse_ast(".orig x3000\nLD R6, SP\nJSR F\nLEA R0, M\nPUTS\nGETC\nST R0, M\nHALT\nF ADD R1,R1,#1\nSTR R1,R6,#-1\nRET\nSP .fill x4000\nM .stringz \"hi\"\n.end").unwrap()).unwrap())
}
#[derive(Clone)]
struct Rec { log: Arc<Mutex<Vec<(bool, u16)>>> }
impl ExternalDevice for Rec {
    fn io_read(&mut self, a: u16, e: bool) -> Option<u16> { if e { self.log.lock().unwrap_or_else(|e| e.into_inner()).push((false, a)); } Some(0x7E57) }
    fn io_write(&mut self, a: u16, _: u16) -> bool { self.log.lock().unwrap_or_else(|e| e.into_inner()).push((true, a)); true }
    fn io_reset(&mut self) {}
    fn poll_interrupt(&mut self) -> Option<Interrupt> { None }
}
struct World { sim: Simulator, kb: Option<BufferedKeyboard>, rec_log: Arc<Mutex<Vec<(bool, u16)>>>, rec_attached: bool, pc_mapped: bool, /** the PC register is also mapped at xFE20, the recording device's port (the register shadows the device) */ over_mapped: bool, psr_mapped: bool, mcr_mapped: bool, init: MachineInitStrategy, mcr: Arc<std::sync::atomic::AtomicBool>, touched: Vec<u16> }
const SSP_PORT: u16 = 0xFE30;

fn fresh(init: MachineInitStrategy) -> World {
    let mut sim = Simulator::new(SimFlags { machine_init: init, ..Default::default() });
    sim.mmap_internal(SSP_PORT, InternalRegister::SavedSP).unwrap();
    let mcr = sim.mcr().clone();
    World { sim, kb: None, rec_log: Default::default(), rec_attached: false, pc_mapped: false, over_mapped: false, psr_mapped: true, mcr_mapped: true, init, mcr, touched: vec![] }
}
fn apply(w: &mut World, op: Op) -> Result<(), (String, String)> {
    match op {
        Op::Load => { let _ = w.sim.load_obj_file(program()); }
        Op::Step => { let _ = w.sim.step_in(); }
        Op::Run3 => { let _ = w.sim.run_with_limit(3); }
        Op::ToggleStrict => w.sim.flags.strict ^= true,
        Op::ToggleReal => w.sim.flags.use_real_traps ^= true,
        Op::ToggleIgnore => w.sim.flags.ignore_privilege ^= true,
        Op::ToggleFrames => w.sim.flags.debug_frames ^= true,
        Op::BpInsertPc => { w.sim.breakpoints.insert(Breakpoint::PC(0x3002)); }
        Op::BpInsertReg => { w.sim.breakpoints.insert(Breakpoint::Reg { reg: reg(1), value: Comparator::Eq(2) }); }
        Op::BpRemovePc => { w.sim.breakpoints.remove(&Breakpoint::PC(0x3002)); }
        Op::AddDev => { if w.sim.device_handler.add_device(Rec { log: w.rec_log.clone() }, &[0xFE20]).is_ok() { w.rec_attached = true; } }
        Op::RemoveDev3 => { w.sim.device_handler.remove_device(3); }
        Op::SetKb => { let kb = BufferedKeyboard::default(); kb.get_buffer().write().unwrap_or_else(|e| e.into_inner()).extend(b"xy"); w.sim.device_handler.set_keyboard(kb.clone()); w.kb = Some(kb); }
        Op::SetDisp => { w.sim.device_handler.set_display(BufferedDisplay::default()); }
        Op::MmapPc => { if w.sim.mmap_internal(0xFE32, InternalRegister::PC).is_ok() { w.pc_mapped = true; } }
        Op::MunmapPc => { if w.sim.munmap_internal(0xFE32) { w.pc_mapped = false; } }
        Op::WriteReg => { w.sim.reg_file[reg(2)].set(0xBEEF); }
        Op::WriteMem => { w.sim.mem[0x5000].set(0xCAFE); w.sim.mem[0x0200].set(0xF025); w.touched.extend([0x5000, 0x0200]); }
        Op::WritePsr => { let _ = w.sim.write_mem(0xFFFC, Word::new_init(0x0401), MemAccessCtx::omnipotent()); let _ = w.sim.write_mem(SSP_PORT, Word::new_init(0x2222), MemAccessCtx::omnipotent()); }
        Op::TypeKey => { if let Some(kb) = &w.kb { kb.get_buffer().write().unwrap_or_else(|e| e.into_inner()).push_back(b'k'); } }
        Op::MunmapPsr => { if w.sim.munmap_internal(0xFFFC) { w.psr_mapped = false; } }
        Op::MunmapMcr => { if w.sim.munmap_internal(0xFFFE) { w.mcr_mapped = false; } }
        // the initialization strategy is a public flag like the others: switch between two deterministic strategies
        Op::SetInit => { let alt = MachineInitStrategy::Known { value: 0x2468 }; w.sim.flags.machine_init = if w.sim.flags.machine_init == alt { w.init } else { alt }; }
        // scale: 300 nested calls that have not returned (a JSR-to-next sled at x6000), left live
        Op::Deep => { for a in 0x6000..0x6200u16 { w.sim.mem[a].set(0x4800); } w.touched.extend(0x6000..0x6200); w.sim.pc = 0x6000; let _ = w.sim.run_with_limit(300); }
        Op::MmapOverDev => { if w.sim.mmap_internal(0xFE20, InternalRegister::PC).is_ok() { w.over_mapped = true; } }
        Op::McrOn => { w.sim.mcr().store(true, std::sync::atomic::Ordering::Relaxed); }
        Op::Reset => return reset_and_check(w),
    }
    Ok(())
}
fn bp_set(sim: &Simulator) -> Vec<String> { let mut v: Vec<String> = sim.breakpoints.iter().map(|b| format!("{b:?}")).collect(); v.sort(); v }
fn device_answers(w: &mut World) -> Vec<u16> {
    // what dispatch at a few ports answers (effect-free)
    [0xFE20u16, 0xFE32, SSP_PORT, 0xFE00, 0xFE04, 0xFFFC].iter().map(|a| w.sim.read_mem(*a, MemAccessCtx::omnipotent()).map(|x| x.get()).unwrap_or(0xEEEE)).collect()
}

fn reset_and_check(w: &mut World) -> Result<(), (String, String)> {
    let flags = w.sim.flags;
    let bps = bp_set(&w.sim);
    let handler_dbg = format!("{:?}", w.sim.device_handler);
    let pc_mapped = w.pc_mapped;
    w.sim.reset();
    // ---- configuration kept
    if w.sim.flags != flags { return Err(("flags-changed".into(), format!("flags {:?} -> {:?}", flags, w.sim.flags))); }
    if bp_set(&w.sim) != bps { return Err(("breakpoints-changed".into(), format!("breakpoints {bps:?} -> {:?}", bp_set(&w.sim)))); }
    if !Arc::ptr_eq(w.sim.mcr(), &w.mcr) { return Err(("mcr-handle-replaced".into(), "the MCR handle after reset is a different AtomicBool".into())); }
    if format!("{:?}", w.sim.device_handler) != handler_dbg { return Err(("devices-changed".into(), format!("device handler {handler_dbg} -> {:?}", w.sim.device_handler))); }
    // ---- state equals a new simulator with the same flags
    let fresh = Simulator::new(flags);
    if w.sim.pc != fresh.pc { return Err(("pc".into(), format!("PC x{:04X}, fresh x{:04X}", w.sim.pc, fresh.pc))); }
    if w.sim.psr().get() != fresh.psr().get() { return Err(("psr".into(), format!("PSR x{:04X}, fresh x{:04X}", w.sim.psr().get(), fresh.psr().get()))); }
    let ssp = w.sim.read_mem(SSP_PORT, MemAccessCtx::omnipotent()).map(|x| x.get()).map_err(|e| ("internal-mapping-lost".to_string(), format!("saved-SP mapping at x{SSP_PORT:04X} no longer answers: {e:?}")))?;
    if ssp != 0x3000 { return Err(("saved-sp".into(), format!("saved SP x{ssp:04X} after reset (mapping kept?), a new simulator has x3000"))); }
    if w.sim.instructions_run != 0 { return Err(("instruction-count".into(), format!("instructions_run = {}", w.sim.instructions_run))); }
    if w.sim.frame_stack.len() != 0 { return Err(("frame-depth".into(), format!("frame depth {}", w.sim.frame_stack.len()))); }
    if let Some(f) = w.sim.frame_stack.frames() { if !f.is_empty() { return Err(("frame-list-not-empty".into(), format!("frame depth is 0 but the debug frame list still holds {} frames", f.len()))); } }
    if w.sim.frame_stack.frames().is_some() != flags.debug_frames { return Err(("debug-frames-flag".into(), format!("debug_frames={} but frames() is {:?}", flags.debug_frames, w.sim.frame_stack.frames().map(|f| f.len())))); }
    if w.sim.hit_halt() || w.sim.hit_breakpoint() { return Err(("pause-status".into(), "hit_halt/hit_breakpoint still set after reset".into())); }
    if !matches!(w.init, MachineInitStrategy::Unseeded) {
        for i in 0..8 { if w.sim.reg_file[reg(i)] != fresh.reg_file[reg(i)] { return Err(("registers".into(), format!("R{i} = {:?}, fresh {:?}", w.sim.reg_file[reg(i)], fresh.reg_file[reg(i)]))); } }
        for a in 0..=0xFFFFu16 {
            if a >= 0xFE00 { continue; } // I/O page mirror cells are refreshed by probes
            if w.sim.mem[a] != fresh.mem[a] { return Err(("memory".into(), format!("mem[x{a:04X}] = {:?}, fresh {:?}", w.sim.mem[a], fresh.mem[a]))); }
        }
    }
    // ---- a default mapping that was removed stays removed (the fresh I/O page reads 0 where nothing is mapped)
    let psr_probe = w.sim.read_mem(0xFFFC, MemAccessCtx::omnipotent()).map(|x| x.get()).unwrap_or(0xEEEE);
    let exp_probe = if w.psr_mapped { w.sim.psr().get() } else { 0 };
    if psr_probe != exp_probe { return Err(("internal-mapping-changed".into(), format!("reading xFFFC gives x{psr_probe:04X} after reset, expected x{exp_probe:04X} (PSR mapping present before reset: {})", w.psr_mapped))); }
    if !w.mcr_mapped {
        // (the handle may have been switched on by its other holder: the probe starts from "off")
        w.sim.mcr().store(false, std::sync::atomic::Ordering::Relaxed);
        let _ = w.sim.write_mem(0xFFFE, Word::new_init(0x8000), MemAccessCtx { privileged: true, strict: false, io_effects: true, track_access: false });
        if w.sim.mcr().load(std::sync::atomic::Ordering::Relaxed) { return Err(("internal-mapping-changed".into(), "the MCR mapping at xFFFE was removed before reset but a store to xFFFE sets the MCR again".into())); }
    }
    // ---- a register mapped at an address that a device also owns is a mapping like any other
    if w.over_mapped { let v = w.sim.read_mem(0xFE20, MemAccessCtx::omnipotent()).map(|x| x.get()).unwrap_or(0); if v != w.sim.pc { return Err(("internal-mapping-lost".into(), format!("the PC register was mapped at xFE20 (also a device port) before reset; reading xFE20 now gives x{v:04X}, PC is x{:04X}", w.sim.pc))); } }
    // ---- mappings and devices still answer
    if pc_mapped { let v = w.sim.read_mem(0xFE32, MemAccessCtx::omnipotent()).map(|x| x.get()).unwrap_or(0); if v != w.sim.pc { return Err(("internal-mapping-lost".into(), format!("PC mapping at xFE32 answers x{v:04X}, PC is x{:04X}", w.sim.pc))); } }
    if w.rec_attached && format!("{:?}", w.sim.device_handler).contains("Custom") {
        let n0 = w.rec_log.lock().unwrap_or_else(|e| e.into_inner()).len();
        let ctx = MemAccessCtx { privileged: true, strict: false, io_effects: true, track_access: false };
        let owned = w.sim.read_mem(0xFE20, ctx).map(|x| x.get()).unwrap_or(0);
        let n1 = w.rec_log.lock().unwrap_or_else(|e| e.into_inner()).len();
        // the device may have been removed by RemoveDev3 (then nothing answers): judged through the handler's unchanged Debug above; here only: if it answers, the call reached it
        if owned == 0x7E57 && n1 != n0 + 1 { return Err(("device-dispatch".into(), "read at xFE20 answered without reaching the recording device".into())); }
    }
    w.touched.clear();
    Ok(())
}

fn fingerprint(w: &mut World) -> u64 {
    let mut h = fnv_str(&format!("{:?}{:?}", w.sim.flags, bp_set(&w.sim)));
    h = mix(h, fnv_str(&format!("{:?}", w.sim.device_handler)));
    for i in 0..8 { h = mix(h, w.sim.reg_file[reg(i)].get() as u64 | (w.sim.reg_file[reg(i)].is_init() as u64) << 16); }
    h = mix(h, (w.sim.pc as u64) << 32 | (w.sim.psr().get() as u64) << 16 | w.sim.instructions_run & 0xFFFF);
    h = mix(h, w.sim.frame_stack.len() << 8 | (w.sim.frame_stack.frames().is_some() as u64) << 4 | (w.sim.hit_halt() as u64) << 1 | w.sim.hit_breakpoint() as u64);
    for a in device_answers(w) { h = mix(h, a as u64); }
    for a in [0x3000u16, 0x3005, 0x300B, 0x300C, 0x300D, 0x3FFF, 0x5000, 0x0200, 0x2FFF, 0x2FFE, 0x2FFD] { h = mix(h, w.sim.mem[a].get() as u64 | (w.sim.mem[a].is_init() as u64) << 16); }
    h = mix(h, w.sim.mcr().load(std::sync::atomic::Ordering::Relaxed) as u64 + 31);
    if let Some(kb) = &w.kb { h = mix(h, kb.get_buffer().read().unwrap_or_else(|e| e.into_inner()).len() as u64 + 77); }
    // reference-side state
    mix(h, (w.rec_attached as u64) | (w.pc_mapped as u64) << 1 | (w.psr_mapped as u64) << 2 | (w.mcr_mapped as u64) << 3 | (w.over_mapped as u64) << 4)
}
fn visit_with(h: &[u16], init: MachineInitStrategy) -> Visit {
    let r = catch(|| {
        let mut w = fresh(init);
        let names: Vec<String> = h.iter().map(|o| format!("{:?}", OPS[*o as usize])).collect();
        for (i, o) in h.iter().enumerate() { if let Err(e) = apply(&mut w, OPS[*o as usize]) { return (0, Some((e.0, format!("history {names:?} ({init:?}): op {i}: {}", e.1)))); } }
        // reset appended after every prefix (the state explored further is the one before the reset)
        let fp = fingerprint(&mut w);
        if let Err(e) = reset_and_check(&mut w) { return (0, Some((e.0, format!("history {names:?} ({init:?}) then reset: {}", e.1)))); }
        (fp, None)
    });
    match r { Ok((fp, v)) => Visit { fingerprint: fp, violation: v, ops_applied: h.len() as u64 + 1 }, Err(p) => Visit { fingerprint: 0, violation: Some((format!("panic:{}", panic_site(&p)), p)), ops_applied: h.len() as u64 } }
}
fn case_of(h: &[u16]) -> String { h.iter().map(|x| x.to_string()).collect::<Vec<_>>().join(",") }

pub fn run(ctx: &Ctx) -> Report {
    let mut rep = Report::new("explicit-state BFS over histories of 27 operations (the shared MCR handle switched on by its other holder; map the PC register at the address that is also the recording device's port; 300 nested calls left live; switch machine_init between two deterministic strategies; load a program with calls, traps and I/O; step_in; run_with_limit(3); toggle strict / real traps / ignore privilege / debug frames; insert/remove PC and register breakpoints; add/remove a recording device; replace keyboard and display; map/unmap the PC register; unmap the default PSR and MCR mappings; host writes to a register, memory (user and OS), PSR and saved SP; type a key; reset) with reset() appended after EVERY prefix: all of 64K non-I/O memory, registers, PC, PSR, saved SP, frame depth/frames presence, instruction count and pause status must equal Simulator::new(same flags); flags, breakpoint set, MCR handle (Arc::ptr_eq), device handler (derived Debug), internal mappings and device dispatch must be kept. Known{x1357} (complete BFS) and Seeded{99} (same histories). non-trivial = states at depth >= 1");
    let depth = ctx.pick(4usize, 7usize);
    let known = MachineInitStrategy::Known { value: 0x1357 };
    let (states, transitions, frontier, per_depth, capped) = bfs_hist(ctx, &mut rep.acc, OPS.len(), depth, &|h| format!("k:{}", case_of(h)), |h| visit_with(h, known));
    rep.acc.states = states; rep.acc.transitions = transitions; rep.acc.nontrivial = states - 1;
    for (d, n) in per_depth.iter().enumerate() { rep.acc.outcomes.insert(mix(d as u64, *n)); rep.acc.count(&format!("new_states_depth_{d}"), *n); }
    if capped { rep.exhaustive = false; }
    // the seeded strategy over all histories of depth <= 2 (3 thorough)
    let sd = ctx.pick(2u32, 3u32);
    let seeded = MachineInitStrategy::Seeded { seed: 99 };
    let n: u64 = (0..=sd).map(|l| (OPS.len() as u64).pow(l)).sum();
    let r = sweep(ctx, n, 8, |mut i, acc| {
        let mut len = 0u32; while i >= (OPS.len() as u64).pow(len) { i -= (OPS.len() as u64).pow(len); len += 1; }
        let mut h = vec![]; for _ in 0..len { h.push((i % OPS.len() as u64) as u16); i /= OPS.len() as u64; }
        acc.evals += 1; acc.count("seeded_histories", 1);
        if let Some((sig, d)) = visit_with(&h, seeded).violation { acc.violation(sig, format!("s:{}", case_of(&h)), d); }
    });
    rep.absorb(r);
    rep.bound("depth", Json::i(depth as u64)); rep.bound("alphabet", Json::i(OPS.len() as u64)); rep.bound("frontier_at_bound", Json::i(frontier));
    rep.require(states > 200, "the configuration/execution state space was explored");
    rep.assume("deterministic initialization strategies (property precondition); I/O-page mirror cells are not compared");
    rep
}
pub fn replay(case: &str) -> Option<String> {
    let (k, hs) = case.split_once(':')?;
    let h: Vec<u16> = hs.split(',').filter(|x| !x.is_empty()).filter_map(|x| x.parse().ok()).collect();
    visit_with(&h, if k == "s" { MachineInitStrategy::Seeded { seed: 99 } } else { MachineInitStrategy::Known { value: 0x1357 } }).violation.map(|(s, d)| format!("[{s}] {d}"))
}
