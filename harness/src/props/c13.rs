//! C13 — run, step-over, step-out and pauses equal repeated single steps (explicit-state BFS + RefRun twin driven only by step_in).
use super::simcmp::{IntSource, IntState};
use crate::refs::isa::reg;
use crate::util::*;
use lc3_ensemble::asm::{assemble_debug, ObjectFile};
use lc3_ensemble::parse::parse_ast;
use lc3_ensemble::sim::debug::{Breakpoint, Comparator};
use lc3_ensemble::sim::device::BufferedDisplay;
use lc3_ensemble::sim::mem::MachineInitStrategy;
use lc3_ensemble::sim::{InternalRegister, MemAccessCtx, SimErr, SimFlags, Simulator};
use std::sync::atomic::Ordering;
use std::sync::{Arc, Mutex, OnceLock};

const SRC: [&str; 8] = [
    ".orig x3000\nLD R6, SP\nAND R0,R0,#0\nLOOP JSR A\nBPHERE ADD R0,R0,#1\nADD R2,R0,#-3\nBRn LOOP\nLEA R0, S\nPUTS\nHALT\nA ADD R6,R6,#-1\nSTR R7,R6,#0\nJSR B\nLDR R7,R6,#0\nADD R6,R6,#1\nRET\nB ADD R1,R1,#1\nST R1, M\nRET\nSP .fill xFD00\nM .fill 0\nS .stringz \"k\"\n.end",
    ".orig x3000\nAND R0,R0,#0\nAND R1,R1,#0\nLOOP ADD R1,R1,#2\nBPHERE ST R1, M\nADD R0,R0,#1\nADD R2,R0,#-4\nBRn LOOP\nHALT\nM .fill 0\n.end",
    ".orig x3000\nADD R0,R0,#1\nBPHERE ADD R0,R0,#1\nST R0, M\nADD R0,R0,#1\nHALT\nM .fill 0\n.end",
    // scale: 131072 calls that never return (frame depth past 2^16), then a call that does
    ".orig x3000\nAND R1,R1,#0\nLOOP JSR L1\nL1 JSR L2\nL2 ADD R1,R1,#-1\nBRnp LOOP\nBPHERE JSR SUB\nADD R2,R2,#1\nHALT\nSUB ADD R2,R2,#3\nST R2, M\nRET\nM .fill 0\n.end",
    // the breakpoint address holds an instruction that transfers control to itself (a spin; a call to itself)
    ".orig x3000\nADD R0,R0,#1\nST R0, M\nBPHERE BRnzp BPHERE\nM .fill 0\n.end",
    ".orig x3000\nADD R0,R0,#1\nBPHERE JSR BPHERE\nM .fill 0\n.end",
    // under real traps: a reserved opcode / a user-mode RTI in the middle of the program (the exception is taken inside the run: entry into the
    // OS handler is a step that executes no instruction of the program)
    ".orig x3000\nADD R0,R0,#1\nBPHERE .fill xD000\nADD R0,R0,#1\nST R0, M\nHALT\nM .fill 0\n.end",
    ".orig x3000\nADD R0,R0,#1\nST R0, M\nBPHERE RTI\nADD R0,R0,#1\nHALT\nM .fill 0\n.end",
];
/// (indices 5 and 6 of progs(): SRC[4], SRC[5])
/// histories run on the deep-recursion program (index 4), outside the BFS: breakpoint at the call, run there (262144 steps), then step over / out / in
const DEEP: [&[u16]; 6] = [&[9, 7, 1], &[9, 7, 2], &[9, 7, 0, 2], &[9, 7, 1, 1, 1], &[9, 7, 0, 0, 1, 2], &[9, 7, 10, 5, 1]];
struct Prog { obj: ObjectFile, bp: u16, m: u16, real: bool }
fn progs() -> &'static Vec<Prog> {
    static P: OnceLock<Vec<Prog>> = OnceLock::new();
    P.get_or_init(|| {
        let mk = |i: usize, real: bool| { let o = assemble_debug(parse_ast(SRC[i]).unwrap(), SRC[i]).unwrap(); let s = o.symbol_table().unwrap(); Prog { bp: s.lookup_label("BPHERE").unwrap(), m: s.lookup_label("M").unwrap(), obj: o, real } };
        vec![mk(0, false), mk(1, false), mk(0, true), mk(2, false), mk(3, false), mk(4, false), mk(5, false), mk(6, true), mk(7, true)]
    })
}

#[derive(Clone, Copy, Debug, PartialEq, Eq)]
enum Op { StepIn, StepOver, StepOut, RunLimit(u64), Run, RunWhileR0Ne2, BpPc(bool), BpReg(bool), BpMem(bool), Arm(u64), SetCount(u64), Raise(u64), /** the host moves the PC back to the program's entry (public field), as a debugger's "restart" / "set next statement" does */ Goto }
const OPS: [Op; 24] = [Op::StepIn, Op::StepOver, Op::StepOut, Op::RunLimit(0), Op::RunLimit(1), Op::RunLimit(2), Op::RunLimit(5), Op::Run, Op::RunWhileR0Ne2,
    Op::BpPc(true), Op::BpPc(false), Op::BpReg(true), Op::BpReg(false), Op::BpMem(true), Op::BpMem(false), Op::Arm(0), Op::Arm(1), Op::Arm(3), Op::RunLimit(u64::MAX), Op::SetCount(u64::MAX - 1), Op::SetCount(0), Op::Raise(1), Op::Raise(3), Op::Goto];

#[derive(Clone, Copy, Debug, PartialEq, Eq)]
enum Pause { Halt, McrOff, Breakpoint, Tripwire, Unsuccessful }

struct Side { sim: Simulator, dev: Arc<Mutex<IntState>>, disp: BufferedDisplay }
struct World { a: Side, twin: Side, pause: Pause, bps: [bool; 3], /** an extra breakpoint of the comparator family: (on memory cell M instead of R0, comparator kind 0..8, operand) */ extra: Option<(bool, u8, u16)>, prog: usize, /** call depth of the twin, counted by the harness from the instructions it single-steps (not read from the simulator) */ depth: u64 }
const SSP_PORT: u16 = 0xFE30;

fn side(p: &Prog) -> Side {
    let mut sim = Simulator::new(SimFlags { machine_init: MachineInitStrategy::Known { value: 0 }, use_real_traps: p.real, ..Default::default() });
    sim.load_obj_file(&p.obj).unwrap();
    let disp = BufferedDisplay::default();
    sim.device_handler.set_display(disp.clone());
    sim.mmap_internal(SSP_PORT, InternalRegister::SavedSP).unwrap();
    let st = Arc::new(Mutex::new(IntState { mcr: Some(sim.mcr().clone()), edge: true, ..Default::default() }));
    // interrupt service routine for the device's vector x90: ADD R3,R3,#1 ; RTI
    sim.mem[0x0190].set(0x1F00); sim.mem[0x1F00].set(0x16E1); sim.mem[0x1F01].set(0x8000);
    // programs that spin forever get a periodic brake: the harness device clears the MCR every 150 polls (on both machines alike)
    if p.obj.addr_iter().all(|(_, w)| w != Some(0xF025)) { st.lock().unwrap_or_else(|e| e.into_inner()).clear_mcr_every = Some(150); }
    sim.device_handler.add_device(IntSource { vect: 0x90, prio: 1, state: st.clone() }, &[]).ok().unwrap();
    Side { sim, dev: st, disp }
}
fn fresh(prog: usize) -> World { let p = &progs()[prog]; World { a: side(p), twin: side(p), pause: Pause::Unsuccessful, bps: [false; 3], extra: None, prog, depth: 0 } }

fn bp_match(w: &World, s: &Simulator) -> bool {
    let p = &progs()[w.prog];
    (w.bps[0] && s.pc == p.bp) || (w.bps[1] && s.reg_file[reg(0)].get() == 2) || (w.bps[2] && s.mem[p.m].get() != 0)
        || w.extra.map(|(on_mem, kind, r)| { let v = if on_mem { s.mem[p.m].get() } else { s.reg_file[reg(0)].get() }; documented_comparison(kind, v, r) }).unwrap_or(false)
}
/// the comparators as documented: never, <, ==, <=, >, !=, >=, always
fn documented_comparison(kind: u8, v: u16, r: u16) -> bool { match kind { 0 => false, 1 => v < r, 2 => v == r, 3 => v <= r, 4 => v > r, 5 => v != r, 6 => v >= r, _ => true } }
fn comparator(kind: u8, r: u16) -> Comparator { match kind { 0 => Comparator::Never, 1 => Comparator::Lt(r), 2 => Comparator::Eq(r), 3 => Comparator::Le(r), 4 => Comparator::Gt(r), 5 => Comparator::Ne(r), 6 => Comparator::Ge(r), _ => Comparator::Always } }
/// Comparator family: one register / memory breakpoint with each of the 8 comparators and operands around the values the program produces,
/// then 8 run-style calls of one kind (each stops at the next boundary where the documented predicate holds, or at HALT).
fn comparator_case(prog: usize, on_mem: bool, kind: u8, r: u16, style: u8) -> Visit {
    let res = catch(|| {
        let mut w = fresh(prog);
        let p = &progs()[prog];
        let b = if on_mem { Breakpoint::Mem { addr: p.m, value: comparator(kind, r) } } else { Breakpoint::Reg { reg: reg(0), value: comparator(kind, r) } };
        w.a.sim.breakpoints.insert(b);
        w.extra = Some((on_mem, kind, r));
        let op = match style { 0 => Op::Run, 1 => Op::RunLimit(u64::MAX), 2 => Op::StepOver, _ => Op::RunLimit(5) };
        for i in 0..8 { if let Err(e) = apply(&mut w, op) { return Some((e.0, format!("program {prog}, breakpoint on {} with comparator #{kind} (never, <, ==, <=, >, !=, >=, always) and operand {r}: call {i} of {op:?}: {}", if on_mem { "the memory cell M" } else { "R0" }, e.1))); } }
        None
    });
    match res { Ok(v) => Visit { fingerprint: 0, violation: v, ops_applied: 8 }, Err(p) => Visit { fingerprint: 0, violation: Some((format!("panic:{}", panic_site(&p)), p)), ops_applied: 0 } }
}
/// MCR-word family: the program itself stores a word to the MCR (xFFFE) under ignore_privilege; the run-style call must stop at the boundary
/// right after the store exactly when bit 15 (the clock-enable bit) of the stored word is clear — decided from the word, not from the
/// simulator's own flag — and otherwise run on to HALT.
const MCR_WORDS: [u16; 10] = [0x0000, 0x0001, 0x4000, 0x7FFF, 0x00FF, 0x8000, 0x8001, 0xFFFF, 0xC000, 0x7F00];
fn mcr_word_case(wi: usize, style: u8) -> Option<(String, String)> {
    let word = MCR_WORDS[wi];
    let src = format!(".orig x3000\nLD R1, V\nSTI R1, P\nADD R0,R0,#1\nADD R0,R0,#1\nHALT\nP .fill xFFFE\nV .fill x{word:04X}\n.end");
    let res = catch(|| {
        let obj = assemble_debug(parse_ast(&src).unwrap(), &src).unwrap();
        let mut sim = Simulator::new(SimFlags { machine_init: MachineInitStrategy::Known { value: 0 }, ignore_privilege: true, ..Default::default() });
        sim.load_obj_file(&obj).unwrap();
        let r = match style { 0 => sim.run(), 1 => sim.run_with_limit(u64::MAX), 2 => sim.run_with_limit(4), 3 => { let _ = sim.step_in(); sim.step_over().and_then(|_| if sim.pc == 0x3002 && (word as i16) < 0 { sim.run() } else { Ok(()) }) }, _ => sim.run_while(|_| true) };
        (r.map_err(|e| errname(&e)), sim.pc, sim.reg_file[reg(0)].get(), sim.instructions_run, sim.mcr().load(Ordering::Relaxed))
    });
    let what = format!("program storing x{word:04X} to the MCR (xFFFE), run style {style} (run, run_with_limit(MAX), run_with_limit(4), step_in+step_over[+run], run_while(true))");
    let (r, pc, r0, n, mcr) = match res { Ok(v) => v, Err(p) => return Some((format!("panic:{}", panic_site(&p)), format!("{what}: {p}"))) };
    if let Err(e) = r { return Some(("mcr-word:error".into(), format!("{what}: {e}"))); }
    if mcr { return Some(("mcr-word:flag-left-on".into(), format!("{what}: MCR still on after the call returned"))); }
    let cleared = word & 0x8000 == 0;
    if cleared { if pc != 0x3002 || r0 != 0 || n != 2 { return Some(("mcr-word:ran-past-cleared-mcr".into(), format!("{what}: bit 15 clear, so the call must stop right after the STI (PC x3002, 2 instructions, R0 0); got PC x{pc:04X}, {n} instructions, R0 {r0}"))); } }
    else if style == 2 { if pc != 0x3004 || r0 != 2 || n != 4 { return Some(("mcr-word:stopped-with-mcr-on".into(), format!("{what}: bit 15 set, limit 4: expected PC x3004 after 4 instructions, R0 2; got PC x{pc:04X}, {n} instructions, R0 {r0}"))); } }
    else if r0 != 2 || pc != 0x3004 { return Some(("mcr-word:stopped-with-mcr-on".into(), format!("{what}: bit 15 set, so the program must run on to its HALT at x3004 with R0 2; got PC x{pc:04X}, {n} instructions, R0 {r0}"))); }
    None
}
fn errname(e: &SimErr) -> String { let s = format!("{e:?}"); s.split('(').next().unwrap_or("").to_string() }

/// One `step_in` of the twin with the harness's own call-depth bookkeeping: +1 for JSR/JSRR, a TRAP that enters the OS and a taken interrupt,
/// -1 (not below 0) for RET and RTI.
fn twin_step(w: &mut World) -> Result<(), SimErr> {
    let s = &mut w.twin.sim;
    let (pc0, n0) = (s.pc, s.instructions_run);
    let word = if pc0 < 0xFE00 { s.mem[pc0].get() } else { 0 };
    s.step_in()?;
    if s.instructions_run == n0 { if s.pc != pc0 { w.depth += 1; } return Ok(()); } // a step that executes no instruction but moves the PC: interrupt or (real traps) exception entry; a parked virtual HALT moves nothing
    match word >> 12 { 0x4 | 0xF => w.depth += 1, 0x8 => w.depth = w.depth.saturating_sub(1), 0xC if word == 0xC1C0 => w.depth = w.depth.saturating_sub(1), _ => {} }
    Ok(())
}
/// RefRun: the documented stop rules, executed with `step_in` only.
fn ref_run(w: &mut World, mut trip: impl FnMut(&Simulator, u64) -> bool) -> Result<(), String> {
    let real = progs()[w.prog].real;
    w.twin.sim.mcr().store(true, Ordering::Relaxed);
    w.pause = Pause::Unsuccessful;
    let mut result = Ok(());
    for guard in 0.. {
        if guard > 2_000_000 { return Err("machinery: reference run did not terminate".into()); }
        if !w.twin.sim.mcr().load(Ordering::Relaxed) { w.pause = Pause::McrOff; break; }
        if !trip(&w.twin.sim, w.depth) { w.pause = Pause::Tripwire; break; }
        let (pc0, n0) = (w.twin.sim.pc, w.twin.sim.instructions_run);
        let at_halt = !real && w.twin.sim.mem[pc0].get() == 0xF025;
        if let Err(e) = twin_step(w) { result = Err(errname(&e)); break; }
        if at_halt && w.twin.sim.pc == pc0 && w.twin.sim.instructions_run == n0 { w.pause = Pause::Halt; break; }
        if bp_match(w, &w.twin.sim) { w.pause = Pause::Breakpoint; break; }
    }
    w.twin.sim.mcr().store(false, Ordering::Relaxed);
    result
}

fn apply(w: &mut World, op: Op) -> Result<(), (String, String)> {
    let p = &progs()[w.prog];
    let what = format!("{op:?}");
    let r0 = reg(0);
    let (got, exp): (Result<(), String>, Result<(), String>) = match op {
        Op::StepIn => (w.a.sim.step_in().map_err(|e| errname(&e)), twin_step(w).map_err(|e| errname(&e))),
        Op::RunLimit(n) => { let i = w.twin.sim.instructions_run; (w.a.sim.run_with_limit(n).map_err(|e| errname(&e)), ref_run(w, |s, _| s.instructions_run.wrapping_sub(i) < n)) }
        Op::Run => (w.a.sim.run().map_err(|e| errname(&e)), ref_run(w, |_, _| true)),
        Op::RunWhileR0Ne2 => (w.a.sim.run_while(|s| s.reg_file[r0].get() != 2).map_err(|e| errname(&e)), ref_run(w, |s, _| s.reg_file[r0].get() != 2)),
        Op::StepOver => { let d = w.depth; let mut first = true; (w.a.sim.step_over().map_err(|e| errname(&e)), ref_run(w, |_, depth| { let f = first; first = false; f || d < depth })) }
        Op::StepOut => {
            let d = w.depth;
            let g = w.a.sim.step_out().map_err(|e| errname(&e));
            // documented: runs until the frame depth drops below the starting depth; at top level there is nothing to step out of (no-op)
            let e = if d == 0 { Ok(()) } else { let mut first = true; ref_run(w, |_, depth| { let f = first; first = false; f || d <= depth }) };
            (g, e)
        }
        Op::BpPc(on) => { let b = Breakpoint::PC(p.bp); if on { w.a.sim.breakpoints.insert(b); } else { w.a.sim.breakpoints.remove(&b); } w.bps[0] = on; (Ok(()), Ok(())) }
        Op::BpReg(on) => { let b = Breakpoint::Reg { reg: r0, value: Comparator::Eq(2) }; if on { w.a.sim.breakpoints.insert(b); } else { w.a.sim.breakpoints.remove(&b); } w.bps[1] = on; (Ok(()), Ok(())) }
        Op::BpMem(on) => { let b = Breakpoint::Mem { addr: p.m, value: Comparator::Ne(0) }; if on { w.a.sim.breakpoints.insert(b); } else { w.a.sim.breakpoints.remove(&b); } w.bps[2] = on; (Ok(()), Ok(())) }
        Op::SetCount(c) => { w.a.sim.instructions_run = c; w.twin.sim.instructions_run = c; (Ok(()), Ok(())) }
        // the device requests a (priority-1, edge-triggered) interrupt j polls from now: steps that only dispatch an interrupt execute no instruction
        Op::Raise(j) => { for s in [&w.a, &w.twin] { let mut st = s.dev.lock().unwrap_or_else(|e| e.into_inner()); let at = st.poll + j; st.raise_at.push(at); } (Ok(()), Ok(())) }
        Op::Goto => { w.a.sim.pc = 0x3000; w.twin.sim.pc = 0x3000; (Ok(()), Ok(())) }
        Op::Arm(j) => { for s in [&w.a, &w.twin] { let mut st = s.dev.lock().unwrap_or_else(|e| e.into_inner()); st.clear_mcr_at = Some(st.poll + j); } (Ok(()), Ok(())) }
    };
    if let Err(e) = &exp { if e.starts_with("machinery") { return Err(("machinery:reference".into(), e.clone())); } }
    if got != exp { return Err((format!("result:{}", opname(op)), format!("{what}: returned {got:?}, repeated single steps with the documented stop rule give {exp:?}"))); }
    // ---- same state
    for i in 0..8 { let (x, y) = (w.a.sim.reg_file[reg(i)], w.twin.sim.reg_file[reg(i)]); if x != y { return Err((format!("state:{}", opname(op)), format!("{what}: R{i} {x:?} vs single-stepped {y:?}"))); } }
    if w.a.sim.pc != w.twin.sim.pc { return Err((format!("stops-elsewhere:{}", opname(op)), format!("{what}: stopped at PC x{:04X}, single-stepping with the documented stop rule stops at x{:04X} (instructions {} vs {})", w.a.sim.pc, w.twin.sim.pc, w.a.sim.instructions_run, w.twin.sim.instructions_run))); }
    if w.a.sim.instructions_run != w.twin.sim.instructions_run { return Err((format!("instruction-count:{}", opname(op)), format!("{what}: {} instructions run vs {}", w.a.sim.instructions_run, w.twin.sim.instructions_run))); }
    if w.a.sim.psr().get() != w.twin.sim.psr().get() { return Err((format!("state:{}", opname(op)), format!("{what}: PSR x{:04X} vs x{:04X}", w.a.sim.psr().get(), w.twin.sim.psr().get()))); }
    let ssp = |s: &mut Simulator| s.read_mem(SSP_PORT, MemAccessCtx::omnipotent()).map(|x| x.get()).unwrap_or(0);
    let (sa, sb) = (ssp(&mut w.a.sim), ssp(&mut w.twin.sim)); if sa != sb { return Err((format!("state:{}", opname(op)), format!("{what}: saved SP x{sa:04X} vs x{sb:04X}"))); }
    for a in (0x3000..0x3030u16).chain(0xFCF0..0xFD01).chain(0x2FF0..0x3000) { if w.a.sim.mem[a] != w.twin.sim.mem[a] { return Err((format!("state:{}", opname(op)), format!("{what}: mem[x{a:04X}] {:?} vs {:?}", w.a.sim.mem[a], w.twin.sim.mem[a]))); } }
    if w.a.sim.frame_stack.len() != w.twin.sim.frame_stack.len() { return Err((format!("state:{}", opname(op)), format!("{what}: frame depth {} vs {}", w.a.sim.frame_stack.len(), w.twin.sim.frame_stack.len()))); }
    if *w.a.disp.get_buffer().read().unwrap_or_else(|e| e.into_inner()) != *w.twin.disp.get_buffer().read().unwrap_or_else(|e| e.into_inner()) { return Err((format!("state:{}", opname(op)), format!("{what}: output differs"))); }
    // ---- pause status (only run-style calls define it)
    let (eh, eb) = (matches!(w.pause, Pause::Halt | Pause::McrOff), w.pause == Pause::Breakpoint);
    if w.a.sim.hit_halt() != eh || w.a.sim.hit_breakpoint() != eb { return Err((format!("pause-status:{}", opname(op)), format!("{what}: hit_halt={} hit_breakpoint={}, expected pause reason {:?}", w.a.sim.hit_halt(), w.a.sim.hit_breakpoint(), w.pause))); }
    if w.a.sim.mcr().load(Ordering::Relaxed) != w.twin.sim.mcr().load(Ordering::Relaxed) { return Err((format!("mcr:{}", opname(op)), format!("{what}: MCR {} vs {}", w.a.sim.mcr().load(Ordering::Relaxed), w.twin.sim.mcr().load(Ordering::Relaxed)))); }
    Ok(())
}
fn opname(o: Op) -> &'static str { match o { Op::StepIn => "step_in", Op::StepOver => "step_over", Op::StepOut => "step_out", Op::RunLimit(_) => "run_with_limit", Op::Run => "run", Op::RunWhileR0Ne2 => "run_while", Op::Arm(_) => "arm", Op::Raise(_) => "raise", Op::SetCount(_) => "set_count", Op::Goto => "set_pc", _ => "breakpoint" } }

fn fingerprint(w: &mut World) -> u64 {
    let s = &w.a.sim;
    let mut h = mix((s.pc as u64) << 32 | (s.psr().get() as u64) << 16, s.instructions_run);
    for i in 0..8 { h = mix(h, s.reg_file[reg(i)].get() as u64 | (s.reg_file[reg(i)].is_init() as u64) << 16); }
    for a in (0x3000..0x3030u16).chain(0xFCF8..0xFD01).chain(0x2FF8..0x3000) { h = mix(h, s.mem[a].get() as u64); }
    h = mix(h, s.frame_stack.len() << 4 | (s.hit_halt() as u64) << 1 | s.hit_breakpoint() as u64);
    h = mix(h, w.bps.iter().fold(0u64, |x, b| x * 2 + *b as u64) << 8 | w.pause as u64);
    let st = w.a.dev.lock().unwrap_or_else(|e| e.into_inner());
    if let Some(n) = st.clear_mcr_every { h = mix(h, st.poll % n + 5000); }
    h = mix(h, st.clear_mcr_at.map(|c| if c >= st.poll { c - st.poll + 1 } else { 0 }).unwrap_or(99));
    // pending interrupt requests, relative to the current poll
    let mut pend: Vec<u64> = st.raise_at.iter().filter(|r| **r >= st.poll).map(|r| r - st.poll).collect(); pend.sort();
    for r in pend { h = mix(h, r + 1000); }
    h = mix(h, w.a.disp.get_buffer().read().unwrap_or_else(|e| e.into_inner()).len() as u64 * 2 + s.mcr().load(Ordering::Relaxed) as u64);
    h
}
fn visit(prog: usize, h: &[u16]) -> Visit {
    let r = catch(|| {
        let mut w = fresh(prog);
        let names: Vec<String> = h.iter().map(|o| format!("{:?}", OPS[*o as usize])).collect();
        for (i, o) in h.iter().enumerate() { if let Err(e) = apply(&mut w, OPS[*o as usize]) { return (0, Some((e.0, format!("program {prog} history {names:?}: op {i}: {}", e.1)))); } }
        (fingerprint(&mut w), None)
    });
    match r { Ok((fp, v)) => Visit { fingerprint: fp, violation: v, ops_applied: h.len() as u64 }, Err(p) => Visit { fingerprint: 0, violation: Some((format!("panic:{}", panic_site(&p)), p)), ops_applied: h.len() as u64 } }
}

pub fn run(ctx: &Ctx) -> Report {
    let mut rep = Report::new("explicit-state BFS, for each of 8 programs (two under real traps that raise an exception mid-way: a reserved opcode, a user-mode RTI; a spin and a call-to-self with the breakpoint on the self-jumping instruction; nested calls 2 deep + loop + PUTS trap + HALT; a store loop for memory breakpoints; the first program under real traps, halting through the OS's MCR write; a straight line), over histories of 24 operations: the host moving the PC back to x3000 (so that run-style calls and single steps also start from machines that have halted, paused or faulted before), step_in, step_over, step_out, run_with_limit(0,1,2,5,u64::MAX), the host setting instructions_run to u64::MAX-1 or 0 (documented as resettable), run, run_while(R0 != 2), insert/remove a PC, a register (R0 == 2) and a memory (M != 0) breakpoint, arm an asynchronous MCR clear 0/1/3 polls ahead; plus an MCR-word family (the program stores each of 10 words to xFFFE under ignore_privilege, 5 run styles: the call stops right after the store exactly when bit 15 of the word is clear). After every operation the real simulator is compared with a twin that is driven ONLY by step_in under the documented stop rules (halt, error, breakpoint after an executed step, step limit, tripwire, frame depth, MCR cleared): result, registers, PC, PSR, saved SP, memory, frame depth, instruction count, output, hit_halt/hit_breakpoint, MCR. Any split of a run into segments therefore equals the unbroken run. non-trivial = states at depth >= 1");
    let depth = ctx.pick(5usize, 8usize);
    let mut total_states = 0u64; let mut total_tr = 0u64; let mut frontier_total = 0u64;
    for prog in [0usize, 1, 2, 3, 5, 6, 7, 8] {
        let (states, transitions, frontier, per_depth, capped) = bfs_hist(ctx, &mut rep.acc, OPS.len(), depth, &|h| format!("{prog}:{}", h.iter().map(|x| x.to_string()).collect::<Vec<_>>().join(",")), |h| visit(prog, h));
        total_states += states; total_tr += transitions; frontier_total += frontier;
        for (d, n) in per_depth.iter().enumerate() { rep.acc.outcomes.insert(mix(prog as u64 * 16 + d as u64, *n)); rep.acc.count(&format!("program{prog}_new_states_depth_{d}"), *n); }
        if capped { rep.exhaustive = false; }
    }
    let r = sweep(ctx, 2 * 2 * 8 * 8 * 4, 4, |i, acc| {
        let (prog, on_mem, kind, r, style) = ([0usize, 1][(i % 2) as usize], i / 2 % 2 == 1, (i / 4 % 8) as u8, [0u16, 1, 2, 3, 4, 6, 8, 0xFFFF][(i / 32 % 8) as usize], (i / 256) as u8);
        acc.evals += 1; acc.count("comparator_breakpoint_cases", 1); acc.transitions += 8;
        if let Some((sig, d)) = comparator_case(prog, on_mem, kind, r, style).violation { acc.violation(sig, format!("cmp:{prog}:{}:{kind}:{r}:{style}", on_mem as u8), d); }
    });
    rep.absorb(r);
    let r = sweep(ctx, (MCR_WORDS.len() * 5) as u64, 1, |i, acc| {
        acc.evals += 1; acc.count("mcr_word_cases", 1); acc.transitions += 5;
        if let Some((sig, d)) = mcr_word_case(i as usize % MCR_WORDS.len(), (i as usize / MCR_WORDS.len()) as u8) { acc.violation(sig, format!("mcrw:{}:{}", i as usize % MCR_WORDS.len(), i as usize / MCR_WORDS.len()), d); }
    });
    rep.absorb(r);
    let r = sweep(ctx, DEEP.len() as u64, 1, |i, acc| {
        acc.evals += 1; acc.count("deep_recursion_histories", 1);
        let v = visit(4, DEEP[i as usize]);
        acc.transitions += 600_000;
        if let Some((sig, d)) = v.violation { acc.violation(sig, format!("4:{}", DEEP[i as usize].iter().map(|x| x.to_string()).collect::<Vec<_>>().join(",")), d); }
    });
    rep.absorb(r);
    rep.acc.states = total_states; rep.acc.transitions = total_tr; rep.acc.nontrivial = total_states - 6;
    rep.bound("depth", Json::i(depth as u64)); rep.bound("alphabet", Json::i(OPS.len() as u64)); rep.bound("frontier_at_bound", Json::i(frontier_total));
    rep.require(total_states > 1000, "the run/step state space was explored");
    rep.assume("no interrupting device is attached: the only harness device is the MCR clearer, whose poll_interrupt answers None (interrupt placement is C10's subject)");
    rep.assume("step_out at frame depth 0 is a no-op (nothing to step out of; the statement is silent)");
    rep
}
pub fn replay(case: &str) -> Option<String> {
    if let Some(r) = case.strip_prefix("mcrw:") { let q: Vec<usize> = r.split(':').filter_map(|x| x.parse().ok()).collect(); return mcr_word_case(*q.first()?, *q.get(1)? as u8).map(|(s, d)| format!("[{s}] {d}")); }
    if let Some(r) = case.strip_prefix("cmp:") { let q: Vec<u64> = r.split(':').filter_map(|x| x.parse().ok()).collect(); return comparator_case(*q.first()? as usize, *q.get(1)? == 1, *q.get(2)? as u8, *q.get(3)? as u16, *q.get(4)? as u8).violation.map(|(s, d)| format!("[{s}] {d}")); }
    let (p, hs) = case.split_once(':')?;
    let h: Vec<u16> = hs.split(',').filter(|x| !x.is_empty()).filter_map(|x| x.parse().ok()).collect();
    visit(p.parse().ok()?, &h).violation.map(|(s, d)| format!("[{s}] {d}"))
}
