//! C26 — assembler and linker error spans are well-formed.
use super::asmrun::*;
use crate::util::*;

pub fn run(ctx: &Ctx) -> Report {
    let mut rep = Report::new("every error produced by assembling the C02 fault families (single faults at every placement on every base program, fault pairs, fence-post, offset-limit and block-layout programs, programs whose labels contain non-ASCII letters; the single-fault family also rendered without a final newline) and by every failing link of the C20 link family (all ordered pairs and triples, over the family assembled with debug symbols and over its members that keep a symbol table without them): span.first(), span.iter() and Error::span() are exercised under catch_unwind; for assembling errors every span must lie in the source on char boundaries and, for label errors, cover a spelling of an offending label. non-trivial = case that produced an error");
    let plain = vec![(0u64, DEFAULT_SECONDARY)];
    let two = vec![(0u64, DEFAULT_SECONDARY), (3887u64, 37u64)];
    let plans = vec![
        Plan { fam: "F1", styles: two.clone(), debug: vec![false, true], stride: 1 },
        // the same single faults in texts without a final newline (and with a leading blank line / indentation): spans at the very end of the source
        Plan { fam: "F1", styles: vec![(0u64, 1 + 40), (8 * 324, 1 + 20 + 40 + 80)], debug: vec![false, true], stride: 1 },
        Plan { fam: "F2", styles: plain.clone(), debug: vec![true], stride: ctx.pick(37, 2) },
        Plan { fam: "FENCE", styles: two.clone(), debug: vec![true], stride: 1 },
        Plan { fam: "LIM", styles: two.clone(), debug: vec![true], stride: 1 },
        Plan { fam: "BLK", styles: two.clone(), debug: vec![true], stride: 1 },
        Plan { fam: "LAB", styles: plain.clone(), debug: vec![true], stride: 1 },
        Plan { fam: "BIG", styles: plain.clone(), debug: vec![false, true], stride: 1 },
        Plan { fam: "UNI", styles: two.clone(), debug: vec![false, true], stride: 1 },
    ];
    run_plans(ctx, &mut rep, "C26", &plans, &|i| i.err_kind.is_some());
    super::c20::link_error_spans(ctx, &mut rep);
    rep.require(rep.acc.get("rejected") > 1000, "assembling errors were produced");
    rep.require(rep.acc.get("link_errors") > 50, "link errors were produced");
    rep
}
pub fn replay(case: &str) -> Option<String> {
    if case.starts_with("link:") { return super::c20::replay_link_span(case); }
    replay_case("C26", case)
}
