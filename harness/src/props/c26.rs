//! C26 — assembler and linker error spans are well-formed.
use super::asmrun::*;
use crate::util::*;

pub fn run(ctx: &Ctx) -> Report {
    let mut rep = Report::new("every error produced by assembling the C02 fault families (single faults at every placement on every base program, fault pairs, fence-post, offset-limit and block-layout programs, programs whose labels contain non-ASCII letters; the single-fault family also rendered without a final newline) and by every failing link of the C20 link family (all ordered pairs and triples, over the family assembled with debug symbols and over its members that keep a symbol table without them): span.first(), span.iter() and Error::span() are exercised under catch_unwind; for assembling errors every span must lie in the source on char boundaries and, for label errors, cover a spelling of an offending label. non-trivial = case that produced an error");
    let plain = vec![(0u64, DEFAULT_SECONDARY)];
    let two = vec![(0u64, DEFAULT_SECONDARY), (3887u64, 37u64)];
    let plans = vec![
        Plan { fam: "F1", styles: two.clone(), debug: vec![false, true], stride: 1 },
        // the same single faults in texts without a final newline (and with a leading blank line / indentation): spans at the very end of the source
        Plan { fam: "F1", styles: vec![(0u64, 1 + 40), (8 * 324, 1 + 20 + 40 + 80)], debug: vec![false, true], stride: 1 },
        Plan { fam: "F2", styles: plain.clone(), debug: vec![true], stride: ctx.pick(37, 2) },
        Plan { fam: "FENCE", styles: two.clone(), debug: vec![true], stride: 1 },
        Plan { fam: "LIM", styles: two.clone(), debug: vec![true], stride: 1 },
        Plan { fam: "BLK", styles: two.clone(), debug: vec![true], stride: 1 },
        Plan { fam: "LAB", styles: plain.clone(), debug: vec![true], stride: 1 },
        Plan { fam: "BIG", styles: plain.clone(), debug: vec![false, true], stride: 1 },
        Plan { fam: "UNI", styles: two.clone(), debug: vec![false, true], stride: 1 },
    ];
    run_plans(ctx, &mut rep, "C26", &plans, &|i| i.err_kind.is_some());
    // characters in front of the source that no statement describes: every format (Cf-like), space and control character a text file can
    // start with (BOM, zero-width space / joiners, NBSP, line and paragraph separators, NEL, VT, FF, soft hyphen, direction marks ...), alone
    // and followed by a newline, before every single-fault program: where the parser takes the text, the error spans must fit the text as given
    let f = families();
    let nf = f.len("F1");
    let astride = ctx.pick(4u64, 1u64);
    let r = sweep(ctx, nf * AFFIX.len() as u64 * 2, 64, |k, acc| {
        let (i, a, nl) = (k / (AFFIX.len() as u64 * 2), (k / 2) as usize % AFFIX.len(), k % 2 == 1);
        if i % astride != 0 { return; }
        let Some(prog) = f.get("F1", i) else { return };
        let prefix = format!("{}{}", AFFIX[a], if nl { "\n" } else { "" });
        let mut out = vec![];
        let (parsed, errored) = super::asmcheck::check_affixed_spans(&prog, &crate::gen::prog::Style::plain(), &prefix, &mut out);
        acc.evals += 1; acc.transitions += 2; acc.count("affixed_sources", 1); if parsed { acc.count("affixed_sources_parsed", 1); } if errored { acc.count("affixed_sources_with_error", 1); acc.nontrivial += 1; }
        for fl in out { if fl.prop == "C26" { acc.violation(fl.sig, format!("affix:{i}:{a}:{}", nl as u8), format!("source prefixed with U+{:04X}{}: {}", AFFIX[a].chars().next().map(|c| c as u32).unwrap_or(0), if nl { " and a newline" } else { "" }, fl.detail)); } }
    });
    rep.absorb(r);
    super::c20::link_error_spans(ctx, &mut rep);
    rep.require(rep.acc.get("rejected") > 1000, "assembling errors were produced");
    rep.require(rep.acc.get("link_errors") > 50, "link errors were produced");
    rep
}
/// characters that may precede the first line of a text file without being part of any statement
pub const AFFIX: [&str; 26] = ["\u{FEFF}", "\u{200B}", "\u{200C}", "\u{200D}", "\u{2060}", "\u{00A0}", "\u{2028}", "\u{2029}", "\u{0085}", "\u{000B}", "\u{000C}", "\u{00AD}", "\u{200E}", "\u{200F}", "\u{202A}", "\u{202F}", "\u{3000}", "\u{1680}", "\u{2003}", "\u{0000}", "\u{001A}", "\u{001B}", "\u{007F}", "\u{FFFE}", "\u{FFFD}", "\u{FEFF}\u{FEFF}"];
pub fn replay(case: &str) -> Option<String> {
    if let Some(r) = case.strip_prefix("affix:") {
        let p: Vec<u64> = r.split(':').filter_map(|x| x.parse().ok()).collect();
        let prog = families().get("F1", *p.first()?)?;
        let prefix = format!("{}{}", AFFIX.get(*p.get(1)? as usize)?, if *p.get(2)? == 1 { "\n" } else { "" });
        let mut out = vec![];
        super::asmcheck::check_affixed_spans(&prog, &crate::gen::prog::Style::plain(), &prefix, &mut out);
        return out.into_iter().find(|f| f.prop == "C26").map(|f| format!("[{}] {}", f.sig, f.detail));
    }
    if case.starts_with("link:") { return super::c20::replay_link_span(case); }
    replay_case("C26", case)
}
