//! Linked debug information over source texts with varied beginnings and endings (shared by C22, C24, C25).
//! Three small files (a definer, a user of its label, local code) are rendered with every combination of leading/trailing affixes
//! (no final newline, LF, CRLF, blanks, blank lines, comments), assembled with debug symbols and linked in every order and bracketing.
use crate::util::*;
use lc3_ensemble::asm::encoding::{BinaryFormat, ObjFileFormat, TextFormat};
use lc3_ensemble::asm::{assemble_debug, ObjectFile};
use lc3_ensemble::parse::parse_ast;

const CORES: [&str; 3] = [
    ".orig x3000\nA\n  .fill x1101\nAB .fill x1202\n.end",
    ".external A\n.orig x5000\nU .fill A\n   LD R0, U\n.end",
    ".orig x7000\nLOC LD R0, LOCD\nHALT\nLOCD .stringz \"a;b\"\n.end",
];
/// a fourth, large file (index 3): 3000 labelled words and comment padding, more than 65536 bytes of text, so that combined sources cross 2^16 bytes
fn big_core() -> &'static String {
    static B: std::sync::OnceLock<String> = std::sync::OnceLock::new();
    B.get_or_init(|| { let mut s = String::from(".orig x8000\n"); for k in 0..3000 { s.push_str(&format!("BG{k} .fill x{:04X} ; {k}\n", k)); if k % 50 == 0 { s.push_str("; padding padding padding\n"); } } s.push_str(".end"); assert!(s.len() > 65536); s })
}
const AFFIX: [&str; 8] = ["", "\n", "\r\n", "  ", "\n\n", " ;é", "\n ;c\n", "\n    "];
const PREFIX: [&str; 8] = ["", "\n", "\r\n", "  ", "\n\n", " ;é\n", "\n ;c\n", "\n    "];

/// files: (core index, prefix affix, suffix affix) in link order; `right`: fold from the right
#[derive(Clone, Debug)]
pub struct Case { pub files: Vec<(usize, usize, usize)>, pub right: bool }
impl Case {
    pub fn encode(&self) -> String { format!("ls:{}:{}", self.right as u8, self.files.iter().map(|f| format!("{}.{}.{}", f.0, f.1, f.2)).collect::<Vec<_>>().join(",")) }
    pub fn decode(s: &str) -> Option<Case> {
        let p: Vec<&str> = s.split(':').collect();
        if p.first() != Some(&"ls") { return None; }
        let files = p.get(2)?.split(',').map(|f| { let q: Vec<usize> = f.split('.').filter_map(|x| x.parse().ok()).collect(); if q.len() == 3 { Some((q[0], q[1], q[2])) } else { None } }).collect::<Option<Vec<_>>>()?;
        Some(Case { files, right: *p.get(1)? == "1" })
    }
}
fn perms(len: usize) -> Vec<Vec<usize>> {
    let mut v = vec![];
    for a in 0..3 { for b in 0..3 { if a == b { continue; } if len == 2 { v.push(vec![a, b]); } else { for c in 0..3 { if c != a && c != b { v.push(vec![a, b, c]); } } } } }
    v
}
/// the k-th case; pairs: both affixes of both files; triples: every suffix combination with prefix = suffix of the previous file's index (rotated)
pub fn case(k: u64) -> Option<Case> {
    let pairs = 6 * 64 * 64 * 2;
    if k < pairs {
        let (right, k) = (k % 2 == 1, k / 2);
        let (pm, k) = (perms(2)[(k % 6) as usize].clone(), k / 6);
        let a = [(k % 8) as usize, (k / 8 % 8) as usize, (k / 64 % 8) as usize, (k / 512 % 8) as usize];
        return Some(Case { files: vec![(pm[0], a[0], a[1]), (pm[1], a[2], a[3])], right });
    }
    let k = k - pairs;
    if k >= 6 * 512 * 2 * 2 {
        // scale cases: the large file linked with one or two small ones, in every position, every suffix of the large file, both folds
        let k = k - 6 * 512 * 2 * 2;
        if k >= SCALE_CASES { return None; }
        let (right, k) = (k % 2 == 1, k / 2);
        let (suf, k) = ((k % 8) as usize, k / 8);
        let shapes: [&[usize]; 9] = [&[3, 0], &[0, 3], &[3, 1], &[1, 3], &[2, 3], &[3, 0, 1], &[0, 3, 1], &[0, 1, 3], &[2, 3, 0]];
        let sh = shapes[(k % 9) as usize];
        return Some(Case { files: sh.iter().map(|c| (*c, if *c == 3 { 0 } else { (suf + c) % 8 }, if *c == 3 { suf } else { (suf * 3 + c) % 8 })).collect(), right });
    }
    let (right, k) = (k % 2 == 1, k / 2);
    let (pre, k) = (k % 2 == 1, k / 2);
    let (pm, k) = (perms(3)[(k % 6) as usize].clone(), k / 6);
    let s = [(k % 8) as usize, (k / 8 % 8) as usize, (k / 64 % 8) as usize];
    Some(Case { files: (0..3).map(|i| (pm[i], if pre { s[(i + 1) % 3] } else { 0 }, s[i])).collect(), right })
}
pub const SCALE_CASES: u64 = 9 * 8 * 2;
pub const CASES: u64 = 6 * 64 * 64 * 2 + 6 * 512 * 2 * 2;

struct Own { text: String, obj: ObjectFile, lines: Vec<(u16, String)>, labels: Vec<String> }
fn own(core: usize, pre: usize, suf: usize) -> Result<Own, (String, String)> {
    let text = format!("{}{}{}", PREFIX[pre], if core == 3 { big_core().as_str() } else { CORES[core] }, AFFIX[suf]);
    let ast = parse_ast(&text).map_err(|e| ("machinery:linksrc-parse".to_string(), format!("{text:?}: {e:?}")))?;
    let obj = assemble_debug(ast, &text).map_err(|e| ("machinery:linksrc-assemble".to_string(), format!("{text:?}: {e:?}")))?;
    let sym = obj.symbol_table().ok_or(("machinery:linksrc".to_string(), "no symbol table".to_string()))?;
    let si = sym.source_info().ok_or(("machinery:linksrc".to_string(), "no source info".to_string()))?;
    let mut lines: Vec<(u16, String)> = sym.line_iter().map(|(l, a)| (a, si.read_line(l).unwrap_or("").to_string())).collect();
    lines.sort();
    let mut labels: Vec<String> = sym.label_iter().map(|(n, _, _)| n.to_string()).collect();
    labels.sort(); // label_iter walks a hash map: details reported in violations must not depend on its order (replay discipline)
    Ok(Own { text, obj, lines, labels })
}

/// All failures of one case, tagged by property.
pub fn check(c: &Case) -> Vec<(&'static str, String, String)> {
    let mut out = vec![];
    let r = catch(|| -> Result<Vec<(&'static str, String, String)>, (String, String)> {
        let mut out = vec![];
        let owns: Vec<Own> = c.files.iter().map(|f| own(f.0, f.1, f.2)).collect::<Result<_, _>>()?;
        let what = format!("link ({}) of {:?}", if c.right { "right fold" } else { "left fold" }, owns.iter().map(|o| &o.text).collect::<Vec<_>>());
        let order: Vec<usize> = if c.right { (0..owns.len()).rev().collect() } else { (0..owns.len()).collect() };
        let mut acc: Option<ObjectFile> = None;
        for i in order {
            let o = owns[i].obj.clone();
            acc = Some(match acc.take() { None => o, Some(a) => { let r = if c.right { ObjectFile::link(o, a) } else { ObjectFile::link(a, o) }; r.map_err(|e| ("machinery:linksrc-link".to_string(), format!("{what}: {:?}", e.kind)))? } });
        }
        let linked = acc.unwrap();
        let mut objs = vec![("linked object", linked.clone())];
        if let Some(b) = BinaryFormat::deserialize(&BinaryFormat::serialize(&linked)) { objs.push(("binary round trip of the linked object", b)); }
        if let Some(t) = TextFormat::deserialize(&TextFormat::serialize(&linked)) { objs.push(("text round trip of the linked object", t)); }
        for (which, o) in &objs {
            let Some(sym) = o.symbol_table() else { out.push(("C22", "no-symbol-table".to_string(), format!("{what}: {which} has no symbol table"))); continue };
            let Some(si) = sym.source_info() else { out.push(("C22", "no-source".to_string(), format!("{what}: {which} has no source info"))); continue };
            let src = si.source();
            // C25: position queries consistent with the combined text
            if let Err((sig, d)) = super::c25::check_info(si, src) { out.push(("C25", format!("linked:{sig}"), format!("{what}: {which}: source {src:?}: {d}"))); }
            // C22 / C24: each member's statements keep their line text; the mapping stays one-to-one
            let mut n = 0;
            for ow in &owns { for (a, text) in &ow.lines {
                n += 1;
                match sym.rev_lookup_line(*a) {
                    None => { out.push(("C22", "line-lost".to_string(), format!("{what}: {which}: x{a:04X} ({text:?}) has no line"))); out.push(("C24", "linked:line-lost".to_string(), format!("{what}: {which}: x{a:04X} ({text:?}) has no line"))); }
                    Some(l) => {
                        let got = si.read_line(l);
                        if got != Some(text.as_str()) { for p in ["C22", "C24"] { out.push((p, "linked:line-text".to_string(), format!("{what}: {which}: x{a:04X} maps to line {l} which reads {got:?}; the statement stored there is {text:?}"))); } }
                        if sym.lookup_line(l) != Some(*a) { out.push(("C24", "linked:line-roundtrip".to_string(), format!("{what}: {which}: rev_lookup_line(x{a:04X}) = {l} but lookup_line({l}) = {:x?}", sym.lookup_line(l)))); }
                    }
                }
            } }
            let cnt = sym.line_iter().count();
            if cnt != n { out.push(("C24", "linked:line-count".to_string(), format!("{what}: {which}: line_iter yields {cnt} entries, the members have {n} statements"))); }
            // C22: label spans
            for ow in &owns { for name in &ow.labels {
                match sym.get_label_source(name) {
                    None => out.push(("C22", "label-source-none".to_string(), format!("{what}: {which}: get_label_source({name:?}) = None"))),
                    Some(sp) => { let t = src.get(sp.clone()); if !t.map(|t| t.eq_ignore_ascii_case(name)).unwrap_or(false) { out.push(("C22", "label-span".to_string(), format!("{what}: {which}: label {name} span {sp:?} covers {t:?}"))); } }
                }
            } }
        }
        // life cycle: a member is asked about an address / a label it does not have (the answer is "nothing") immediately before it is linked
        // with the file that has it; the very first question to the result is the same one
        if c.files.iter().all(|f| f.0 != 3) && owns.len() >= 2 {
            for (i, j) in [(0usize, 1usize), (1, 0)] { for as_left in [true, false] {
                for (x, text) in &owns[j].lines {
                    let asked = owns[i].obj.clone();
                    if let Some(s) = asked.symbol_table() { let _ = s.rev_lookup_line(*x); }
                    let l = if as_left { ObjectFile::link(asked, owns[j].obj.clone()) } else { ObjectFile::link(owns[j].obj.clone(), asked) };
                    let Ok(l) = l else { continue };
                    let (Some(sym), true) = (l.symbol_table(), true) else { continue };
                    let got = sym.rev_lookup_line(*x).and_then(|n| sym.source_info().and_then(|si| si.read_line(n)).map(|t| t.to_string()));
                    if got.as_deref() != Some(text.as_str()) { for p in ["C22", "C24"] { out.push((p, "asked-before-link:line".to_string(), format!("{what}: member {i} was asked rev_lookup_line(x{x:04X}) (not its address) and then linked ({}) with member {j}; the result's first answer for x{x:04X} reads {got:?}, member {j}'s line reads {text:?}", if as_left { "as left operand" } else { "as right operand" }))); } break; }
                }
                for name in &owns[j].labels {
                    let asked = owns[i].obj.clone();
                    if let Some(s) = asked.symbol_table() { let _ = s.get_label_source(name); let _ = s.lookup_label(name); }
                    let l = if as_left { ObjectFile::link(asked, owns[j].obj.clone()) } else { ObjectFile::link(owns[j].obj.clone(), asked) };
                    let Ok(l) = l else { continue };
                    let Some(sym) = l.symbol_table() else { continue };
                    let src = sym.source_info().map(|si| si.source().to_string()).unwrap_or_default();
                    let ok = sym.get_label_source(name).and_then(|sp| src.get(sp).map(|t| t.eq_ignore_ascii_case(name))).unwrap_or(false);
                    if !ok { out.push(("C22", "asked-before-link:label".to_string(), format!("{what}: member {i} was asked about label {name} (not its own) and then linked with member {j}; the result's first answer for its source span is {:?}", sym.get_label_source(name)))); break; }
                }
            } }
        }
        Ok(out)
    });
    match r { Ok(Ok(v)) => out.extend(v), Ok(Err((s, d))) => out.push(("ALL", s, d)), Err(p) => out.push(("ALL", format!("panic:{}", panic_site(&p)), format!("{c:?}: {p}"))) }
    out
}
pub fn run_for(ctx: &Ctx, rep: &mut Report, prop: &'static str) {
    let stride = ctx.pick(3u64, 1u64);
    let r = sweep(ctx, CASES / stride, 64, |j, acc| {
        let k = j * stride + (j % stride);
        let Some(c) = case(k) else { return };
        acc.evals += 1; acc.transitions += c.files.len() as u64; acc.nontrivial += 1; acc.count("linked_source_cases", 1);
        for (p, sig, d) in check(&c) { if p == prop || p == "ALL" { acc.violation(sig, c.encode(), d); } }
    });
    rep.absorb(r);
    let r = sweep(ctx, SCALE_CASES, 2, |j, acc| {
        let Some(c) = case(CASES + j) else { return };
        acc.evals += 1; acc.transitions += c.files.len() as u64; acc.nontrivial += 1; acc.count("linked_source_scale_cases", 1);
        for (p, sig, d) in check(&c) { if p == prop || p == "ALL" { acc.violation(sig, c.encode(), d); } }
    });
    rep.absorb(r);
    rep.bound("linked_source_cases", Json::i(CASES / stride));
}
pub fn replay_for(prop: &str, case: &str) -> Option<String> {
    let c = Case::decode(case)?;
    check(&c).into_iter().find(|(p, _, _)| *p == prop || *p == "ALL").map(|(_, s, d)| format!("[{s}] {d}"))
}
