//! C11 — built-in OS trap routines meet their contracts.
use super::osinfo::os_string;
use super::simcmp::*;
use crate::refs::isa::reg;
use crate::util::*;

#[derive(Clone, Copy, Debug, PartialEq, Eq)]
enum Trap { Getc, Out, Puts, In, Putsp, Halt }
const TRAPS: [(Trap, u16); 6] = [(Trap::Getc, 0xF020), (Trap::Out, 0xF021), (Trap::Puts, 0xF022), (Trap::In, 0xF023), (Trap::Putsp, 0xF024), (Trap::Halt, 0xF025)];
const REGSETS: [[u16; 8]; 3] = [[0x4000, 1, 2, 3, 4, 5, 0xFD00, 7], [0x4000, 0xFFFF, 0x8000, 0x7FFF, 0x3000, 0xFE00, 0x3800, 0x1234], [0x4000, 0x4000, 0x4001, 0, 0xFFFF, 0x00FF, 0xFDFF, 0x3000]];
const CCS: [u16; 3] = [0x8001, 0x8002, 0x8004];
/// (words with and without bit 15, with a zero low byte, with a non-zero high byte: PUTS prints the low byte of every word up to the first x0000 word)
const PUTS_SYM: [u16; 7] = [0x0041, 0x00FF, 0x0001, 0x0180, 0x4100, 0x8069, 0xFF42];
const PUTSP_SYM: [u8; 4] = [0x01, 0x41, 0x80, 0xFF];
const KB_SYM: [u8; 5] = [0x00, 0x41, 0xFF, 0x0D, 0x0A];
const STR_AT: u16 = 0x4000;

fn seq<T: Copy>(alpha: &[T], mut i: u64) -> Vec<T> {
    // all sequences shortest first: index 0 = empty
    let n = alpha.len() as u64; let mut len = 0u32;
    while i >= n.pow(len) { i -= n.pow(len); len += 1; }
    let mut v = vec![]; for _ in 0..len { v.push(alpha[(i % n) as usize]); i /= n; } v
}
fn seq_count(n: u64, maxlen: u32) -> u64 { (0..=maxlen).map(|l| n.pow(l)).sum() }

#[derive(Clone)]
struct Case { poison: u8, irq: Option<u64>, trap: Trap, word: u16, r0_low: u8, string_words: Vec<u16>, expected_out: Vec<u8>, kb: Vec<u8>, regset: usize, cc: usize, real: bool, ignore_priv: bool }

const ISR_AT: u16 = 0x1F00;
fn run_case(c: &Case) -> Result<u64, (String, String)> {
    let mut m = Machine::user();
    m.real_traps = c.real; m.ignore_priv = c.ignore_priv;
    m.regs = REGSETS[c.regset];
    if matches!(c.trap, Trap::Out) { m.regs[0] = (m.regs[1] & 0xFF00) | c.r0_low as u16; }
    m.psr = CCS[c.cc];
    m.kb = Some(c.kb.clone());
    m.pokes.push((0x3000, c.word)); m.pokes.push((0x3001, 0xF025));
    for (k, w) in c.string_words.iter().enumerate() { m.pokes.push((STR_AT + k as u16, *w)); }
    m.pokes.push((STR_AT + c.string_words.len() as u16, 0x0000));
    let mut what = format!("{:?} (real_traps={} ignore_privilege={}) regs#{} cc x{:04X} string {} keyboard {:x?}", c.trap, c.real, c.ignore_priv, c.regset, CCS[c.cc], if c.string_words.len() > 16 { format!("{} words starting {:x?}", c.string_words.len(), &c.string_words[..8]) } else { format!("{:x?}", c.string_words) }, c.kb);
    if let Some(i) = c.irq {
        // an interrupt service routine that uses the supervisor stack like any other (pushes R0, R1; pops them; RTI)
        static ISR: std::sync::OnceLock<Vec<(u16, u16)>> = std::sync::OnceLock::new();
        m.pokes.extend(ISR.get_or_init(|| super::c10::image(&super::c10::handler(ISR_AT, ""))).iter().copied());
        m.pokes.push((0x0190, ISR_AT));
        what += &format!(" with a priority-4 interrupt requested at instruction boundary {i}");
    }
    let reuse = c.poison >> 2;
    let mut p = if reuse == 0 { build(&m) } else { what += &format!(" [on a simulator reset() while in supervisor mode, prior use {reuse}]"); let (pm, steps) = supervisor_prior(&m, reuse); build_reused(&m, &pm, steps).map_err(|e| (format!("panic:{}", panic_site(&e)), format!("setting up a reused simulator: {e}")))? };
    if let Some(i) = c.irq { p.add_source(0x90, 4, vec![i]); }
    // a front-end thread died earlier while holding a buffer lock: the lock is poisoned but free, the devices must keep working
    if c.poison & 1 != 0 { poison_rwlock(&p.kb.get_buffer()); what += " [keyboard lock poisoned]"; }
    if c.poison & 2 != 0 { poison_rwlock(&p.disp.get_buffer()); what += " [display lock poisoned]"; }
    let regs0: Vec<u16> = (0..8).map(|i| p.sim.reg_file[reg(i)].get()).collect();
    let mem0: Vec<u16> = (0x3000..0xFE00u16).map(|a| p.sim.mem[a].get()).collect();
    // run until the instruction after the trap is about to execute (PC = x3001 in user mode) or the machine stops
    let mut steps = 0;
    let mut stopped = false;
    loop {
        let before = (p.sim.pc, p.sim.instructions_run);
        match catch(|| p.sim.step_in()) { Ok(Ok(())) => {}, Ok(Err(e)) => return Err(("trap-errors".into(), format!("{what}: {e:?} at pc x{:04X}", p.sim.prefetch_pc()))), Err(m) => return Err((format!("panic:{}", panic_site(&m)), format!("{what}: {m}"))) }
        steps += 1;
        if c.irq.is_some() && p.sim.instructions_run == before.1 && p.sim.pc == ISR_AT { p.sources[0].state.lock().unwrap_or_else(|e| e.into_inner()).pending = 0; } // request taken
        if p.sim.pc == 0x3001 && !p.sim.psr().privileged() { break; }
        if (p.sim.pc, p.sim.instructions_run) == before { stopped = true; break; } // virtual HALT parks the machine
        if c.real && !p.sim.mcr().load(std::sync::atomic::Ordering::Relaxed) && c.trap == Trap::Halt && steps > 3 { stopped = true; break; }
        if steps > 20_000 + 60 * c.expected_out.len() as u64 { return Err(("trap-does-not-return".into(), format!("{what}: no return after {steps} steps (pc x{:04X})", p.sim.pc))); }
    }
    let disp: Vec<u8> = { let g = p.disp.get_buffer().read().unwrap_or_else(|e| e.into_inner()); g.clone() };
    let kb_left: Vec<u8> = p.kb.get_buffer().read().unwrap_or_else(|e| e.into_inner()).iter().copied().collect();
    if c.trap == Trap::Halt {
        if !stopped { return Err(("halt-does-not-stop".into(), format!("{what}: execution continued past HALT"))); }
        return Ok(steps);
    }
    if stopped { return Err(("trap-stops-machine".into(), format!("{what}: machine stopped inside the trap"))); }
    if disp != c.expected_out { return Err((format!("output:{:?}", c.trap), if disp.len() > 64 || c.expected_out.len() > 64 { let at = disp.iter().zip(c.expected_out.iter()).position(|(a, b)| a != b).unwrap_or(disp.len().min(c.expected_out.len())); format!("{what}: display has {} bytes, expected {}; first difference at byte {at}", disp.len(), c.expected_out.len()) } else { format!("{what}: display {disp:x?}, expected {:x?}", c.expected_out) })); }
    let consumed = match c.trap { Trap::Getc | Trap::In => 1, _ => 0 };
    if kb_left != c.kb[consumed..] { return Err((format!("input-consumed:{:?}", c.trap), format!("{what}: keyboard queue left {kb_left:x?}, expected {:x?}", &c.kb[consumed..]))); }
    for i in 0..8 {
        let g = p.sim.reg_file[reg(i)].get();
        if i == 0 && consumed == 1 { if g != c.kb[0] as u16 { return Err((format!("return-value:{:?}", c.trap), format!("{what}: R0 = x{g:04X}, expected the byte x{:02X}", c.kb[0]))); } continue; }
        if g != regs0[i as usize] { return Err((format!("register-clobbered:{:?}:R{i}", c.trap), format!("{what}: R{i} = x{g:04X} after the trap, was x{:04X}", regs0[i as usize]))); }
    }
    let psr = p.sim.psr().get();
    if psr != CCS[c.cc] { return Err((format!("psr-changed:{:?}", c.trap), format!("{what}: PSR x{psr:04X} after the trap, was x{:04X} (condition codes / privilege / priority)", CCS[c.cc]))); }
    if let Some(a) = (0..mem0.len()).find(|a| p.sim.mem[0x3000 + *a as u16].get() != mem0[*a]) { return Err((format!("user-memory-changed:{:?}", c.trap), format!("{what}: mem[x{:04X}] changed", a + 0x3000))); }
    Ok(steps)
}

fn cases(ctx: &Ctx) -> Vec<Case> {
    let mut v = vec![];
    let prompt = os_string("S_IN_PROMPT");
    let kq = seq_count(5, 3);
    for (real, ignore_priv) in [(false, false), (true, false), (false, true), (true, true)] { for regset in 0..3 { for cc in 0..3 {
        if ignore_priv && regset != 0 && cc != 1 { continue; }
        // GETC / IN: every non-empty queue of length <=3
        for qi in 1..kq { let kb = seq(&KB_SYM, qi);
            v.push(Case { poison: 0, irq: None, trap: Trap::Getc, word: 0xF020, r0_low: 0, string_words: vec![], expected_out: vec![], kb: kb.clone(), regset, cc, real, ignore_priv });
            let mut out = prompt.clone(); out.push(kb[0]);
            v.push(Case { poison: 0, irq: None, trap: Trap::In, word: 0xF023, r0_low: 0, string_words: vec![], expected_out: out, kb, regset, cc, real, ignore_priv });
        }
        // OUT / PUTC: every low byte of a boundary set, with queued input that must stay untouched
        for b in [0x00u8, 0x01, 0x41, 0x7F, 0x80, 0xFF] { for kb in [vec![], vec![0x41u8, 0xFF]] {
            v.push(Case { poison: 0, irq: None, trap: Trap::Out, word: 0xF021, r0_low: b, string_words: vec![], expected_out: vec![b], kb, regset, cc, real, ignore_priv });
        } }
        // PUTS: every string of <=3 (thorough 4) symbols
        for si in 0..seq_count(7, ctx.pick(3, 4)) { let s = seq(&PUTS_SYM, si);
            v.push(Case { poison: 0, irq: None, trap: Trap::Puts, word: 0xF022, r0_low: 0, expected_out: s.iter().map(|w| *w as u8).collect(), string_words: s, kb: vec![0x41], regset, cc, real, ignore_priv });
        }
        // PUTSP: every byte string of <=4 (thorough 5) symbols, packed low byte first
        for si in 0..seq_count(4, ctx.pick(4, 5)) { let b = seq(&PUTSP_SYM, si);
            let words: Vec<u16> = b.chunks(2).map(|c| c[0] as u16 | (c.get(1).copied().unwrap_or(0) as u16) << 8).collect();
            v.push(Case { poison: 0, irq: None, trap: Trap::Putsp, word: 0xF024, r0_low: 0, expected_out: b.clone(), string_words: words, kb: vec![], regset, cc, real, ignore_priv });
        }
        // PUTSP with a zero byte inside a word (high byte zero ends the string; low byte zero ends it before the high byte)
        for w in [0x0041u16, 0x4100, 0x0000] { let exp: Vec<u8> = if w & 0xFF == 0 { vec![] } else { vec![w as u8] };
            v.push(Case { poison: 0, irq: None, trap: Trap::Putsp, word: 0xF024, r0_low: 0, expected_out: exp, string_words: vec![w, 0x4242], kb: vec![], regset, cc, real, ignore_priv });
        }
        v.push(Case { poison: 0, irq: None, trap: Trap::Halt, word: 0xF025, r0_low: 0, string_words: vec![], expected_out: vec![], kb: vec![0x41], regset, cc, real, ignore_priv });
    } } }
    // scale: output past 2^15 and 2^16 bytes in one call (PUTSP of a packed string of 32767 .. 70001 characters; PUTS of 32768 and 40000 words)
    for real in [false, true] {
        for n in [32767usize, 32768, 65535, 65536, 65537, 70001] {
            let b: Vec<u8> = (0..n).map(|k| 0x41 + (k % 26) as u8).collect();
            let words: Vec<u16> = b.chunks(2).map(|c| c[0] as u16 | (c.get(1).copied().unwrap_or(0) as u16) << 8).collect();
            v.push(Case { poison: 0, irq: None, trap: Trap::Putsp, word: 0xF024, r0_low: 0, expected_out: b, string_words: words, kb: vec![], regset: 0, cc: 1, real, ignore_priv: false });
        }
        for n in [32768usize, 40000] {
            let s: Vec<u16> = (0..n).map(|k| 0x0100 | (0x61 + (k % 26) as u16)).collect();
            v.push(Case { poison: 0, irq: None, trap: Trap::Puts, word: 0xF022, r0_low: 0, expected_out: s.iter().map(|w| *w as u8).collect(), string_words: s, kb: vec![0x41], regset: 0, cc: 1, real, ignore_priv: false });
        }
    }
    // the same contracts with one interrupt taken at every instruction boundary of the call (the OS routines share the supervisor
    // stack with interrupt entry and the ISR): quick: regs#0, cc Z, short arguments; thorough: every regset
    let mut w = vec![];
    for c in &v {
        if c.string_words.len() > 1000 { continue; }
        let short = match c.trap { Trap::Getc | Trap::In => c.kb.len() == 1 && c.kb[0] == 0x41, Trap::Out => c.r0_low == 0x41 && c.kb.is_empty(), Trap::Puts => c.string_words == [0x0041, 0x00FF], Trap::Putsp => c.string_words == [0x4101, 0x0080] || c.string_words == [0x4141], Trap::Halt => false };
        // life cycle: the call on a simulator that was used before and reset() while in supervisor mode (bits 2-3 of `poison` = kind of prior use)
        if (short || matches!(c.trap, Trap::Halt)) && !c.ignore_priv && c.cc == 1 && c.regset == 0 { for kind in 1..=2u8 { let mut d = c.clone(); d.poison = kind << 2; w.push(d); } }
        if !short || c.ignore_priv || c.cc != 1 || (c.regset != 0 && !ctx.thorough()) { continue; }
        let Ok(n) = run_case(c) else { continue };
        for i in 0..n { let mut d = c.clone(); d.irq = Some(i); w.push(d); }
        if c.regset == 0 { for poison in 1..=3u8 { let mut d = c.clone(); d.poison = poison; w.push(d); } }
    }
    v.extend(w);
    v
}

pub fn run(ctx: &Ctx) -> Report {
    let mut rep = Report::new("each of GETC, OUT/PUTC, PUTS, IN, PUTSP, HALT called from user code at x3000 under virtual and real traps, with and without ignore_privilege (the caller stays in user mode) x 3 register presets x 3 condition codes; GETC/IN: every keyboard queue of length 1-3 over {x00,x41,xFF}; OUT: 6 boundary bytes with and without queued input; PUTS: every string of <=3 (thorough 4) words over {x0041,x00FF,x0001,x0180,x4100}; PUTSP: every byte string of <=4 (thorough 5) over {x01,x41,x80,xFF} packed (odd and even lengths) plus zero-byte-inside-word cases. Oracle: display bytes, R0, input consumed, every other register, PSR (CC, privilege, priority) and all of user memory x3000-xFDFF; HALT stops; (S) the short-argument calls again with one priority-4 interrupt (ISR pushing and popping two registers on the supervisor stack) taken at every instruction boundary of the call, same contract; the short-argument calls also with the keyboard and/or display buffer lock poisoned beforehand (a front-end thread died holding it); the IN prompt is read from the OS image's symbol table. non-trivial = every case");
    let cs = cases(ctx);
    let r = sweep(ctx, cs.len() as u64, 4, |i, acc| {
        let c = &cs[i as usize];
        acc.evals += 1; acc.transitions += 30; acc.traces += 1; acc.nontrivial += 1; acc.count(&format!("{:?}", c.trap), 1); if c.irq.is_some() { acc.count("with_interrupt", 1); } if c.poison & 3 != 0 { acc.count("with_poisoned_lock", 1); } if c.poison >> 2 != 0 { acc.count("on_reused_simulator", 1); }
        acc.outcomes.insert(fnv(&c.expected_out) ^ c.trap as u64);
        acc.sample(i, ctx.seed, 501, || format!("{:?} real={} string {:x?} keyboard {:x?}", c.trap, c.real, c.string_words, c.kb));
        if let Err((sig, d)) = run_case(c) { acc.violation(sig, i.to_string() + if ctx.thorough() { ":t" } else { ":q" }, d); }
    });
    rep.absorb(r);
    rep.bound("cases", Json::i(cs.len() as u64));
    rep.require(rep.acc.outcomes.len() > 100, "many distinct outputs expected");
    rep.require(rep.acc.get("with_interrupt") > 200, "calls interrupted at every instruction boundary were judged");
    rep
}
pub fn replay(case: &str) -> Option<String> {
    let (i, t) = case.split_once(':')?;
    let ctx = Ctx { id: "C11".into(), tier: if t == "t" { Tier::Thorough } else { Tier::Quick }, seed: 0, start: std::time::Instant::now(), cap: std::time::Duration::from_secs(60), threads: 1 };
    let cs = cases(&ctx);
    run_case(cs.get(i.parse::<usize>().ok()?)?).err().map(|(s, d)| format!("[{s}] {d}"))
}
