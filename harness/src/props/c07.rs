//! C07 — every word disassembles to text that reassembles to the same word (all words × 5 origins).
use crate::util::*;
use lc3_ensemble::asm::{assemble, assemble_debug};
use lc3_ensemble::ast::asm::disassemble_line;
use lc3_ensemble::parse::parse_ast;

const ORIGINS: [u16; 5] = [0x0000, 0x01FF, 0x3000, 0x8000, 0xFDFF];

fn expected_alias(w: u16) -> Option<&'static [&'static str]> {
    match w {
        0xC1C0 => Some(&["RET"]),
        0xF020 => Some(&["GETC"]),
        0xF021 => Some(&["PUTC", "OUT"]),
        0xF022 => Some(&["PUTS"]),
        0xF023 => Some(&["IN"]),
        0xF024 => Some(&["PUTSP"]),
        0xF025 => Some(&["HALT"]),
        _ => None,
    }
}

/// the ways a caller can print a statement: plain, and with a width / alignment / sign / zero-padding / alternate / precision in the format spec
/// (listings are usually printed in columns)
const SPECS: usize = 9;
fn print_with(w: u16, spec: usize) -> String {
    let s = disassemble_line(w);
    match spec { 0 => format!("{s}"), 1 => format!("{s:24}"), 2 => format!("{s:>24}"), 3 => format!("{s:^24}"), 4 => format!("{s:+}"), 5 => format!("{s:08}"), 6 => format!("{s:#}"), 7 => format!("{s:.3}"), _ => format!("{s:<+#012.2}") }
}
fn check(w: u16, origin: u16, debug: bool) -> Option<(String, String)> { check_spec(w, origin, debug, 0) }
fn check_spec(w: u16, origin: u16, debug: bool, spec: usize) -> Option<(String, String)> {
    let r = catch(|| {
        let text = print_with(w, spec);
        let text = if spec == 0 { text } else { text.trim().to_string() };
        let src = format!(".orig x{origin:04X}\n{text}\n.end\n");
        let ast = match parse_ast(&src) { Ok(a) => a, Err(e) => return Err((format!("reparse:{}", text.split(' ').next().unwrap_or("")), format!("{w:#06x} prints as `{text}` which does not parse: {e:?}"))) };
        let obj = if debug { assemble_debug(ast, &src) } else { assemble(ast) };
        let obj = match obj { Ok(o) => o, Err(e) => return Err((format!("reassemble:{}", text.split(' ').next().unwrap_or("")), format!("{w:#06x} prints as `{text}` which does not assemble at x{origin:04X}: {:?}", e.kind))) };
        let img: Vec<(u16, Option<u16>)> = obj.addr_iter().collect();
        if img != vec![(origin, Some(w))] {
            return Err((format!("different-word:{}", text.split(' ').next().unwrap_or("")), format!("{w:#06x} prints as `{text}` which assembles at x{origin:04X} to {img:x?}")));
        }
        let is_instr = crate::refs::isa::decode(w).is_ok() && w >= 0x0200;
        let fill = text.to_ascii_lowercase().starts_with(".fill");
        if !is_instr && !fill { return Err(("nonfill".into(), format!("{w:#06x} is below x0200 or not an instruction but prints as `{text}`"))); }
        if is_instr && fill { return Err(("fill-for-instr".into(), format!("{w:#06x} is an instruction but prints as `{text}`"))); }
        if let Some(names) = expected_alias(w) {
            if !names.iter().any(|n| text.eq_ignore_ascii_case(n)) { return Err(("alias".into(), format!("{w:#06x} should print as one of {names:?}, prints `{text}`"))); }
        }
        Ok(())
    });
    match r { Ok(Ok(())) => None, Ok(Err(e)) => Some(e), Err(p) => Some((format!("panic:{}", panic_site(&p)), format!("{w:#06x} at x{origin:04X}: panic {p}"))) }
}

pub fn run(ctx: &Ctx) -> Report {
    let mut rep = Report::new("every 16-bit word x 5 origins (x debug symbols on/off in thorough): disassemble, print, parse, assemble, compare the image; non-trivial = word decodes to an instruction (not a .fill)");
    let dbg_variants = ctx.pick(1u64, 2u64);
    let n = 65536 * 5 * dbg_variants;
    let r = sweep(ctx, n, 2048, |i, acc| {
        let w = (i % 65536) as u16; let o = ORIGINS[((i / 65536) % 5) as usize]; let debug = i / (65536 * 5) == 1;
        acc.evals += 1; acc.transitions += 3;
        if crate::refs::isa::decode(w).is_ok() && w >= 0x200 { acc.nontrivial += 1; }
        acc.outcomes.insert(mix((w >> 12) as u64, (crate::refs::isa::decode(w).is_ok() && w >= 0x200) as u64));
        acc.sample(i, ctx.seed, 70001, || format!("word {w:#06x} at x{o:04X} -> `{}`", disassemble_line(w)));
        if let Some((sig, d)) = check(w, o, debug) { acc.violation(sig, format!("{w}:{o}:{}", debug as u8), d); }
    });
    rep.absorb(r);
    // every word printed under 8 non-default format specs: the printed text (less surrounding blanks) goes through the same judgement unless it
    // is the default text (which the sweep above has judged)
    let r = sweep(ctx, 65536 * (SPECS as u64 - 1), 2048, |i, acc| {
        let (w, spec) = ((i % 65536) as u16, (i / 65536) as usize + 1);
        acc.evals += 1; acc.transitions += 1; acc.count("printed_with_format_spec", 1);
        let same = catch(|| print_with(w, spec).trim() == print_with(w, 0)).unwrap_or(false);
        if same { return; }
        acc.count("format_spec_changes_text", 1);
        if let Some((sig, d)) = check_spec(w, 0x3000, false, spec) { acc.violation(format!("spec{spec}:{sig}"), format!("f:{w}:{spec}"), format!("printed with format spec #{spec}: {d}")); }
    });
    rep.absorb(r);
    // the slice form `disassemble(&[u16])` must give, position by position, what `disassemble_line` gives (which the sweep above judges):
    // slices of 0, 1, 255, 256, 257 words, one full memory image, and three images back to back (196608 words, every word thrice)
    for (k, len) in [0usize, 1, 255, 256, 257, 65535, 65536, 65537, 3 * 65536].iter().enumerate() {
        rep.acc.evals += 1; rep.acc.transitions += *len as u64; rep.acc.count("slice_cases", 1);
        if let Some((sig, d)) = check_slice(*len) { rep.acc.violation(sig, format!("slice:{k}"), d); }
    }
    rep.bound("words", Json::s("all 65536")); rep.bound("origins", Json::s("x0000 x01FF x3000 x8000 xFDFF"));
    rep.require(rep.acc.outcomes.len() >= 20, ".fill and instruction classes both seen for several opcodes");
    rep
}
const SLICE_LENS: [usize; 9] = [0, 1, 255, 256, 257, 65535, 65536, 65537, 3 * 65536];
fn slice_word(i: usize, len: usize) -> u16 { if len > 65537 && i < 65536 { 0 } else { (i as u32).wrapping_mul(if len % 2 == 0 { 1 } else { 40503 }) as u16 } }
fn check_slice(len: usize) -> Option<(String, String)> {
    let words: Vec<u16> = (0..len).map(|i| slice_word(i, len)).collect();
    match catch(|| lc3_ensemble::ast::asm::disassemble(&words)) {
        Err(p) => Some((format!("panic:{}", panic_site(&p)), format!("disassemble of {len} words panicked: {p}"))),
        Ok(v) => {
            if v.len() != len { return Some(("slice:length".into(), format!("disassemble of {len} words returned {} statements", v.len()))); }
            for (i, s) in v.iter().enumerate() {
                let exp = disassemble_line(words[i]);
                if format!("{s}") != format!("{exp}") { return Some(("slice:differs-from-line-form".into(), format!("disassemble of {len} words: position {i} (word x{:04X}) gives `{s}`, disassemble_line gives `{exp}`", words[i]))); }
            }
            None
        }
    }
}
pub fn replay(case: &str) -> Option<String> {
    if let Some(k) = case.strip_prefix("slice:") { return check_slice(*SLICE_LENS.get(k.parse::<usize>().ok()?)?).map(|x| x.1); }
    let p: Vec<&str> = case.split(':').collect();
    if p[0] == "f" { return check_spec(p.get(1)?.parse().ok()?, 0x3000, false, p.get(2)?.parse().ok()?).map(|x| x.1); }
    check(p.first()?.parse().ok()?, p.get(1)?.parse().ok()?, p.get(2).map(|x| *x == "1").unwrap_or(false)).map(|x| x.1)
}
