//! C33 — keyboard and display deliver bytes exactly once under lock contention (schedule enumeration over try-lock answers).
use super::simcmp::*;
use crate::refs::lc3::Outcome;
use crate::util::*;
use lc3_ensemble::asm::assemble;
use lc3_ensemble::parse::parse_ast;
use lc3_ensemble::verif;
use std::cell::RefCell;
use std::rc::Rc;
use std::sync::OnceLock;

pub const SIG_KB: &str = "keyboard:KBDR-read-while-held:stale";
pub const SIG_DISP: &str = "display:DDR-write-while-held:dropped";
const HORIZON: usize = 4000;

/// echo programs; `{N}` is replaced by the number of bytes to process
const PROGS: [&str; 4] = [
    // 0: GETC/OUT echo loop, received bytes recorded in BUF
    ".orig x3000\nLEA R1, BUF\nLD R2, N\nLOOP GETC\nOUT\nSTR R0,R1,#0\nADD R1,R1,#1\nADD R2,R2,#-1\nBRp LOOP\nHALT\nN .fill {N}\nBUF .blkw 8\n.end",
    // 1: GETC x N into BUF, then PUTS
    ".orig x3000\nLEA R1, BUF\nLD R2, N\nLOOP GETC\nSTR R0,R1,#0\nADD R1,R1,#1\nADD R2,R2,#-1\nBRp LOOP\nLEA R0, BUF\nPUTS\nHALT\nN .fill {N}\nBUF .blkw 8\n.end",
    // 2: supervisor-mode polling loop on KBSR/KBDR and DSR/DDR (no OS)
    ".orig x3000\nLEA R1, BUF\nLD R2, N\nLOOP LDI R0, KBSRP\nBRzp LOOP\nLDI R0, KBDRP\nSTR R0,R1,#0\nADD R1,R1,#1\nW LDI R3, DSRP\nBRzp W\nSTI R0, DDRP\nADD R2,R2,#-1\nBRp LOOP\nHALT\nN .fill {N}\nKBSRP .fill xFE00\nKBDRP .fill xFE02\nDSRP .fill xFE04\nDDRP .fill xFE06\nBUF .blkw 8\n.end",
    // 3: output only: OUT of three fixed bytes (N ignored)
    ".orig x3000\nLD R0, A\nOUT\nLD R0, B\nOUT\nLD R0, C\nOUT\nHALT\nA .fill x41\nB .fill x42\nC .fill x43\nBUF .blkw 8\n.end",
];
struct Img { words: Vec<(u16, u16)>, buf: u16 }
fn img(prog: usize, n: usize) -> Img {
    static CACHE: OnceLock<std::sync::Mutex<std::collections::BTreeMap<(usize, usize), (Vec<(u16, u16)>, u16)>>> = OnceLock::new();
    let c = CACHE.get_or_init(Default::default);
    let mut g = c.lock().unwrap_or_else(|e| e.into_inner());
    let e = g.entry((prog, n)).or_insert_with(|| {
        let src = PROGS[prog].replace("{N}", &n.to_string());
        let o = lc3_ensemble::asm::assemble_debug(parse_ast(&src).expect("parses"), &src).expect("assembles");
        let buf = o.symbol_table().unwrap().lookup_label("BUF").unwrap();
        let _ = assemble; // (kept for symmetry with other engines)
        (o.addr_iter().map(|(a, w)| (a, w.unwrap_or(0))).collect(), buf)
    });
    Img { words: e.0.clone(), buf: e.1 }
}

/// Holder action before a step: 0 none, 1 hold keyboard, 2 hold display, 3 hold keyboard and append a byte on release, 4 hold display and drain it on release,
/// 5 / 6: hold keyboard / display as a reader (shared guard, e.g. a front end rendering the buffer),
/// 7 / 8: the holder of the keyboard / display lock dies while holding it just before the step (the lock is poisoned and free),
/// 9: a device requests a priority-4 interrupt at this step (ISR: push R0, clobber, pop, RTI) — interrupt entry shares the supervisor stack with the OS routines
type Sched = Vec<(u32, u8)>;

struct Obs { received: Vec<u8>, output_expected: Vec<u8>, shown: Vec<u8>, sent: Vec<u8>, steps: usize, halted: bool, stale: u64, dropped: u64, unwaited: (u64, u64) }

fn machine(prog: usize, init: &[u8], total: usize) -> (Machine, u16) {
    let im = img(prog, total);
    let mut m = Machine::user();
    if prog == 2 { m.psr = 0x0002; m.saved_sp = 0xFD00; }
    m.regs = [0, 0, 0, 0, 0, 0, 0xFD00, 0];
    m.kb = Some(init.to_vec());
    m.pokes.extend(im.words.iter().copied());
    for (k, w) in [0x1DBFu16, 0x7180, 0x5020, 0x6180, 0x1DA1, 0x8000].iter().enumerate() { m.pokes.push((0x1F00 + k as u16, *w)); }
    m.pokes.push((0x0190, 0x1F00));
    (m, im.buf)
}

/// Boundary mode: holds cover whole steps; lock-step with RefLC3 (which folds the two known findings in exactly).
fn run_boundary(prog: usize, init: &[u8], sched: &Sched) -> Result<Obs, (String, String)> {
    let appends = sched.iter().filter(|s| s.1 == 3).count();
    let total = if prog == 3 { 3 } else { init.len() + appends };
    let (m, buf) = machine(prog, init, total);
    let mut p = build(&m);
    let irqs: Vec<u64> = sched.iter().filter(|s| s.1 == 9).map(|s| s.0 as u64).collect();
    if !irqs.is_empty() { p.add_source(0x90, 4, irqs); }
    let what = if sched.len() > 24 { format!("program {prog} input {init:x?} schedule of {} acting boundaries from step {} to {} (action {})", sched.len(), sched[0].0, sched[sched.len() - 1].0, sched[0].1) } else { format!("program {prog} input {init:x?} schedule {sched:?}") };
    let mut sent: Vec<u8> = init.to_vec(); let mut drained: Vec<u8> = vec![];
    let mut next_byte = b'p';
    let mut halted = false; let mut steps = 0usize;
    let acts: std::collections::HashMap<u32, u8> = sched.iter().copied().collect();
    let horizon = HORIZON.max(sched.iter().map(|s| s.0 as usize).max().unwrap_or(0) + HORIZON);
    for k in 0..horizon {
        let act = acts.get(&(k as u32)).copied().unwrap_or(0);
        if act == 7 { poison_rwlock(&p.kb.get_buffer()); }
        if act == 8 { poison_rwlock(&p.disp.get_buffer()); }
        p.hold_kb = act == 1 || act == 3 || act == 5; p.hold_disp = act == 2 || act == 4 || act == 6; p.hold_read = act == 5 || act == 6;
        let info = step_compare(&mut p, false).map_err(|(s, d)| (s, format!("{what}: step {k}: {d}")))?;
        p.hold_kb = false; p.hold_disp = false; p.hold_read = false;
        steps += 1;
        if act == 3 { p.kb.get_buffer().write().unwrap_or_else(|e| e.into_inner()).push_back(next_byte); p.rf.kb_queue.push_back(next_byte); sent.push(next_byte); next_byte += 1; }
        if act == 4 { let mut g = p.disp.get_buffer().write().unwrap_or_else(|e| e.into_inner()); drained.extend(g.drain(..)); p.rf.disp.clear(); }
        match info.outcome { Outcome::Halt => { halted = true; break; } Outcome::Err(e) => return Err(("program-faults".into(), format!("{what}: {e:?}"))), _ => {} }
    }
    let n_recv = total.min(8);
    let received: Vec<u8> = (0..n_recv).map(|i| p.sim.mem[buf + i as u16].get() as u8).collect();
    let mut shown = drained; shown.extend(p.disp.get_buffer().read().unwrap_or_else(|e| e.into_inner()).iter());
    let output_expected = expected_output(prog, &received);
    Ok(Obs { received, output_expected, shown, sent, steps, halted, stale: p.rf.stale_kbdr_reads, dropped: p.rf.dropped_ddr_writes, unwaited: (p.rf.unwaited_stale_kbdr_reads, p.rf.unwaited_dropped_ddr_writes) })
}

/// What the program outputs given what it received: programs 0 and 2 echo every byte, program 1 PUTSes its buffer (stops at a zero), program 3 prints ABC.
fn expected_output(prog: usize, received: &[u8]) -> Vec<u8> {
    match prog { 3 => vec![0x41, 0x42, 0x43], 1 => received.iter().copied().take_while(|b| *b != 0).collect(), _ => received.to_vec() }
}
/// Verdict for one schedule: Ok(known signatures exhibited) or Err(violation)
fn judge(prog: usize, o: &Obs, what: &str, coincided_kb: bool, coincided_disp: bool) -> Result<Vec<&'static str>, (String, String)> {
    let mut known = vec![];
    if !o.halted {
        return Err(("program-starved".into(), format!("{what}: the program did not finish within {HORIZON} steps (received {:x?} of {:x?})", o.received, o.sent)));
    }
    if prog != 3 && o.received != o.sent {
        if coincided_kb { known.push(SIG_KB); }
        else { return Err(("input-not-exactly-once".into(), format!("{what}: program received {:x?}, queued input was {:x?} (no KBDR read coincided with a held keyboard lock)", o.received, o.sent))); }
    }
    if o.shown != o.output_expected {
        if coincided_disp { known.push(SIG_DISP); }
        else { return Err(("output-not-exactly-once".into(), format!("{what}: display shows {:x?}, program output {:x?} (no DDR write coincided with a held display lock)", o.shown, o.output_expected))); }
    }
    Ok(known)
}

fn check_boundary(prog: usize, init: &[u8], sched: &Sched) -> Result<(usize, Vec<&'static str>), (String, String)> {
    let o = run_boundary(prog, init, sched)?;
    let what = format!("program {prog} input {init:x?} schedule {sched:?}");
    // a data access under a held lock that was NOT preceded by a successful readiness poll is not one of the listed findings:
    // the routine did not wait for KBSR/DSR for this byte
    if o.unwaited.1 > 0 && o.shown != o.output_expected { return Err(("output-lost:DDR-written-without-waiting-for-DSR".into(), format!("{what}: display shows {:x?}, program output {:x?}; {} DDR write(s) were made under a held display lock without a preceding ready DSR poll", o.shown, o.output_expected, o.unwaited.1))); }
    if o.unwaited.0 > 0 && o.received != o.sent { return Err(("input-wrong:KBDR-read-without-waiting-for-KBSR".into(), format!("{what}: received {:x?}, queued {:x?}; {} KBDR read(s) were made under a held keyboard lock without a preceding ready KBSR poll", o.received, o.sent, o.unwaited.0))); }
    let k = judge(prog, &o, &what, o.stale > 0, o.dropped > 0)?;
    Ok((o.steps, k))
}

// ---------------------------------------------------------------- attempt mode (hook H3): holds cover single lock attempts

struct AttemptCtl { idx: u32, held: Vec<u32>, kb: std::sync::Arc<std::sync::RwLock<std::collections::VecDeque<u8>>>, disp: std::sync::Arc<std::sync::RwLock<Vec<u8>>>,
    gk: Option<std::sync::RwLockWriteGuard<'static, std::collections::VecDeque<u8>>>, gd: Option<std::sync::RwLockWriteGuard<'static, Vec<u8>>>, held_kb_this_step: bool, held_disp_this_step: bool, attempts_this_step: u32 }
impl AttemptCtl {
    fn release(&mut self) { self.gk = None; self.gd = None; }
}
/// Runs program `prog` with the lock held exactly at the lock attempts listed in `held` (global attempt indices). No reference model:
/// judged end-to-end by the property, with the known findings recognised by coincidence (held attempt during a step that reads KBDR / writes DDR).
fn run_attempts(prog: usize, init: &[u8], held: &[u32]) -> Result<(Obs, bool, bool, u32), (String, String)> {
    let total = if prog == 3 { 3 } else { init.len() };
    let (m, buf) = machine(prog, init, total);
    let mut p = build(&m);
    let what = format!("program {prog} input {init:x?} held attempts {held:?}");
    let ctl = Rc::new(RefCell::new(AttemptCtl { idx: 0, held: held.to_vec(), kb: p.kb.get_buffer().clone(), disp: p.disp.get_buffer().clone(), gk: None, gd: None, held_kb_this_step: false, held_disp_this_step: false, attempts_this_step: 0 }));
    let c2 = ctl.clone();
    verif::set_lock_probe(Some(Box::new(move |dev| {
        let mut c = c2.borrow_mut();
        c.release();
        let i = c.idx; c.idx += 1; c.attempts_this_step += 1;
        if c.held.contains(&i) {
            // SAFETY: the guard borrows the RwLock inside an Arc that `ctl` keeps alive for longer than the guard (guards are dropped in `release` / before `ctl`).
            match dev {
                verif::Device::Keyboard => { let g = c.kb.write().unwrap_or_else(|e| e.into_inner()); let g: std::sync::RwLockWriteGuard<'static, _> = unsafe { std::mem::transmute(g) }; c.gk = Some(g); c.held_kb_this_step = true; }
                verif::Device::Display => { let g = c.disp.write().unwrap_or_else(|e| e.into_inner()); let g: std::sync::RwLockWriteGuard<'static, _> = unsafe { std::mem::transmute(g) }; c.gd = Some(g); c.held_disp_this_step = true; }
            }
        }
    })));
    let mut coincided_kb = false; let mut coincided_disp = false;
    let mut halted = false; let mut steps = 0usize;
    let mut result: Result<(), (String, String)> = Ok(());
    for _ in 0..HORIZON {
        // classify the coming step from the pre-state: does it read KBDR / write DDR?
        let pc = p.sim.pc; let w = if pc < 0xFE00 { p.sim.mem[pc].get() } else { 0 };
        let (reads_kbdr, writes_ddr) = classify(&p, w);
        { let mut c = ctl.borrow_mut(); c.held_kb_this_step = false; c.held_disp_this_step = false; c.attempts_this_step = 0; }
        let before = (p.sim.pc, p.sim.instructions_run);
        let r = catch(|| p.sim.step_in());
        { let mut c = ctl.borrow_mut(); c.release(); if reads_kbdr && c.held_kb_this_step { coincided_kb = true; } if writes_ddr && c.held_disp_this_step { coincided_disp = true; } }
        steps += 1;
        match r { Err(m) => { result = Err((format!("panic:{}", panic_site(&m)), format!("{what}: {m}"))); break; } Ok(Err(e)) => { result = Err(("program-faults".into(), format!("{what}: {e:?}"))); break; } Ok(Ok(())) => {} }
        if (p.sim.pc, p.sim.instructions_run) == before && p.sim.mem[p.sim.pc].get() == 0xF025 { halted = true; break; }
    }
    verif::set_lock_probe(None);
    let attempts = ctl.borrow().idx;
    ctl.borrow_mut().release();
    result?;
    let received: Vec<u8> = (0..total.min(8)).map(|i| p.sim.mem[buf + i as u16].get() as u8).collect();
    let shown: Vec<u8> = p.disp.get_buffer().read().unwrap_or_else(|e| e.into_inner()).clone();
    let output_expected = expected_output(prog, &received);
    Ok((Obs { received, output_expected, shown, sent: init.to_vec(), steps, halted, stale: 0, dropped: 0, unwaited: (0, 0) }, coincided_kb, coincided_disp, attempts))
}
fn classify(p: &Pair, w: u16) -> (bool, bool) {
    use crate::refs::isa::{decode, reg, RI};
    let npc = p.sim.pc.wrapping_add(1);
    let r = |n: u8| p.sim.reg_file[reg(n)].get();
    match decode(w) {
        Ok(RI::Ldi { off, .. }) => (p.sim.mem[npc.wrapping_add(off as u16)].get() == 0xFE02, false),
        Ok(RI::Ldr { base, off, .. }) => (r(base).wrapping_add(off as u16) == 0xFE02, false),
        Ok(RI::Ld { off, .. }) => (npc.wrapping_add(off as u16) == 0xFE02, false),
        Ok(RI::Sti { off, .. }) => (false, p.sim.mem[npc.wrapping_add(off as u16)].get() == 0xFE06),
        Ok(RI::Str { base, off, .. }) => (false, r(base).wrapping_add(off as u16) == 0xFE06),
        Ok(RI::St { off, .. }) => (false, npc.wrapping_add(off as u16) == 0xFE06),
        _ => (false, false),
    }
}
fn check_attempts(prog: usize, init: &[u8], held: &[u32]) -> Result<(usize, Vec<&'static str>, u32), (String, String)> {
    let (o, ck, cd, attempts) = run_attempts(prog, init, held)?;
    let what = format!("program {prog} input {init:x?} held lock attempts {held:?}");
    let k = judge(prog, &o, &what, ck, cd)?;
    Ok((o.steps, k, attempts))
}

/// scale: one uninterrupted hold of `len` steps (tens of thousands of consecutive busy polls) starting at step `start`
fn check_long_hold(prog: usize, init: &[u8], start: u32, len: u32, act: u8) -> Result<(usize, Vec<&'static str>), (String, String)> {
    let sched: Sched = (start..start + len).map(|k| (k, act)).collect();
    let o = run_boundary(prog, init, &sched)?;
    let what = format!("program {prog} input {init:x?}: the {} lock held {} for {len} consecutive steps from step {start}", if act % 2 == 1 { "keyboard" } else { "display" }, if act >= 5 { "by a reader" } else { "exclusively" });
    if !o.halted { return Err(("program-starved".into(), format!("{what}: the program did not finish after the lock was released"))); }
    if o.unwaited.1 > 0 && o.shown != o.output_expected { return Err(("output-lost:DDR-written-without-waiting-for-DSR".into(), format!("{what}: display shows {:x?}, program output {:x?}", o.shown, o.output_expected))); }
    if o.unwaited.0 > 0 && o.received != o.sent { return Err(("input-wrong:KBDR-read-without-waiting-for-KBSR".into(), format!("{what}: received {:x?}, queued {:x?}", o.received, o.sent))); }
    let k = judge(prog, &o, &what, o.stale > 0, o.dropped > 0)?;
    Ok((o.steps, k))
}
/// Life cycle: the simulator ran `prior` steps of the same program, then `reset()` was called while another thread held a buffer lock (`hold`,
/// see `build_reused_held`); the front end then queues the input of the next run, which must receive every byte once and in order.
fn check_reset_under_hold(prog: usize, init: &[u8], prior: u32, hold: u8) -> Result<(usize, Vec<&'static str>), (String, String)> {
    let total = if prog == 3 { 3 } else { init.len() };
    let (m, buf) = machine(prog, init, total);
    let mut p = build_reused_held(&m, &m, prior, hold).map_err(|e| (format!("panic:{}", panic_site(&e)), format!("setting up a reused simulator: {e}")))?;
    let what = format!("program {prog} input {init:x?} on a simulator that ran {prior} steps and was reset() while another thread held {}", ["no lock", "the keyboard lock", "the display lock", "the keyboard lock as a reader", "the display lock as a reader", "both locks"][hold as usize]);
    let mut halted = false; let mut steps = 0usize;
    for k in 0..HORIZON {
        let info = step_compare(&mut p, false).map_err(|(s, d)| (s, format!("{what}: step {k}: {d}")))?;
        steps += 1;
        match info.outcome { Outcome::Halt => { halted = true; break; } Outcome::Err(e) => return Err(("program-faults".into(), format!("{what}: {e:?}"))), _ => {} }
    }
    let received: Vec<u8> = (0..total.min(8)).map(|i| p.sim.mem[buf + i as u16].get() as u8).collect();
    let shown: Vec<u8> = p.disp.get_buffer().read().unwrap_or_else(|e| e.into_inner()).iter().copied().collect();
    let o = Obs { output_expected: expected_output(prog, &received), received, shown, sent: init.to_vec(), steps, halted, stale: 0, dropped: 0, unwaited: (0, 0) };
    if !o.halted { return Err(("program-starved".into(), format!("{what}: the program did not finish (received {:x?} of {:x?})", o.received, o.sent))); }
    let k = judge(prog, &o, &what, false, false)?;
    Ok((o.steps, k))
}
const LONG_HOLDS: [u32; 5] = [300, 32768, 65535, 70000, 140000];

// ---------------------------------------------------------------- enumeration

/// (bytes with and without bit 7, a repeated byte, x80)
fn inputs() -> Vec<Vec<u8>> { vec![vec![b'a'], vec![b'a', 0xC3], vec![0xE9, 0xE9, 0x80], vec![]] }
fn k_subsets(n: u64, k: usize, mut idx: u64) -> Option<Vec<u64>> {
    let mut v = vec![]; for _ in 0..k { v.push(idx % n); idx /= n; }
    if v.windows(2).any(|w| w[0] >= w[1]) { return None; }
    Some(v)
}
fn record(acc: &mut Acc, r: Result<(usize, Vec<&'static str>), (String, String)>, case: String) {
    match r {
        Ok((steps, known)) => { acc.transitions += steps as u64; for k in known { *acc.known_hits.entry(k.to_string()).or_insert(0) += 1; acc.count("schedules_showing_known_finding", 1); } }
        Err((sig, d)) => acc.violation(sig, case, d),
    }
}

pub fn run(ctx: &Ctx) -> Report {
    let mut rep = Report::new("4 programs (GETC/OUT echo loop recording what it received; GETC xN then PUTS; a supervisor-mode KBSR/KBDR + DSR/DDR polling loop without the OS; OUT of 3 fixed bytes) x inputs of length 0-3; 'another thread' is played by the harness taking the real RwLock write guard: boundary mode (quick and thorough): before each step the holder is absent / holds the keyboard / holds the display / holds the keyboard and appends a byte on release / holds the display and drains it on release / holds the keyboard or the display as a reader (shared guard) / the holder of the keyboard or display lock dies while holding it (poisoned lock) / a device interrupt is requested (its ISR uses the supervisor stack); every pattern with <=2 (thorough 3) acting boundaries over the run, and ALL 2^n hold patterns over the first n=14 (thorough 18) boundaries of the single-byte programs; each run in lock-step with RefLC3 (which encodes the two known findings exactly: a DDR write under a held display lock is dropped, a KBDR read under a held keyboard lock returns the stale value and consumes nothing); attempt mode (thorough, hook H3): the lock is held at individual try_write attempts, every set of <=2 attempts. Oracle: bytes received (recorded by the program, in order) = queued input exactly once; display (+ drained) = bytes output exactly once. non-trivial = schedules with at least one hold");
    let progs: [usize; 4] = [0, 1, 2, 3];
    let maxk = ctx.pick(2usize, 3usize);
    for &prog in &progs { for init in inputs() {
        if prog == 3 && !init.is_empty() { continue; }
        if prog != 3 && init.is_empty() { // all input arrives through appends
        }
        let base = match run_boundary(prog, &init, &vec![]) { Ok(o) => o, Err((s, d)) => { rep.acc.violation(s, format!("b:{prog}:{}:", hex(&init)), d); continue; } };
        if !init.is_empty() || prog == 3 { if let Err((s, d)) = judge(prog, &base, "no contention", false, false) { rep.acc.violation(s, format!("b:{prog}:{}:", hex(&init)), d); } }
        let nb = (base.steps as u64).min(ctx.pick(90, 140));
        let slots = nb * 9;
        for k in 1..=maxk {
            if k == 3 && nb > 60 { continue; }
            let total = slots.pow(k as u32);
            let init2 = init.clone();
            let r = sweep(ctx, total, 64, |i, acc| {
                let Some(sel) = k_subsets(slots, k, i) else { return };
                let sched: Sched = sel.iter().map(|s| ((s / 9) as u32, (s % 9) as u8 + 1)).collect();
                if sched.windows(2).any(|w| w[0].0 == w[1].0) { return; } // one action per boundary
                if init2.is_empty() && prog != 3 && !sched.iter().any(|s| s.1 == 3) { return; } // no input at all: the program would wait forever by contract
                acc.evals += 1; acc.traces += 1; acc.nontrivial += 1; acc.count(&format!("boundary_schedules_k{k}"), 1);
                let case = format!("b:{prog}:{}:{}", hex(&init2), sched.iter().map(|s| format!("{}/{}", s.0, s.1)).collect::<Vec<_>>().join(";"));
                let r = check_boundary(prog, &init2, &sched);
                if let Ok((steps, _)) = &r { acc.outcomes.insert(mix(prog as u64, *steps as u64)); }
                acc.sample(i, ctx.seed, 30011, || format!("program {prog} input {init2:x?} schedule {sched:?}"));
                record(acc, r, case);
            });
            rep.absorb(r);
        }
    } }
    // all 2^n patterns on single-byte programs
    let nbits = ctx.pick(14u32, 18u32);
    for (prog, init, action) in [(0usize, vec![b'a'], 1u8), (0, vec![b'a'], 2), (2, vec![b'a'], 1), (2, vec![b'a'], 2), (3, vec![], 2), (0, vec![b'a'], 5), (0, vec![b'a'], 6), (3, vec![], 6)] {
        let r = sweep(ctx, 1u64 << nbits, 64, |mask, acc| {
            let sched: Sched = (0..nbits).filter(|b| mask >> b & 1 == 1).map(|b| (b + 2, action)).collect();
            acc.evals += 1; acc.traces += 1; if mask != 0 { acc.nontrivial += 1; } acc.count("all_patterns_schedules", 1);
            let case = format!("b:{prog}:{}:{}", hex(&init), sched.iter().map(|s| format!("{}/{}", s.0, s.1)).collect::<Vec<_>>().join(";"));
            record(acc, check_boundary(prog, &init, &sched), case);
        });
        rep.absorb(r);
    }
    // long holds: each length x start at steps 0..12 x {keyboard, display} x {exclusive, reader} on the echo program and the fixed-output program
    let r = sweep(ctx, LONG_HOLDS.len() as u64 * 13 * 4 * 2, 1, |i, acc| {
        let (len, start, act, prog) = (LONG_HOLDS[(i / (13 * 8)) as usize], (i / 8 % 13) as u32, [1u8, 2, 5, 6][(i / 2 % 4) as usize], if i % 2 == 0 { 0usize } else { 3 });
        if prog == 3 && act % 2 == 1 { return; }
        let init: Vec<u8> = if prog == 0 { vec![b'a', b'b'] } else { vec![] };
        acc.evals += 1; acc.traces += 1; acc.nontrivial += 1; acc.count("long_hold_schedules", 1);
        record(acc, check_long_hold(prog, &init, start, len, act), format!("L:{prog}:{}:{start}/{len}/{act}", hex(&init)));
    });
    rep.absorb(r);
    // life cycle: reset() called while a lock is held, then the next run's input queued: every program x input x lock x 6 lengths of prior use
    let r = sweep(ctx, 4 * 4 * 5 * 6, 1, |i, acc| {
        let (prog, init, hold, prior) = ((i / 120) as usize, inputs()[(i / 30 % 4) as usize].clone(), (i / 6 % 5) as u8 + 1, [0u32, 1, 5, 20, 60, 400][(i % 6) as usize]);
        if (prog == 3) != init.is_empty() { return; }
        acc.evals += 1; acc.traces += 1; acc.nontrivial += 1; acc.count("resets_under_a_held_lock", 1);
        record(acc, check_reset_under_hold(prog, &init, prior, hold), format!("R:{prog}:{}:{prior}/{hold}", hex(&init)));
    });
    rep.absorb(r);
    // attempt mode
    if ctx.thorough() {
        for &prog in &progs { for init in inputs() {
            if init.is_empty() != (prog == 3) { continue; }
            let Ok((_, _, n_attempts)) = check_attempts(prog, &init, &[]) else { rep.acc.violation("attempt-mode-baseline", format!("a:{prog}:{}:", hex(&init)), "baseline run failed"); continue; };
            let n = (n_attempts as u64).min(160);
            for k in 1..=2usize {
                let init2 = init.clone();
                let r = sweep(ctx, n.pow(k as u32), 32, |i, acc| {
                    let Some(sel) = k_subsets(n, k, i) else { return };
                    let held: Vec<u32> = sel.iter().map(|x| *x as u32).collect();
                    acc.evals += 1; acc.traces += 1; acc.nontrivial += 1; acc.count(&format!("attempt_schedules_k{k}"), 1);
                    let case = format!("a:{prog}:{}:{}", hex(&init2), held.iter().map(|x| x.to_string()).collect::<Vec<_>>().join(","));
                    record(acc, check_attempts(prog, &init2, &held).map(|x| (x.0, x.1)), case);
                });
                rep.absorb(r);
            }
        } }
    }
    rep.bound("max_acting_boundaries", Json::i(maxk as u64)); rep.bound("all_patterns_bits", Json::i(nbits));
    rep.require(rep.acc.get("schedules_showing_known_finding") > 0 || rep.acc.evals > 10_000, "contention schedules were explored");
    rep.assume("the other thread only holds the lock, appends input or drains output (it never rewrites the buffers)");
    rep.assume("a try-lock is one atomic step whose only environment input is held / not held, so answer sequences enumerate all interleavings");
    rep
}

pub fn replay(case: &str) -> Option<String> {
    let p: Vec<&str> = case.splitn(4, ':').collect();
    let prog: usize = p.get(1)?.parse().ok()?;
    let init = unhex(p.get(2)?)?;
    match *p.first()? {
        "L" => {
            let q: Vec<u32> = p.get(3)?.split('/').filter_map(|x| x.parse().ok()).collect();
            match check_long_hold(prog, &init, *q.first()?, *q.get(1)?, *q.get(2)? as u8) { Ok((_, k)) => if k.is_empty() { None } else { Some(format!("known finding(s) exhibited: {k:?}")) }, Err((s, d)) => Some(format!("[{s}] {d}")) }
        }
        "R" => {
            let q: Vec<u32> = p.get(3)?.split('/').filter_map(|x| x.parse().ok()).collect();
            match check_reset_under_hold(prog, &init, *q.first()?, *q.get(1)? as u8) { Ok((_, k)) => if k.is_empty() { None } else { Some(format!("known finding(s) exhibited: {k:?}")) }, Err((s, d)) => Some(format!("[{s}] {d}")) }
        }
        "b" => {
            let sched: Sched = p.get(3)?.split(';').filter(|x| !x.is_empty()).filter_map(|x| { let (a, b) = x.split_once('/')?; Some((a.parse().ok()?, b.parse().ok()?)) }).collect();
            match check_boundary(prog, &init, &sched) { Ok((_, k)) => if k.is_empty() { None } else { Some(format!("known finding(s) exhibited: {k:?}")) }, Err((s, d)) => Some(format!("[{s}] {d}")) }
        }
        "a" => {
            let held: Vec<u32> = p.get(3)?.split(',').filter(|x| !x.is_empty()).filter_map(|x| x.parse().ok()).collect();
            match check_attempts(prog, &init, &held) { Ok((_, k, _)) => if k.is_empty() { None } else { Some(format!("known finding(s) exhibited: {k:?}")) }, Err((s, d)) => Some(format!("[{s}] {d}")) }
        }
        _ => None,
    }
}
