//! C08 — each simulator step follows the LC-3 ISA (lock-step with RefLC3).
use super::simcmp::*;
use super::simfam::*;
use crate::refs::lc3::Outcome;
use crate::util::*;

pub const HORIZON: usize = 300;

/// S1: one word in one context, one step (plus a second step to observe the effect of a control transfer's fetch).
pub fn s1(ctx_i: u64, w: u16, observer: bool) -> Result<Outcome, (String, String)> {
    let mut m = context(ctx_i);
    if m.pc < 0xFE00 { m.pokes.push((m.pc, w)); } else { return s1_io(m, w, observer); }
    let mut p = build(&m);
    let first = step_compare(&mut p, observer).map_err(|(s, d)| (format!("{s}:{}", op(w)), d))?;
    // second step: fetch at the new PC (checks what the first step left behind)
    if matches!(first.outcome, Outcome::Executed | Outcome::Exception(_)) { step_compare(&mut p, observer).map_err(|(s, d)| (format!("{s}:after-{}", op(w)), format!("second step after x{w:04X}: {d}")))?; }
    Ok(first.outcome)
}
/// PC inside the I/O page: the fetched word comes from a device register, the sweep word is used as R0 instead.
fn s1_io(mut m: Machine, w: u16, observer: bool) -> Result<Outcome, (String, String)> {
    m.regs[0] = w;
    let mut p = build(&m);
    let first = step_compare(&mut p, observer)?;
    Ok(first.outcome)
}
fn op(w: u16) -> &'static str { ["BR","ADD","LD","ST","JSR","AND","LDR","STR","RTI","NOT","LDI","STI","JMP","RES","LEA","TRAP"][(w >> 12) as usize] }

/// S2: a program of `len` alphabet instructions run to a horizon in lock-step; full memory compare at the end.
pub fn s2(len: usize, idx: u64, flags: u64, observer: bool) -> Result<(u64, Outcome), (String, String)> {
    let (m, _) = program_machine(len, idx, flags);
    let mut p = build(&m);
    let mut last = Outcome::Executed; let mut steps = 0u64;
    for _ in 0..HORIZON {
        let info = step_compare(&mut p, observer)?;
        steps += 1; last = info.outcome;
        if matches!(last, Outcome::Halt | Outcome::Err(_)) { break; }
        if p.rf.saw_user_rti { break; } // A10: unspecified from here on
    }
    if let Some(e) = compare_memory(&p) { return Err(e); }
    Ok((steps, last))
}
/// S3: a 2-instruction program with one vectored interrupt raised at poll `at` (handler at x1F00: push/pop R0, RTI).
pub fn s3(idx: u64, flags: u64, at: u64, prio: u8, observer: bool) -> Result<(u64, bool), (String, String)> { s3_slot(idx, flags, at, prio, observer, 0) }
/// `slot`: the interrupting device is installed with `add_device` (0), as the machine's display (1) or as its keyboard (2)
pub fn s3_slot(idx: u64, flags: u64, at: u64, prio: u8, observer: bool, slot: u8) -> Result<(u64, bool), (String, String)> {
    let (mut m, _) = program_machine(2, idx, flags);
    if slot == 1 { m.display = false; } else if slot == 2 { m.kb = None; m.kb_ie = false; }
    // handler: ADD R6,R6,#-1; STR R0,R6,#0; AND R0,R0,#0; LDR R0,R6,#0; ADD R6,R6,#1; RTI
    for (k, w) in [0x1DBFu16, 0x7180, 0x5020, 0x6180, 0x1DA1, 0x8000].iter().enumerate() { m.pokes.push((0x1F00 + k as u16, *w)); }
    m.pokes.push((0x0190, 0x1F00));
    let mut p = build(&m);
    p.add_source_in_slot(slot, 0x90, prio, vec![at]);
    let mut steps = 0u64; let mut taken = false;
    for _ in 0..HORIZON {
        let info = step_compare(&mut p, observer)?;
        steps += 1;
        if info.outcome == Outcome::Interrupted { taken = true; }
        if matches!(info.outcome, Outcome::Halt | Outcome::Err(_)) || p.rf.saw_user_rti { break; }
    }
    if let Some(e) = compare_memory(&p) { return Err(e); }
    Ok((steps, taken))
}

/// S4 (scale): a loop body of `n` pairwise distinct ALU instructions executed three times (more distinct instruction words than any small
/// program has), in lock-step; `churn` idle devices were attached and removed beforehand.
pub fn s4(n: u64, flags: u64, churn: u32) -> Result<u64, (String, String)> {
    let (mut m, _) = program_machine(0, 0, flags);
    m.device_churn = churn;
    let mut words: Vec<u16> = vec![0x5DA0, 0x1DA3, 0xEE00]; // AND R6,R6,#0 ; ADD R6,R6,#3 ; LEA R7,#0 (= address of the loop body)
    for k in 0..n { let (d, s, imm) = (k % 6, (k / 6) % 6, (k / 36) % 32); words.push(if k % 2 == 0 { 0x1020 } else { 0x5020 } | (d as u16) << 9 | (s as u16) << 6 | imm as u16); }
    words.extend([0x1DBF, 0x0C01, 0xC1C0, 0xF025]); // ADD R6,R6,#-1 ; BRnz +1 ; JMP R7 ; HALT
    for (k, w) in words.iter().enumerate() { m.pokes.push((0x3000 + k as u16, *w)); }
    let mut p = build(&m);
    let mut steps = 0u64;
    for _ in 0..(3 * n + 40) {
        let info = step_compare(&mut p, false).map_err(|(s, d)| (s, format!("loop body of {n} distinct instructions, flags {flags}, {churn} devices attached and removed before: step {steps}: {d}")))?;
        steps += 1;
        if matches!(info.outcome, Outcome::Halt | Outcome::Err(_)) { break; }
    }
    if let Some(e) = compare_memory(&p) { return Err(e); }
    Ok(steps)
}
/// S2 programs on a simulator whose device ids were pushed up by `churn` attach/remove rounds
pub fn s2_churn(len: usize, idx: u64, flags: u64, churn: u32) -> Result<u64, (String, String)> {
    let (mut m, mut w) = program_machine(len, idx, flags);
    m.device_churn = churn;
    // the alphabet word is preceded by a load from and a store to the custom device's registers (xFE10, xFE12; R2 = xFE00): LDR R0,R2,#16 ; STR R1,R2,#18
    let tail: Vec<(u16, u16)> = m.pokes.iter().filter(|(a, _)| (0x3000..0x300A).contains(a)).map(|(a, v)| (a + 2, *v)).collect();
    m.pokes.retain(|(a, _)| !(0x3000..0x300A).contains(a));
    m.pokes.extend([(0x3000, 0x6090), (0x3001, 0x7292)]); m.pokes.extend(tail);
    w.splice(0..0, [0x6090, 0x7292]);
    let mut p = build(&m);
    let mut steps = 0u64;
    for _ in 0..HORIZON {
        let info = step_compare(&mut p, false).map_err(|(s, d)| (s, format!("program {w:x?} flags {flags} after {churn} device attach/remove rounds: {d}")))?;
        steps += 1;
        if matches!(info.outcome, Outcome::Halt | Outcome::Err(_)) || p.rf.saw_user_rti { break; }
    }
    Ok(steps)
}
pub const S4_SIZES: [u64; 9] = [100, 127, 128, 129, 150, 255, 256, 257, 600];
pub const CHURNS: [u32; 8] = [252, 253, 254, 255, 300, 509, 510, 600];
pub fn scale_sweeps(ctx: &Ctx, rep: &mut Report) {
    let r = sweep(ctx, S4_SIZES.len() as u64 * 4, 1, |k, acc| {
        let (n, flags) = (S4_SIZES[(k / 4) as usize], k % 4);
        acc.evals += 1; acc.count("s4_long_programs", 1);
        match s4(n, flags, 0) { Ok(steps) => { acc.transitions += steps; acc.traces += 1; acc.nontrivial += 1; } Err((sig, d)) => acc.violation(sig, format!("s4:{n}:{flags}:0"), d) }
    });
    rep.absorb(r);
    let r = sweep(ctx, CHURNS.len() as u64 * 40 * 2, 8, |k, acc| {
        let (churn, idx, flags) = (CHURNS[(k / 80) as usize], k / 2 % 40, (k % 2) * 2);
        acc.evals += 1; acc.count("s2_device_churn", 1);
        match s2_churn(1, idx, flags, churn) { Ok(steps) => { acc.transitions += steps; acc.traces += 1; acc.nontrivial += 1; } Err((sig, d)) => acc.violation(sig, format!("s2c:{idx}:{flags}:{churn}"), d) }
    });
    rep.absorb(r);
}

pub fn run(ctx: &Ctx) -> Report {
    let mut rep = Report::new("S1: every 16-bit word placed at the PC of each machine context (quick 12, thorough 172 contexts: PC in user/supervisor/boundary/I-O pages x 4 register sets aimed at user memory, x2FFF/x3000, xFDFF/xFE00, KBSR/KBDR/DSR/DDR, a recording device, PSR, MCR, saved-SP port x privilege/priority/CC x real/virtual traps x privilege checks on/off; pointer cells of every address class around the PC; keyboard 'ab', display and recording device attached), one step plus the following fetch, compared with RefLC3 on registers, PC, PSR, saved SP, touched memory, device buffers, error kind and faulting address, instruction count; S2: every program of 1-2 (thorough 3) instructions over a 40-word alphabet x 4 flag sets run <=300 steps in lock-step with a final 64K comparison; S3: every 2-instruction program x interrupt at each of the first 8 polls x priority {1,4}. non-trivial = S1 steps whose opcode touches memory, control flow or traps; states = distinct (context, word) / programs");
    let nctx = context_count(ctx.thorough());
    let r = sweep(ctx, nctx * 65536, 1024, |k, acc| {
        let (ci, w) = (k / 65536, (k % 65536) as u16);
        acc.evals += 1; acc.transitions += 2; acc.count("s1_steps", 1);
        if !matches!(w >> 12, 1 | 5 | 9) { acc.nontrivial += 1; }
        match s1(ci, w, false) {
            Ok(o) => { acc.outcomes.insert(mix((w >> 12) as u64 * 16 + ci % 16, outcome_hash(&o))); }
            Err((sig, d)) => acc.violation(sig, format!("s1:{ci}:{w}"), d),
        }
        acc.sample(k, ctx.seed, 1_000_003, || format!("s1 context {ci} word x{w:04X}"));
    });
    rep.absorb(r);
    let maxlen = ctx.pick(2usize, 3usize);
    for len in 1..=maxlen {
        let n = 40u64.pow(len as u32);
        let r = sweep(ctx, n * 4, 16, |k, acc| {
            let (idx, flags) = (k / 4, k % 4);
            acc.evals += 1; acc.count("s2_programs", 1);
            match s2(len, idx, flags, false) {
                Ok((steps, last)) => { acc.transitions += steps; acc.traces += 1; acc.nontrivial += 1; acc.outcomes.insert(mix(1000 + outcome_hash(&last), steps.min(40))); if last == Outcome::Halt { acc.count("s2_halted", 1); } }
                Err((sig, d)) => acc.violation(sig, format!("s2:{len}:{idx}:{flags}"), d),
            }
            acc.sample(k, ctx.seed, 50_021, || format!("s2 program {:x?} flags {flags}", program_machine(len, idx, flags).1));
        });
        rep.absorb(r);
    }
    let r = sweep(ctx, 1600 * 4 * 8 * 2, 16, |k, acc| {
        let (idx, flags, at, prio) = (k / 64, k / 16 % 4, k / 2 % 8, if k % 2 == 0 { 4u8 } else { 1 });
        acc.evals += 1; acc.count("s3_schedules", 1);
        match s3(idx, flags, at, prio, false) {
            Ok((steps, taken)) => { acc.transitions += steps; acc.traces += 1; if taken { acc.count("s3_interrupts_taken", 1); acc.nontrivial += 1; } }
            Err((sig, d)) => acc.violation(sig, format!("s3:{idx}:{flags}:{at}:{prio}"), d),
        }
    });
    rep.absorb(r);
    // the interrupting device registered through the other public calls (as the display, as the keyboard): same schedules, every program
    let r = sweep(ctx, 1600 * 2 * 4 * 2, 16, |k, acc| {
        let (idx, flags, at, slot) = (k / 16, k / 8 % 2 * 2, [0u64, 1, 2, 5][(k / 2 % 4) as usize], (k % 2) as u8 + 1);
        acc.evals += 1; acc.count("s3_schedules_device_in_display_or_keyboard_slot", 1);
        match s3_slot(idx, flags, at, 4, false, slot) {
            Ok((steps, taken)) => { acc.transitions += steps; acc.traces += 1; if taken { acc.count("s3_slot_interrupts_taken", 1); acc.nontrivial += 1; } }
            Err((sig, d)) => acc.violation(format!("slot{slot}:{sig}"), format!("s3s:{idx}:{flags}:{at}:{slot}"), format!("interrupting device installed with {}: {d}", if slot == 1 { "set_display" } else { "set_keyboard" })),
        }
    });
    rep.absorb(r);
    scale_sweeps(ctx, &mut rep);
    rep.bound("contexts", Json::i(nctx)); rep.bound("program_length", Json::i(maxlen as u64)); rep.bound("horizon", Json::i(HORIZON as u64));
    rep.require(rep.acc.get("s3_interrupts_taken") > 1000, "interrupts were taken in S3");
    rep.require(rep.acc.get("s2_halted") > 100, "programs reached HALT in S2");
    rep.require(rep.acc.outcomes.len() > 100, "many distinct (opcode, context, outcome) classes");
    for a in ["A1 CC after trap/interrupt/exception entry not compared until set", "A2 RTI loads PSR as popped", "A3 PC pushed by an exception not compared", "A4 KBDR on empty queue returns last value", "A5 PSR writes keep x8707, CC repaired to Z", "A6 interrupt entry executes no instruction", "A7 virtual HALT leaves PC on the HALT", "A8 raw I/O-page cells not compared", "A9 device vectors x00-x02 outside the alphabet", "A10 RTI in user mode under ignore_privilege ends the comparison"] { rep.assume(a); }
    rep
}
pub fn outcome_hash(o: &Outcome) -> u64 { match o { Outcome::Executed => 1, Outcome::Interrupted => 2, Outcome::Halt => 3, Outcome::Err(e) => 10 + *e as u64, Outcome::Exception(e) => 20 + *e as u64 } }

pub fn replay(case: &str) -> Option<String> {
    let p: Vec<&str> = case.split(':').collect();
    let n = |i: usize| -> Option<u64> { p.get(i)?.parse().ok() };
    let r = match *p.first()? {
        "s1" => s1(n(1)?, n(2)? as u16, false).map(|_| ()),
        "s2" => s2(n(1)? as usize, n(2)?, n(3)?, false).map(|_| ()),
        "s3" => s3(n(1)?, n(2)?, n(3)?, n(4)? as u8, false).map(|_| ()),
        "s3s" => s3_slot(n(1)?, n(2)?, n(3)?, 4, false, n(4)? as u8).map(|_| ()),
        "s4" => s4(n(1)?, n(2)?, n(3)? as u32).map(|_| ()),
        "s2c" => s2_churn(1, n(1)?, n(2)?, n(3)? as u32).map(|_| ()),
        _ => return None,
    };
    r.err().map(|(s, d)| format!("[{s}] {d}"))
}
