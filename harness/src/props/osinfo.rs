//! Facts about the built-in OS read from the subject's os.asm (assembled with the separately checked assembler),
//! so that rewording the OS messages does not raise an alarm.
use lc3_ensemble::asm::assemble_debug;
use lc3_ensemble::parse::parse_ast;
use std::collections::BTreeMap;
use std::sync::OnceLock;

pub struct Os { pub image: BTreeMap<u16, Option<u16>>, pub labels: BTreeMap<String, u16> }
pub fn os() -> &'static Os {
    static OS: OnceLock<Os> = OnceLock::new();
    OS.get_or_init(|| {
        let src = std::fs::read_to_string(std::env::var("LC3MC_OS_ASM").unwrap_or_else(|_| "/repo/src/os.asm".into())).expect("os.asm");
        let obj = assemble_debug(parse_ast(&src).expect("os parses"), &src).expect("os assembles");
        let labels = obj.symbol_table().unwrap().label_iter().map(|(n, a, _)| (n.to_string(), a)).collect();
        Os { image: obj.addr_iter().collect(), labels }
    })
}
/// The zero-terminated string stored at a label of the OS image (low bytes).
pub fn os_string(label: &str) -> Vec<u8> {
    let o = os();
    let mut a = *o.labels.get(label).unwrap_or_else(|| panic!("OS label {label} missing"));
    let mut v = vec![];
    loop { match o.image.get(&a) { Some(Some(0)) | None | Some(None) => break, Some(Some(w)) => v.push(*w as u8) } a += 1; }
    v
}
