//! Shared by C17/C18: round-trip of object files through a serialization format.
use crate::gen::objs::*;
use crate::util::*;
use lc3_ensemble::asm::encoding::{BinaryFormat, ObjFileFormat, TextFormat};
use lc3_ensemble::asm::{assemble_debug, ObjectFile};
use lc3_ensemble::parse::parse_ast;
use std::sync::OnceLock;

pub fn family(thorough: bool) -> &'static Vec<ObjCase> {
    static Q: OnceLock<Vec<ObjCase>> = OnceLock::new();
    static T: OnceLock<Vec<ObjCase>> = OnceLock::new();
    if thorough { T.get_or_init(|| obj_family(true)) } else { Q.get_or_init(|| obj_family(false)) }
}

pub fn roundtrip(o: &ObjectFile, text: bool) -> Option<(String, String)> {
    let r = catch(|| {
        if text { let s = TextFormat::serialize(o); (TextFormat::deserialize(&s), s.len()) }
        else { let s = BinaryFormat::serialize(o); (BinaryFormat::deserialize(&s), s.len()) }
    });
    match r {
        Err(p) => Some((format!("panic:{}", panic_site(&p)), format!("round trip panicked: {p}"))),
        Ok((None, n)) => Some(("reader-rejects-own-output".into(), format!("deserialize(serialize(o)) = None ({n} bytes serialized)"))),
        Ok((Some(back), _)) => if &back == o { None } else { Some((format!("differs:{}", diff_part(o, &back)), format!("deserialize(serialize(o)) != o: {} differ\n orig {}\n back {}", diff_part(o, &back), brief(o), brief(&back)))) },
    }
}
fn brief(o: &ObjectFile) -> String {
    // deterministic summary (the derived Debug prints hash maps in arbitrary order)
    let l = crate::refs::link::observe(o);
    let s = format!("labels {:x?} relocations {:x?} lines {:x?}", l.labels, l.relocs, o.symbol_table().map(|s| s.line_iter().collect::<Vec<_>>()));
    if s.len() > 1500 { let mut e = 1500; while !s.is_char_boundary(e) { e -= 1; } format!("{}…", &s[..e]) } else { s }
}
/// Names the first component that differs, using only public observers.
pub fn diff_part(a: &ObjectFile, b: &ObjectFile) -> &'static str {
    if a.addr_iter().collect::<Vec<_>>() != b.addr_iter().collect::<Vec<_>>() { return "image"; }
    match (a.symbol_table(), b.symbol_table()) {
        (None, None) => "nothing-observable",
        (Some(_), None) | (None, Some(_)) => "symbol-table-presence",
        (Some(x), Some(y)) => {
            let mut lx: Vec<_> = x.label_iter().map(|(n, a, e)| (n.to_string(), a, e)).collect(); lx.sort();
            let mut ly: Vec<_> = y.label_iter().map(|(n, a, e)| (n.to_string(), a, e)).collect(); ly.sort();
            if lx != ly { return "labels"; }
            if x.line_iter().collect::<Vec<_>>() != y.line_iter().collect::<Vec<_>>() { return "line-map"; }
            if x.source_info().map(|s| s.source().to_string()) != y.source_info().map(|s| s.source().to_string()) { return "source"; }
            for (n, _, _) in lx { if x.get_label_source(&n) != y.get_label_source(&n) { return "label-source-index"; } }
            "relocations"
        }
    }
}

pub fn run_family(ctx: &Ctx, rep: &mut Report, text: bool) {
    let fam = family(ctx.thorough());
    let r = sweep(ctx, fam.len() as u64, 8, |i, acc| {
        let c = &fam[i as usize];
        acc.evals += 1; acc.transitions += 2;
        let has_sym = c.obj.symbol_table().is_some();
        if has_sym { acc.nontrivial += 1; }
        if c.desc.starts_with("link(") { acc.count("linked_objects", 1); } else { acc.count("assembled_objects", 1); }
        acc.outcomes.insert(fnv_str(&format!("{:?}", c.obj.addr_iter().collect::<Vec<_>>())));
        acc.sample(i, ctx.seed, 997, || c.desc.clone());
        if let Some((sig, d)) = roundtrip(&c.obj, text) { acc.violation(sig, format!("obj:{}:{i}", ctx.thorough() as u8), format!("{}: {d}", c.desc)); }
    });
    rep.absorb(r);
    rep.bound("objects", Json::i(fam.len() as u64));
}

// ---- life cycle: a round trip that follows a failed (or differently ending) read on the same thread
const BREAKS: u64 = 14;
/// the object's own serialization, damaged in way `k` (truncations, a bad escape after a column separator, garbage lines / bytes, a flipped byte)
fn damaged_text(s: &str, k: u64) -> String {
    let cut = |n: usize| { let mut e = n.min(s.len()); while !s.is_char_boundary(e) { e -= 1; } s[..e].to_string() };
    match k {
        0 => cut(s.len() / 4), 1 => cut(s.len() / 2), 2 => cut(s.len() * 3 / 4), 3 => cut(s.len().saturating_sub(1)),
        4 => s.replacen(" | ", " | \\q", 1), 5 => { match s.rfind(" | ") { Some(i) => format!("{} | C:\\work\\lab1.asm{}", &s[..i], &s[i + 3..]), None => format!("{s}\\") } }
        6 => s.replace(" | ", " | \\x"), 7 => format!("garbage\n{s}"), 8 => format!("{s}\ngarbage | \\"), 9 => s.replacen('\n', "\n\n====\n", 1),
        10 => s.replace("\\n", "\\"), 11 => s.replacen("x", "xZ", 1), 12 => format!("{s}{s}"), _ => String::new(),
    }
}
fn damaged_bytes(b: &[u8], k: u64) -> Vec<u8> {
    let mut v = b.to_vec();
    match k {
        0 => v.truncate(b.len() / 4), 1 => v.truncate(b.len() / 2), 2 => v.truncate(b.len() * 3 / 4), 3 => { v.pop(); }
        4 => { if let Some(x) = v.first_mut() { *x ^= 0xFF; } } 5 => { let n = v.len(); if n > 0 { v[n / 2] ^= 0x80; } } 6 => { let n = v.len(); if n > 0 { v[n - 1] ^= 0xFF; } }
        7 => { v.insert(0, 0x7F); } 8 => v.extend([0xFF; 9]), 9 => { let n = v.len(); if n > 8 { for x in &mut v[n / 4..n / 4 + 8] { *x = 0xFF; } } }
        10 => { let n = v.len(); if n > 2 { v.swap(n / 3, n / 3 + 1); } } 11 => { for x in v.iter_mut().skip(4).step_by(97) { *x = 0xC3; } } 12 => { let c = v.clone(); v.extend(c); } _ => v.clear(),
    }
    v
}
/// Runs on a thread of its own, so that whatever per-thread state the reader keeps starts clean and the verdict of one case cannot depend
/// on the cases that happened to run before it on the same worker (replay discipline).
pub fn after_failed_read(o: &ObjectFile, k: u64, text: bool) -> Option<(String, String)> {
    std::thread::scope(|s| s.spawn(|| after_failed_read_here(o, k, text)).join()).unwrap_or_else(|_| Some(("machinery:thread".into(), "case thread panicked".into())))
}
fn after_failed_read_here(o: &ObjectFile, k: u64, text: bool) -> Option<(String, String)> {
    let first = catch(|| if text { TextFormat::deserialize(&damaged_text(&TextFormat::serialize(o), k)).is_some() } else { BinaryFormat::deserialize(&damaged_bytes(&BinaryFormat::serialize(o), k)).is_some() });
    let accepted = match first { Ok(a) => a, Err(_) => return None }; // a panic on damaged input is C19's subject
    roundtrip(o, text).map(|(s, d)| (format!("after-{}-read:{s}", if accepted { "another" } else { "a-failed" }), format!("after the reader had {} a damaged copy (damage #{k}) on the same thread: {d}", if accepted { "accepted" } else { "rejected" })))
}
pub fn run_after_failed_reads(ctx: &Ctx, rep: &mut Report, text: bool) {
    let fam = family(ctx.thorough());
    let stride = ctx.pick(11u64, 3u64);
    let r = sweep(ctx, fam.len() as u64 * BREAKS, 8, |j, acc| {
        let (i, k) = (j / BREAKS, j % BREAKS);
        let c = &fam[i as usize];
        let big = c.desc.starts_with("big ") || c.desc.starts_with("dense ");
        if i % stride != 0 && !(big && k % 5 == 4) { return; }
        acc.evals += 1; acc.transitions += 3; acc.count("round_trips_after_a_failed_read", 1);
        if let Some((sig, d)) = after_failed_read(&c.obj, k, text) { acc.violation(sig, format!("afr:{}:{i}:{k}", ctx.thorough() as u8), format!("{}: {d}", c.desc)); }
    });
    rep.absorb(r);
}

// ---- hostile sources (C18, also used by C17)
const TOK: [&str; 20] = ["\"", "\\", "'", "\t", "\r", "\u{1}", "\u{7f}", "é", " | ", "====", "#", ".TEXT", "\n;", "\n \t\n;", "\0", "7", "n", "u{41}", "x41", "\u{2028}"];
pub fn hostile_count(maxlen: u32) -> u64 { (0..=maxlen).map(|l| 20u64.pow(l)).sum() }
pub fn hostile_source(mut i: u64, variant: u8) -> String {
    let mut len = 0u32; while i >= 20u64.pow(len) { i -= 20u64.pow(len); len += 1; }
    let mut p = String::new(); let mut lit = String::new();
    for _ in 0..len {
        let t = TOK[(i % 20) as usize]; i /= 20;
        p.push_str(t);
        for c in t.chars() { match c { '"' => lit.push_str("\\\""), '\\' => lit.push_str("\\\\"), '\n' => lit.push_str("\\n"), ';' => lit.push(';'), c => lit.push(c) } }
    }
    match variant {
        0 => format!("; {p}\n.orig x3000\n;{p}\nLBL ADD R0, R0, R0 ; {p}\n.stringz \"{lit}\"\n.end\n; {p}"),
        1 => format!(".orig x3000 ;{p}\r\nLBL: .stringz \"{lit}\" ;{p}\r\n.fill LBL\r\n.end\r\n\r\n"),
        _ => format!("\n\n \t\n.orig x3000\n.blkw 2 ;{p}\n\n.end ;{p}\n \n\n"),
    }
}
pub fn check_source(src: &str, text: bool) -> Result<Option<(String, String)>, String> {
    let ast = catch(|| parse_ast(src)).map_err(|p| format!("generator: parse panicked {p}"))?.map_err(|e| format!("generator produced unparsable source: {e:?}\n{src:?}"))?;
    let obj = catch(|| assemble_debug(ast, src)).map_err(|p| format!("generator: assemble panicked {p}"))?.map_err(|e| format!("generator produced unassemblable source: {:?}", e.kind))?;
    Ok(roundtrip(&obj, text))
}
pub fn run_hostile(ctx: &Ctx, rep: &mut Report, text: bool) {
    let maxlen = ctx.pick(3u32, 4u32);
    let n = hostile_count(maxlen);
    let r = sweep(ctx, n * 3, 32, |k, acc| {
        let (i, variant) = (k / 3, (k % 3) as u8);
        let src = hostile_source(i, variant);
        acc.evals += 1; acc.transitions += 2; acc.nontrivial += 1; acc.count("hostile_sources", 1);
        acc.sample(k, ctx.seed, 3301, || format!("{src:?}"));
        match check_source(&src, text) {
            Ok(None) => {}
            Ok(Some((sig, d))) => acc.violation(sig, format!("src:{}", hex(src.as_bytes())), format!("source {src:?}: {d}")),
            Err(e) => acc.violation("machinery:generator", format!("src:{}", hex(src.as_bytes())), e),
        }
    });
    rep.absorb(r);
    rep.bound("hostile_token_sequences", Json::i(n));
}
pub fn replay(case: &str, text: bool) -> Option<String> {
    if let Some(h) = case.strip_prefix("src:") { let s = String::from_utf8(unhex(h)?).ok()?; return check_source(&s, text).ok().flatten().map(|x| x.1); }
    let p: Vec<&str> = case.split(':').collect();
    if p[0] == "afr" { let fam = family(*p.get(1)? == "1"); let c = fam.get(p.get(2)?.parse::<usize>().ok()?)?; return after_failed_read(&c.obj, p.get(3)?.parse().ok()?, text).map(|x| format!("{}: {}", c.desc, x.1)); }
    let fam = family(*p.get(1)? == "1");
    let c = fam.get(p.get(2)?.parse::<usize>().ok()?)?;
    roundtrip(&c.obj, text).map(|x| format!("{}: {}", c.desc, x.1))
}
