//! C12 — real and virtual traps agree except at HALT and exceptions.
use super::osinfo::os_string;
use super::simcmp::*;
use super::simfam::*;
use crate::refs::isa::reg;
use crate::util::*;
use lc3_ensemble::sim::SimErr;

const LIMIT: u64 = 3000;

struct Run { result: Result<(), String>, halted: bool, display: Vec<u8>, regs: Vec<u16>, user_mem: Vec<u16>, err: Option<&'static str> }
/// `prior`: the simulator was used before: a stack-using program (template 1/3 with R6 = x4000) was run on it to its HALT under real
/// or virtual traps, then `reset()`; the judged program is then set up through the public fields exactly as on a fresh simulator
/// (the saved stack pointer is left to `reset()`).
fn run_one(m: &Machine, prior: u64) -> Result<Run, String> {
    let mut p = if prior == 0 { build(m) } else {
        let mut pm = template(if prior <= 2 { 4 } else { 10 }).expect("prior template"); pm.real_traps = prior % 2 == 1; pm.ignore_priv = m.ignore_priv;
        let mut p = build(&pm);
        let _ = catch(|| p.sim.run_with_limit(LIMIT))?;
        catch(|| p.sim.reset())?;
        p.sim.flags.use_real_traps = m.real_traps;
        for (a, v) in &m.pokes { p.sim.mem[*a].set(*v); }
        for i in 0..8 { p.sim.reg_file[reg(i)].set(m.regs[i as usize]); }
        p.sim.pc = m.pc;
        p.sim.write_mem(0xFFFC, lc3_ensemble::sim::mem::Word::new_init(m.psr), lc3_ensemble::sim::MemAccessCtx::omnipotent()).map_err(|e| format!("machinery: PSR write failed: {e:?}"))?;
        { let mut q = p.kb.get_buffer().write().unwrap_or_else(|e| e.into_inner()); q.clear(); q.extend(m.kb.clone().unwrap_or_default()); }
        p.disp.get_buffer().write().unwrap_or_else(|e| e.into_inner()).clear();
        p
    };
    if m.strict {
        // strict mode distinguishes the loaded object file's blocks from the rest of memory: load the program the way a user would
        let mut words: Vec<u16> = vec![]; let mut a = 0x3000u16;
        while let Some((_, w)) = m.pokes.iter().rev().find(|(x, _)| *x == a) { words.push(*w); a += 1; }
        let src = format!(".orig x3000\n{}\n.end", words.iter().map(|w| format!(".fill x{w:04X}")).collect::<Vec<_>>().join("\n"));
        let obj = lc3_ensemble::asm::assemble(lc3_ensemble::parse::parse_ast(&src).map_err(|e| format!("machinery: {e:?}"))?).map_err(|e| format!("machinery: {e:?}"))?;
        let pc = p.sim.pc;
        catch(|| p.sim.load_obj_file(&obj))?.map_err(|e| format!("machinery: load failed: {e:?}"))?;
        p.sim.pc = pc;
    }
    let limit = if m.pokes.len() > 10_000 { 4_000_000 } else { LIMIT };
    let r = catch(|| p.sim.run_with_limit(limit))?;
    let err = match &r { Err(SimErr::AccessViolation) => Some("acv"), Err(SimErr::PrivilegeViolation) => Some("priv"), Err(SimErr::IllegalOpcode) | Err(SimErr::InvalidInstrFormat) => Some("illop"), Err(_) => Some("other"), Ok(()) => None };
    let display: Vec<u8> = { let g = p.disp.get_buffer().read().unwrap_or_else(|e| e.into_inner()); g.clone() };
    Ok(Run {
        result: r.map_err(|e| format!("{e:?}")), halted: p.sim.hit_halt(), display,
        regs: (0..8).map(|i| p.sim.reg_file[reg(i)].get()).collect(), user_mem: (0x3000..0xFE00u16).map(|a| p.sim.mem[a].get()).collect(), err,
    })
}

/// extra templates: stack use, subroutines and I/O traps
fn template(i: u64) -> Option<Machine> {
    let progs: [&[u16]; 10] = [
        &[0xE006, 0xF022, 0x4802, 0xF025, 0x0000, 0x1021, 0xC1C0, 0x0048, 0x0069, 0x0000],            // LEA/PUTS/JSR/HALT ... sub: ADD, RET; "Hi"
        &[0x1DBF, 0x7180, 0x1021, 0x6180, 0x1DA1, 0xF021, 0xF025],                                      // push, modify, pop, OUT, HALT
        &[0xF020, 0xF021, 0xF020, 0xF021, 0xF025],                                                      // GETC/OUT twice
        &[0x4803, 0xF021, 0xF025, 0x0000, 0x1DBF, 0x7F80, 0x4802, 0x6F80, 0x1DA1, 0xC1C0, 0x1021, 0xC1C0], // nested calls saving R7 on the stack
        &[0xE002, 0xF024, 0xF025, 0x6261, 0x0063, 0x0000],                                              // PUTSP "abc"
        &[0x2002, 0xC000, 0xF025, 0x0200],                                                              // LD R0; JMP R0 -> x0200 (ACV)
        &[0x5020, 0x6000, 0xF025],                                                                      // LDR from x0000 (ACV)
        &[0x8000],                                                                                      // RTI in user mode
        &[0xD123],                                                                                      // reserved opcode
        &[0xF023, 0xF021, 0xF025],                                                                      // IN then OUT
    ];
    let p = progs.get((i / 3) as usize)?;
    let mut m = Machine::user();
    m.regs = [0x0041, 0x3006, 0x3100, 3, 4, 5, [0xFD00u16, 0x4000, 0xF000][(i % 3) as usize], 0x3009];
    m.kb = Some(vec![b'x', b'y', b'z']);
    for (k, w) in p.iter().enumerate() { m.pokes.push((0x3000 + k as u16, *w)); }
    m.pokes.push((0x3000 + p.len() as u16, 0xF025));
    Some(m)
}

/// scale: programs that print more than 2^15 / 2^16 bytes (PUTSP of a packed string) before ending in HALT, an illegal opcode, RTI or an access violation
fn big_template(i: u64) -> Option<Machine> {
    let n = [32768usize, 65530, 65536, 70001][(i / 4) as usize % 4];
    let ending: &[u16] = [&[0xF025u16][..], &[0xD000], &[0x8000], &[0x5020, 0x6000]][(i % 4) as usize];
    let mut m = Machine::user();
    m.regs = [0, 1, 2, 3, 4, 5, 0xFD00, 7];
    let mut code = vec![0x2000 | (2 + ending.len() as u16), 0xF024]; code.extend_from_slice(ending); code.push(0xF025); code.push(0x4000); // LD R0, PTR ; PUTSP ; ending ; HALT ; PTR
    for (k, w) in code.iter().enumerate() { m.pokes.push((0x3000 + k as u16, *w)); }
    for k in 0..n.div_ceil(2) { let (a, b) = (0x41 + (2 * k % 26) as u16, if 2 * k + 1 < n { 0x41 + ((2 * k + 1) % 26) as u16 } else { 0 }); m.pokes.push((0x4000 + k as u16, a | b << 8)); }
    m.pokes.push((0x4000 + n.div_ceil(2) as u16, 0));
    Some(m)
}
/// A10: under ignore_privilege a program can execute RTI while in user mode (directly or by jumping into OS code); that has no ISA
/// meaning and may turn it into supervisor code, so such programs are not "user-mode programs" and are not judged.
fn executes_user_rti(m: &Machine) -> bool {
    for real in [false, true] {
        let mut mm = m.clone(); mm.real_traps = real;
        let mut p = build(&mm);
        for _ in 0..LIMIT {
            let pc = p.sim.pc;
            if !p.sim.psr().privileged() && pc < 0xFE00 && p.sim.mem[pc].get() == 0x8000 { return true; }
            let before = (p.sim.pc, p.sim.instructions_run);
            match catch(|| p.sim.step_in()) { Ok(Ok(())) => {} _ => break }
            if (p.sim.pc, p.sim.instructions_run) == before { break; }
        }
    }
    false
}
/// device configuration `v`: 0 = no display, 1 = no keyboard, 2 = neither; false if the program contains an I/O trap word (x20..x24)
fn nodev(m: &mut Machine, v: u64) -> bool {
    if m.pokes.iter().any(|(a, w)| *a >= 0x3000 && (0xF020..=0xF024).contains(w)) { return false; }
    if v != 1 { m.display = false; }
    if v != 0 { m.kb = None; m.kb_ie = false; }
    true
}
fn check(m: &Machine, what: &str) -> Result<&'static str, (String, String)> { check_on(m, what, 0) }
fn check_on(m: &Machine, what: &str, prior: u64) -> Result<&'static str, (String, String)> {
    if m.ignore_priv && executes_user_rti(m) { return Ok("unjudged"); }
    let what = &if prior == 0 { what.to_string() } else { format!("{what}, on a simulator that ran a stack-using program to HALT under {} traps and was reset()", if prior % 2 == 1 { "real" } else { "virtual" }) };
    let mut mv = m.clone(); mv.real_traps = false;
    let mut mr = m.clone(); mr.real_traps = true;
    let v = run_one(&mv, prior).map_err(|p| (format!("panic:{}", panic_site(&p)), format!("{what} (virtual): {p}")))?;
    let r = run_one(&mr, prior).map_err(|p| (format!("panic:{}", panic_site(&p)), format!("{what} (real): {p}")))?;
    if v.result.is_ok() && v.halted {
        if r.result.is_err() || !r.halted { return Err(("real-does-not-halt".into(), format!("{what}: halts under virtual traps; under real traps result {:?}, hit_halt={}", r.result, r.halted))); }
        if r.display != v.display { return Err(("halt:display-differs".into(), format!("{what}: display virtual {:x?} vs real {:x?}", v.display, r.display))); }
        if r.regs[..6] != v.regs[..6] { return Err(("halt:registers-differ".into(), format!("{what}: R0-R5 virtual {:x?} vs real {:x?}", &v.regs[..6], &r.regs[..6]))); }
        if let Some(a) = (0..v.user_mem.len()).find(|a| v.user_mem[*a] != r.user_mem[*a]) { return Err(("halt:user-memory-differs".into(), format!("{what}: mem[x{:04X}] virtual x{:04X} vs real x{:04X}", a + 0x3000, v.user_mem[a], r.user_mem[a]))); }
        return Ok("halt");
    }
    if let Some(k @ ("acv" | "priv" | "illop")) = v.err {
        // the OS reports an exception by printing: without a display device that cannot complete (the library promises only HALT to work without I/O)
        if !m.display { return Ok("unjudged"); }
        let msg = os_string(match k { "acv" => "S_EXC_ACV", "priv" => "S_EXC_PRIVL", _ => "S_EXC_ILLOP" });
        let mut exp = v.display.clone(); exp.extend(&msg);
        if r.result.is_err() || !r.halted { return Err((format!("exception:{k}:real-does-not-halt"), format!("{what}: virtual stops with {:?}; real result {:?} hit_halt={}", v.result, r.result, r.halted))); }
        if r.display != exp { return Err((format!("exception:{k}:message"), format!("{what}: virtual stops with {:?} after printing {:x?}; real display {:?}, expected the same followed by {:?}", v.result, v.display, String::from_utf8_lossy(&r.display), String::from_utf8_lossy(&msg)))); }
        return Ok(k);
    }
    Ok("unjudged")
}

pub fn run(ctx: &Ctx) -> Report {
    let mut rep = Report::new("every user-mode program of 1-2 (thorough 3) instructions over the 40-word alphabet (I/O traps, subroutine calls, stack manipulation, loads/stores, faults) followed by HALT, plus 30 templates (stack use, nested subroutines saving R7, GETC/OUT/PUTS/PUTSP/IN, jumps and loads into supervisor memory, RTI, reserved opcode; 3 stack pointers), each run with run_with_limit(3000) under virtual and under real traps (again with ignore_privilege set, which leaves the program in user mode, and again in strict mode with R0-R5 never written, where the OS's own HALT and exception paths must still work): virtual HALT => same display, R0-R5, all user memory, and hit_halt() under real traps; virtual access/privilege/illegal-instruction error => real run prints the virtual output followed by the OS message for that exception (read from the OS image's symbol table) and halts; runs ending otherwise are counted, not judged. The templates and every 1-instruction (thorough 2-instruction) program are judged again on reused simulators: one that first ran a stack-using program (R6 in user memory) to its HALT under real or under virtual traps and was then reset() (4 prior uses). Programs and templates that contain no I/O trap word also run on simulators without a display, without a keyboard and without both (HALT must still stop the machine through the OS; exception endings are not judged there because the OS reports them by printing). non-trivial = judged pairs");
    let maxlen = ctx.pick(2usize, 3usize);
    for len in 1..=maxlen {
        let n = 40u64.pow(len as u32);
        let r = sweep(ctx, n * 3, 8, |k, acc| {
            let (idx, ign) = (k / 3, k % 3);
            let (mut m, words) = program_machine(len, idx, (ign & 1) * 2);
            // variant 2: strict mode with R0-R5 never written (strict objections inside the program end the run the same way under both
            // settings and are not judged; the OS's own exception and HALT paths must work under strict mode too)
            if ign == 2 { m.strict = true; m.uninit_regs = 0x3F; }
            // under ignore_privilege an RTI executed by the program has no ISA meaning (A10) and can turn it into supervisor code: not a user-mode program any more
            acc.evals += 1; acc.transitions += 2; acc.traces += 1;
            match check(&m, &format!("program {words:x?} ignore_privilege={} strict={}", ign == 1, ign == 2)) {
                Ok(k) => { acc.count(&format!("ended_{k}"), 1); if k != "unjudged" { acc.nontrivial += 1; } acc.outcomes.insert(fnv_str(k) ^ ign); if ign == 2 { acc.count("strict_variant", 1); } }
                Err((sig, d)) => acc.violation(sig, format!("p:{len}:{idx}:{ign}"), d),
            }
            acc.sample(k, ctx.seed, 997, || format!("program {words:x?} ignore_privilege={}", ign == 1));
        });
        rep.absorb(r);
    }
    let r = sweep(ctx, 30 * 6, 1, |j, acc| {
        let (i, prior) = (j % 30, j / 30);
        let Some(mut m) = template(i) else { return };
        let prior = if prior == 5 { m.strict = true; m.uninit_regs = 0x3D; 0 } else { prior }; // 6th pass: fresh simulator, strict mode, R0 and R2-R5 never written
        acc.evals += 1; acc.transitions += 2; acc.traces += 1; acc.count(if prior == 0 { "templates" } else { "templates_on_reused_simulator" }, 1);
        match check_on(&m, &format!("template {i}"), prior) {
            Ok(k) => { acc.count(&format!("ended_{k}"), 1); if k != "unjudged" { acc.nontrivial += 1; } }
            Err((sig, d)) => acc.violation(sig, format!("t:{i}:{}", if m.strict { 5 } else { prior }), d),
        }
    });
    rep.absorb(r);
    let r = sweep(ctx, 16, 1, |i, acc| {
        let Some(m) = big_template(i) else { return };
        acc.evals += 1; acc.transitions += 2; acc.traces += 1; acc.count("large_output_templates", 1);
        match check_on(&m, &format!("large-output template {i} (PUTSP of a long packed string, then ending {})", i % 4), 0) {
            Ok(k) => { acc.count(&format!("ended_{k}"), 1); if k != "unjudged" { acc.nontrivial += 1; } }
            Err((sig, d)) => acc.violation(sig, format!("b:{i}"), if d.len() > 1500 { let mut e = 1500; while !d.is_char_boundary(e) { e -= 1; } d[..e].to_string() } else { d }),
        }
    });
    rep.absorb(r);
    // device configurations: the same programs on a simulator without a display and/or without a keyboard (as `Simulator::new` leaves it).
    // Only programs that contain no I/O trap word are run there (GETC..PUTSP need their device); HALT must stop the machine through the OS regardless.
    let dl = ctx.pick(1usize, 2usize);
    let n = 40u64.pow(dl as u32);
    let r = sweep(ctx, n * 3 + 30 * 3, 8, |k, acc| {
        let (mut m, what, case) = if k < n * 3 { let (m, w) = program_machine(dl, k / 3, 0); (m, format!("program {w:x?}"), format!("n:{dl}:{}:{}", k / 3, k % 3)) } else { let j = k - n * 3; let Some(m) = template(j / 3) else { return }; (m, format!("template {}", j / 3), format!("nt:{}:{}", j / 3, j % 3)) };
        if !nodev(&mut m, k % 3) { return; }
        acc.evals += 1; acc.transitions += 2; acc.traces += 1; acc.count("programs_without_display_or_keyboard", 1);
        match check_on(&m, &format!("{what} with display attached={} keyboard attached={}", m.display, m.kb.is_some()), 0) {
            Ok(k) => { acc.count(&format!("ended_{k}"), 1); if k != "unjudged" { acc.nontrivial += 1; acc.count("judged_without_device", 1); } }
            Err((sig, d)) => acc.violation(format!("nodev:{sig}"), case, d),
        }
    });
    rep.absorb(r);
    // every 1-instruction program (and in thorough every 2-instruction program) again on reused simulators
    let rl = ctx.pick(1usize, 2usize);
    let n = 40u64.pow(rl as u32);
    let r = sweep(ctx, n * 4, 8, |k, acc| {
        let (idx, prior) = (k / 4, k % 4 + 1);
        let (m, words) = program_machine(rl, idx, 0);
        acc.evals += 1; acc.transitions += 2; acc.traces += 1; acc.count("programs_on_reused_simulator", 1);
        match check_on(&m, &format!("program {words:x?}"), prior) {
            Ok(k) => { acc.count(&format!("ended_{k}"), 1); if k != "unjudged" { acc.nontrivial += 1; } }
            Err((sig, d)) => acc.violation(sig, format!("r:{rl}:{idx}:{prior}"), d),
        }
    });
    rep.absorb(r);
    rep.bound("program_length", Json::i(maxlen as u64)); rep.bound("step_limit", Json::i(LIMIT));
    rep.require(rep.acc.get("ended_halt") > 200 && rep.acc.get("ended_acv") > 20 && rep.acc.get("ended_priv") > 5 && rep.acc.get("ended_illop") > 10, "halting and each kind of faulting program were judged");
    rep
}
pub fn replay(case: &str) -> Option<String> {
    let p: Vec<&str> = case.split(':').collect();
    let n = |i: usize| -> Option<u64> { p.get(i)?.parse().ok() };
    let r = match *p.first()? { "p" => { let v = n(3).unwrap_or(0); let (mut m, w) = program_machine(n(1)? as usize, n(2)?, (v & 1) * 2); if v == 2 { m.strict = true; m.uninit_regs = 0x3F; } check(&m, &format!("program {w:x?}")) } "b" => check_on(&big_template(n(1)?)?, "large-output template", 0), "t" => { let mut m = template(n(1)?)?; let mut prior = n(2).unwrap_or(0); if prior == 5 { m.strict = true; m.uninit_regs = 0x3D; prior = 0; } check_on(&m, "template", prior) } "r" => { let (m, w) = program_machine(n(1)? as usize, n(2)?, 0); check_on(&m, &format!("program {w:x?}"), n(3)?) }
        "n" => { let (mut m, w) = program_machine(n(1)? as usize, n(2)?, 0); if !nodev(&mut m, n(3)?) { return None; } check_on(&m, &format!("program {w:x?} without display/keyboard"), 0).map_err(|(s, d)| (format!("nodev:{s}"), d)) }
        "nt" => { let mut m = template(n(1)?)?; if !nodev(&mut m, n(2)?) { return None; } check_on(&m, "template without display/keyboard", 0).map_err(|(s, d)| (format!("nodev:{s}"), d)) } _ => return None };
    r.err().map(|(s, d)| format!("[{s}] {d}"))
}
