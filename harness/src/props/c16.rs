//! C16 — no machine state makes the simulator panic.
use crate::refs::isa::reg;
use crate::util::*;
use lc3_ensemble::sim::device::{BufferedDisplay, BufferedKeyboard, TimerDevice};
use lc3_ensemble::sim::mem::{MachineInitStrategy, Word};
use lc3_ensemble::sim::{InternalRegister, SimErr, SimFlags, Simulator};

const PCS: [u16; 13] = [0x3000, 0xFE00, 0xFFFF, 0x0000, 0x00FF, 0x0100, 0x01FF, 0x0200, 0x2FFF, 0xFDFF, 0xFE02, 0xFFFC, 0xFFFE];
const REGS: [[u16; 8]; 4] = [
    [0x0000, 0xFFFF, 0x3000, 0xFE00, 0xFE02, 0xFFFC, 0x0001, 0x0000],
    [0xFFFF, 0x0000, 0x2FFF, 0xFDFF, 0xFE06, 0xFFFE, 0x0000, 0xFFFF],
    [0x7FFF, 0x8000, 0xFE30, 0xFE32, 0x0100, 0x0102, 0xFFFF, 0xFE00],
    [0x3000, 0x3001, 0x0200, 0xFE04, 0xFE10, 0x0025, 0x3000, 0x3000],
];
fn flags(i: u64, fill: u16) -> SimFlags {
    SimFlags { strict: i & 1 != 0, use_real_traps: i & 2 != 0, ignore_privilege: i & 4 != 0, debug_frames: i & 8 != 0, machine_init: MachineInitStrategy::Known { value: fill } }
}
fn attach(sim: &mut Simulator, noisy: bool) { let _ = attach_h(sim, noisy); }
fn attach_h(sim: &mut Simulator, noisy: bool) -> (BufferedKeyboard, BufferedDisplay) {
    let kb = BufferedKeyboard::default(); kb.get_buffer().write().unwrap_or_else(|e| e.into_inner()).extend(b"pq");
    sim.device_handler.set_keyboard(kb.clone());
    let disp = BufferedDisplay::default();
    sim.device_handler.set_display(disp.clone());
    // noisy: a timer that fires at the very first poll and keyboard interrupts on; quiet: timer far away, IE off
    let mut t = if noisy { TimerDevice::new(Some(1), 1..=1, 0x81, 4) } else { TimerDevice::new(Some(1), 2..=3, 0x81, 4) }; t.enabled = true;
    let _ = sim.device_handler.add_device(t, &[]);
    let _ = sim.mmap_internal(0xFE30, InternalRegister::SavedSP);
    let _ = sim.mmap_internal(0xFE32, InternalRegister::PC);
    if noisy { let _ = sim.write_mem(0xFE00, Word::new_init(0x4000), lc3_ensemble::sim::MemAccessCtx::omnipotent()); }
    (kb, disp)
}
fn err_name(e: &SimErr) -> String { let s = format!("{e:?}"); s.split('(').next().unwrap_or("").to_string() }

/// (a) one word at a boundary PC
fn case_a(w: u16, pci: usize, ri: usize, fl: u64, sup: bool) -> Result<String, (String, String)> {
    let r = catch(|| {
        let mut sim = Simulator::new(flags(fl, 0x0000));
        attach(&mut sim, (w as u64 ^ fl) & 7 == 7);
        let pc = PCS[pci];
        sim.mem[pc].set(w);
        for i in 0..8 { sim.reg_file[reg(i)].set(REGS[ri][i as usize]); }
        sim.pc = pc;
        if sup { let _ = sim.write_mem(0xFFFC, Word::new_init(0x0002), lc3_ensemble::sim::MemAccessCtx::omnipotent()); }
        let mut outs = String::new();
        for _ in 0..3 {
            let r = sim.step_in();
            let _ = sim.prefetch_pc();
            let _ = sim.hit_halt(); let _ = sim.hit_breakpoint();
            match r { Ok(()) => outs.push('k'), Err(e) => { outs.push_str(&err_name(&e)); break; } }
        }
        outs
    });
    r.map_err(|m| (format!("panic:{}", panic_site(&m)), format!("word x{w:04X} at pc x{:04X} regs#{ri} flags {fl:04b} supervisor={sup}: {m}", PCS[pci])))
}
/// (b) uniform image: every memory word = w (I/O page included), PC = xFFF0, run across the address wrap
fn case_b(w: u16, fl: u64, steps: usize, sup: bool) -> Result<String, (String, String)> {
    let r = catch(|| {
        let mut sim = Simulator::new(flags(fl, w));
        attach(&mut sim, (w as u64 ^ fl) & 7 == 7);
        for a in 0..=0xFFFFu16 { sim.mem[a].set(w); }
        for i in 0..8 { sim.reg_file[reg(i)].set(if i == 6 { 0x0001 } else { w.rotate_left(i as u32) }); }
        sim.pc = 0xFFF0;
        if sup { let _ = sim.write_mem(0xFFFC, Word::new_init(0x0002), lc3_ensemble::sim::MemAccessCtx::omnipotent()); }
        let mut last = String::from("ok");
        for _ in 0..steps {
            let r = sim.step_in();
            let _ = sim.prefetch_pc();
            if let Err(e) = r { last = err_name(&e); if !flags(fl, 0).use_real_traps { break; } }
        }
        // the run-style entry point as well, bounded by our own tripwire (an exception loop under real traps never executes an instruction)
        let mut budget = 8;
        let _ = sim.run_while(|_| { budget -= 1; budget > 0 }); let _ = sim.prefetch_pc();
        last
    });
    r.map_err(|m| (format!("panic:{}", panic_site(&m)), format!("uniform image x{w:04X} flags {fl:04b} supervisor={sup}: {m}")))
}

// ---- (c) histories on one simulator: loads over loads, runs, resets (non-initial states)
const C_SRC: [&str; 4] = [
    // three blocks; the code reaches into the second and third one with every kind of load/store
    ".orig x3000\nLD R1, P2\nLDR R0,R1,#0\nSTR R0,R1,#1\nLDI R2, P3\nSTI R2, P3\nLD R3, P3\nLDR R4,R3,#1\nHALT\nP2 .fill x4000\nP3 .fill x5000\n.end\n.orig x4000\n.fill x0011\n.blkw 2\n.end\n.orig x5000\n.fill x5001\n.fill x0022\n.end",
    // one block
    ".orig x3000\nLD R0, VAL\nST R0, VAL\nLEA R1, VAL\nLDR R2,R1,#0\nSTR R2,R1,#0\nHALT\nVAL .fill x0022\n.end",
    // two blocks, the second one at the top of user space; subroutine call with the stack in the second block
    ".orig x3000\nLD R6, SP\nJSR F\nLDR R0,R6,#-1\nHALT\nF ADD R6,R6,#-1\nSTR R7,R6,#0\nLDR R7,R6,#0\nADD R6,R6,#1\nRET\nSP .fill xFDFF\n.end\n.orig xFDF0\n.blkw 15\n.fill 7\n.end",
    // reserved words only
    ".orig x3000\n.blkw 4\n.end",
];
fn c_objs() -> &'static Vec<lc3_ensemble::asm::ObjectFile> {
    static O: std::sync::OnceLock<Vec<lc3_ensemble::asm::ObjectFile>> = std::sync::OnceLock::new();
    O.get_or_init(|| C_SRC.iter().map(|s| lc3_ensemble::asm::assemble_debug(lc3_ensemble::parse::parse_ast(s).expect("parses"), s).expect("assembles")).collect())
}
const C_OPS: [&str; 16] = ["load 3-block file", "load 1-block file", "load 2-block file", "load reserved-only file", "run_with_limit(40)", "step_in", "reset", "pc := x3000", "toggle strict",
    "add_device at [xFE10, xFE00] (second port taken: must fail)", "add_device at [xFE10, xFE12]", "remove_device(last id)", "host read and write of xFE10 / xFE12",
    "the thread feeding the keyboard dies holding its buffer lock (lock poisoned, free again)", "the thread draining the display dies holding its buffer lock", "host read of KBSR/KBDR/DSR and write of DDR"];
#[derive(Clone)]
struct Dummy;
impl lc3_ensemble::sim::device::ExternalDevice for Dummy {
    fn io_read(&mut self, _: u16, _: bool) -> Option<u16> { Some(0x00D0) }
    fn io_write(&mut self, _: u16, _: u16) -> bool { true }
    fn io_reset(&mut self) {}
    fn poll_interrupt(&mut self) -> Option<lc3_ensemble::sim::device::Interrupt> { None }
}
fn c_history(mut h: u64, len: u32) -> Vec<usize> { let mut v = vec![]; for _ in 0..len { v.push((h % 16) as usize); h /= 16; } v }
fn case_c(h: u64, len: u32, fl: u64) -> Result<String, (String, String)> {
    let ops = c_history(h, len);
    let names: Vec<&str> = ops.iter().map(|o| C_OPS[*o]).collect();
    let mut at = 0usize;
    let r = catch(std::panic::AssertUnwindSafe(|| {
        let mut sim = Simulator::new(flags(fl, 0x0000));
        let (kb, disp) = attach_h(&mut sim, false);
        let mut outs = String::new();
        let mut last_id = None;
        for (k, o) in ops.iter().enumerate() {
            at = k;
            match *o {
                0..=3 => { let r = sim.load_obj_file(&c_objs()[*o]); outs.push(if r.is_ok() { 'l' } else { 'L' }); }
                4 => match sim.run_with_limit(40) { Ok(()) => outs.push('r'), Err(e) => outs.push_str(&err_name(&e)) },
                5 => match sim.step_in() { Ok(()) => outs.push('s'), Err(e) => outs.push_str(&err_name(&e)) },
                6 => { sim.reset(); outs.push('0'); }
                7 => { sim.pc = 0x3000; outs.push('p'); }
                8 => { sim.flags.strict = !sim.flags.strict; outs.push('t'); }
                9 => { let r = sim.device_handler.add_device(Dummy, &[0xFE10, 0xFE00]); outs.push(if r.is_ok() { 'a' } else { 'A' }); }
                10 => { match sim.device_handler.add_device(Dummy, &[0xFE10, 0xFE12]) { Ok(id) => { last_id = Some(id); outs.push('d'); } Err(_) => outs.push('D') } }
                11 => { if let Some(id) = last_id.take() { sim.device_handler.remove_device(id); } outs.push('x'); }
                13 => { poison_rwlock(&kb.get_buffer()); outs.push('k'); }
                14 => { poison_rwlock(&disp.get_buffer()); outs.push('y'); }
                15 => { let c = lc3_ensemble::sim::MemAccessCtx { privileged: true, ..sim.default_mem_ctx() };
                        for a in [0xFE00u16, 0xFE02, 0xFE04] { let _ = sim.read_mem(a, c); } let _ = sim.write_mem(0xFE06, Word::new_init(0x41), c); outs.push('i'); }
                _ => { for a in [0xFE10u16, 0xFE12] {
                        let _ = sim.read_mem(a, lc3_ensemble::sim::MemAccessCtx::omnipotent());
                        let c = sim.default_mem_ctx(); let c = lc3_ensemble::sim::MemAccessCtx { privileged: true, ..c };
                        let _ = sim.read_mem(a, c); let _ = sim.write_mem(a, Word::new_init(7), c);
                    } outs.push('h'); }
            }
            let _ = sim.prefetch_pc(); let _ = sim.hit_halt();
        }
        outs
    }));
    r.map_err(|m| (format!("panic:{}", panic_site(&m)), format!("history {names:?} (flags {fl:04b}) panicked in operation {at}: {m}")))
}

/// (d) scale: one run-style call that touches thousands of distinct locations, nests thousands of calls or runs for > 2^16 steps
fn case_d(kind: u64, fl: u64) -> Result<String, (String, String)> {
    const KINDS: [&str; 6] = ["NOP sled, run_with_limit(70000)", "ADD sled, run_while 6000 steps", "JSR-to-next sled (one call per step), run_with_limit(70000)", "store sled (STR R0,R1,#0 ; ADD R1,R1,#1) walking 5000 cells", "NOP sled, 70000 step_in calls", "JSR sled, step_over / step_out"];
    let r = catch(std::panic::AssertUnwindSafe(|| {
        let mut sim = Simulator::new(flags(fl, 0x0000));
        // no interrupting device here: the run is meant to stay in the sled
        sim.device_handler.set_keyboard(BufferedKeyboard::default()); sim.device_handler.set_display(BufferedDisplay::default());
        let w: &[u16] = match kind { 0 | 4 => &[0x0000], 1 => &[0x1021], 2 | 5 => &[0x4800], _ => &[0x7040, 0x1261] };
        for a in 0x3000..0xFD00u16 { sim.mem[a].set(w[(a as usize) % w.len()]); }
        sim.pc = 0x3000; sim.reg_file[reg(1)].set(0x8000); sim.reg_file[reg(6)].set(0xFD80);
        let _ = sim.write_mem(0xFFFC, Word::new_init(0x8002), lc3_ensemble::sim::MemAccessCtx::omnipotent());
        let mut outs = String::new();
        match kind {
            0 | 2 | 3 => { match sim.run_with_limit(if kind == 3 { 10_000 } else { 70_000 }) { Ok(()) => outs.push('r'), Err(e) => outs.push_str(&err_name(&e)) } }
            1 => { let mut n = 0; match sim.run_while(|_| { n += 1; n < 6000 }) { Ok(()) => outs.push('w'), Err(e) => outs.push_str(&err_name(&e)) } }
            4 => { for _ in 0..70_000 { if let Err(e) = sim.step_in() { outs.push_str(&err_name(&e)); break; } } outs.push('s'); }
            _ => { let _ = sim.run_with_limit(5000); let _ = sim.step_over(); let _ = sim.step_in(); let mut n = 0; let _ = sim.run_while(|_| { n += 1; n < 100 }); outs.push('o'); }
        }
        let n = sim.observer.take_mem_accesses().count(); let _ = sim.frame_stack.len(); let _ = sim.prefetch_pc();
        format!("{outs}{}", n.min(9))
    }));
    r.map_err(|m| (format!("panic:{}", panic_site(&m)), format!("{} (flags {fl:04b}): {m}", KINDS[kind as usize])))
}

pub fn run(ctx: &Ctx) -> Report {
    let mut rep = Report::new("(a) every 16-bit word at each of 13 boundary PCs (quick: 3: x3000, xFE00, xFFFF) x 4 register presets (quick: rotated) x all 16 combinations of {strict, real traps, ignore privilege, debug frames} x {user, supervisor}, with keyboard (IE on, data queued), display, an enabled timer and internal-register mappings (1 case in 8 'noisy': timer firing at the first poll and keyboard interrupts enabled; otherwise first fire after 2-3 polls) of PC and saved SP attached; up to 3 steps, prefetch_pc() after each; (b) uniform images: all 64K words = w for every w, PC = xFFF0, 20 (thorough 60) steps across the address wrap, then run_while with an 8-step tripwire, for flag sets rotated by w (thorough: all 16). (c) every history of <=4 (thorough 5) operations on one simulator over {load a 3-block / 1-block / 2-block / reserved-words-only object file, run_with_limit(40), step_in, reset, pc := x3000, toggle strict, add_device with a taken port (must fail), add_device on free ports, remove_device, host reads/writes of those ports, the keyboard's / the display's buffer lock poisoned by a thread that died holding it, host reads of KBSR/KBDR/DSR and a write of DDR} under 4 (thorough 16) flag sets, so that loads over loads and runs after reloads are covered. Oracle: no panic (overflow checks on); every failure is a SimErr. non-trivial = cases that end in a simulator error");
    let npc = ctx.pick(3u64, 13u64);
    let nreg = ctx.pick(1u64, 4u64);
    let r = sweep(ctx, 65536 * npc * nreg * 16 * 2, 2048, |k, acc| {
        let w = (k % 65536) as u16; let k2 = k / 65536;
        let pci = (k2 % npc) as usize; let fl = k2 / npc % 16; let sup = k2 / (npc * 16) % 2 == 1; let ri = if nreg == 1 { ((w as u64 + fl) % 4) as usize } else { (k2 / (npc * 32) % 4) as usize };
        acc.evals += 1; acc.transitions += 3; acc.count("a_cases", 1);
        match case_a(w, pci, ri, fl, sup) {
            Ok(o) => { if o.len() > 3 { acc.nontrivial += 1; } acc.outcomes.insert(fnv_str(&o)); }
            Err((sig, d)) => acc.violation(sig, format!("a:{w}:{pci}:{ri}:{fl}:{}", sup as u8), d),
        }
        acc.sample(k, ctx.seed, 2_000_003, || format!("word x{w:04X} at pc x{:04X} regs#{ri} flags {fl:04b} supervisor={sup}", PCS[pci]));
    });
    rep.absorb(r);
    let steps = ctx.pick(20usize, 60usize);
    let nfl = ctx.pick(1u64, 16u64);
    let r = sweep(ctx, 65536 * nfl, 64, |k, acc| {
        let w = (k % 65536) as u16; let fl = if nfl == 1 { (w as u64 ^ (w as u64 >> 4)) % 16 } else { k / 65536 }; let sup = (w >> 7) & 1 == 1;
        acc.evals += 1; acc.transitions += steps as u64; acc.count("b_cases", 1);
        match case_b(w, fl, steps, sup) {
            Ok(o) => { if o != "ok" { acc.nontrivial += 1; } acc.outcomes.insert(fnv_str(&o) ^ 0x55); }
            Err((sig, d)) => acc.violation(sig, format!("b:{w}:{fl}:{steps}:{}", sup as u8), d),
        }
    });
    rep.absorb(r);
    // (c)
    let maxlen = ctx.pick(4u32, 5u32);
    for len in 1..=maxlen {
        let n = 16u64.pow(len);
        let nf = ctx.pick(4u64, 16u64);
        let r = sweep(ctx, n * nf, 16, |k, acc| {
            let (h, f) = (k / nf, k % nf);
            let fl = if nf == 4 { [0b0001u64, 0b0011, 0b1001, 0b0100][f as usize] } else { f };
            acc.evals += 1; acc.transitions += len as u64; acc.traces += 1; acc.count("c_histories", 1);
            match case_c(h, len, fl) {
                Ok(o) => { if o.chars().any(|c| c.is_ascii_uppercase()) { acc.nontrivial += 1; } acc.outcomes.insert(fnv_str(&o) ^ 0xC); }
                Err((sig, d)) => acc.violation(sig, format!("c:{h}:{len}:{fl}"), d),
            }
        });
        rep.absorb(r);
    }
    let r = sweep(ctx, 6 * 4, 1, |k, acc| {
        let (kind, fl) = (k / 4, [0b0000u64, 0b1000, 0b0001, 0b1010][(k % 4) as usize]);
        acc.evals += 1; acc.transitions += 70_000; acc.count("d_long_runs", 1);
        match case_d(kind, fl) { Ok(o) => { acc.nontrivial += 1; acc.outcomes.insert(fnv_str(&o) ^ 0xD); } Err((sig, d)) => acc.violation(sig, format!("d:{kind}:{fl}"), d) }
    });
    rep.absorb(r);
    rep.bound("history_length", Json::i(maxlen as u64));
    rep.bound("pcs", Json::i(npc)); rep.bound("register_presets", Json::i(nreg)); rep.bound("flag_sets", Json::i(16)); rep.bound("uniform_image_steps", Json::i(steps as u64));
    rep.require(rep.acc.outcomes.len() >= 8, "several error kinds and clean runs observed");
    rep.assume("panics are judged with overflow-checks and debug-assertions on (Cargo dev-profile semantics)");
    rep
}
pub fn replay(case: &str) -> Option<String> {
    let p: Vec<&str> = case.split(':').collect();
    let n = |i: usize| -> Option<u64> { p.get(i)?.parse().ok() };
    let r = match *p.first()? {
        "a" => case_a(n(1)? as u16, n(2)? as usize, n(3)? as usize, n(4)?, n(5)? == 1).map(|_| ()),
        "b" => case_b(n(1)? as u16, n(2)?, n(3)? as usize, n(4)? == 1).map(|_| ()),
        "d" => case_d(n(1)?, n(2)?).map(|_| ()),
        "c" => case_c(n(1)?, n(2)? as u32, n(3)?).map(|_| ()),
        _ => return None,
    };
    r.err().map(|(s, d)| format!("[{s}] {d}"))
}
