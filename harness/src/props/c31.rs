//! C31 — seeded simulations are reproducible (paired runs over a configuration grid).
use super::osinfo::os;
use crate::refs::isa::reg;
use crate::util::*;
use lc3_ensemble::asm::assemble;
use lc3_ensemble::parse::parse_ast;
use lc3_ensemble::sim::device::{BufferedDisplay, BufferedKeyboard, TimerDevice};
use lc3_ensemble::sim::mem::MachineInitStrategy;
use lc3_ensemble::sim::{SimFlags, Simulator};

const PROGRAMS: [&str; 7] = [
    // observes the machine fill: uninitialized registers and memory flow into results
    ".orig x3000\nADD R0,R1,R2\nLDR R3,R4,#0\nST R0, X\nLD R5, Y\nADD R5,R5,R3\nNOT R6,R7\nSTR R5,R6,#0\nBRn A\nADD R0,R0,#1\nA LD R1, FAR\nHALT\nX .blkw 1\nY .blkw 1\nFAR .fill x1234\n.end",
    ".orig x3000\nAND R0,R0,#0\nL ADD R0,R0,#1\nBRnzp L\n.end",
    ".orig x3000\nL GETC\nOUT\nBRnzp L\n.end",
    ".orig x3000\nLEA R0, S\nPUTS\nLD R6, SP\nJSR F\nHALT\nF STR R7,R6,#-1\nADD R1,R1,#1\nRET\nSP .fill xFD00\nS .stringz \"seeded\"\n.end",
    ".orig x3000\nLD R6, SP\nL ADD R6,R6,#-1\nSTR R6,R6,#0\nLDR R1,R6,#0\nADD R2,R2,R1\nBRnzp L\nSP .fill x8000\n.end",
    // reads I/O addresses that nothing answers (unmapped ports, KBDR/KBSR possibly with nothing queued) and the device registers, with privilege checks off
    ".orig x3000\nL LDI R0, P1\nLDI R1, P2\nLDI R2, P3\nLDI R3, P4\nLDI R4, P5\nADD R5,R0,R1\nADD R5,R5,R2\nADD R5,R5,R3\nST R5, ACC\nSTI R4, P2\nBRnzp L\nP1 .fill xFE10\nP2 .fill xFE20\nP3 .fill xFE02\nP4 .fill xFE00\nP5 .fill xFFFF\nACC .blkw 1\n.end",
    // privilege checks off: an RTI executed in user mode before any trap or interrupt was taken, popping a user-mode PSR; then the stack pointer is observed
    ".orig x3000\nLD R6, SP\nRTI\nSP .fill STK\nSTK .fill NEXT\n.fill x8002\nNEXT ST R6, O1\nADD R0,R6,#0\nLEA R1, S\nADD R0,R0,R1\nL ADD R2,R2,#1\nST R2, O2\nBRnzp L\nO1 .blkw 1\nO2 .blkw 1\nS .fill 0\n.end",
];
const HANDLER: &str = ".orig x1F00\nADD R6,R6,#-1\nSTR R0,R6,#0\nLD R0, C\nADD R0,R0,#1\nST R0, C\nLDR R0,R6,#0\nADD R6,R6,#1\nRTI\nC .fill 0\n.end";

fn strategies(thorough: bool) -> Vec<MachineInitStrategy> {
    let mut v: Vec<MachineInitStrategy> = [0u64, 1, 2, 7, 1 << 63].iter().map(|s| MachineInitStrategy::Seeded { seed: *s }).collect();
    if thorough { v.extend([3u64, 11, u64::MAX, 0xDEADBEEF].iter().map(|s| MachineInitStrategy::Seeded { seed: *s })); }
    v.extend([0u16, 0xFFFF, 0x1234].iter().map(|k| MachineInitStrategy::Known { value: *k }));
    v
}
#[derive(Clone, Copy, Debug)]
struct Cfg { strat: MachineInitStrategy, range: u8, tseed: u64, prog: usize, kb: u8, flags: u8, /** scale: 50000 steps (tens of thousands of timer intervals drawn) instead of the usual horizon */ long: bool }

fn make(c: &Cfg) -> (Simulator, BufferedDisplay) { make_via(c, false) }
/// `reset_first`: the freshly constructed simulator is `reset()` before anything is loaded or attached (same configuration, one more life-cycle step)
fn make_via(c: &Cfg, reset_first: bool) -> (Simulator, BufferedDisplay) {
    let mut sim = Simulator::new(SimFlags { machine_init: c.strat, use_real_traps: c.flags & 1 == 1, strict: false, debug_frames: c.flags & 2 == 2, ignore_privilege: c.prog >= 5 });
    if reset_first { sim.reset(); }
    let p = assemble(parse_ast(PROGRAMS[c.prog]).unwrap()).unwrap();
    let h = assemble(parse_ast(HANDLER).unwrap()).unwrap();
    sim.load_obj_file(&p).unwrap(); sim.load_obj_file(&h).unwrap();
    sim.mem[0x0181].set(0x1F00);
    let kb = BufferedKeyboard::default(); kb.get_buffer().write().unwrap_or_else(|e| e.into_inner()).extend(match c.kb { 0 => &b""[..], 1 => &b"ab"[..], _ => &b"\x00\xffz"[..] });
    let d = BufferedDisplay::default();
    sim.device_handler.set_keyboard(kb); sim.device_handler.set_display(d.clone());
    let mut t = match c.range { 0 => TimerDevice::new(Some(c.tseed), 3..=3, 0x81, 4), 1 => TimerDevice::new(Some(c.tseed), 1..=3, 0x81, 4), 2 => TimerDevice::new(Some(c.tseed), 0..=2, 0x81, 4), 4 => TimerDevice::new(Some(c.tseed), 3..=3, 0x81, 4), _ => TimerDevice::new(Some(c.tseed), 5..40, 0x81, 2) };
    t.enabled = true;
    sim.device_handler.add_device(t, &[]).ok().unwrap();
    if c.range == 4 {
        // two more devices that raise interrupts of the SAME priority on the same steps: the winner must not depend on anything but the configuration
        for v in [0x82u8, 0x83] { let mut t2 = TimerDevice::new(Some(c.tseed), 3..=3, v, 4); t2.enabled = true; sim.device_handler.add_device(t2, &[]).ok().unwrap(); }
        sim.mem[0x0182].set(0x1F20); sim.mem[0x0183].set(0x1F30);
        for (a, w) in [(0x1F20u16, 0x1021u16), (0x1F21, 0x8000), (0x1F30, 0x14A1), (0x1F31, 0x8000)] { sim.mem[a].set(w); }
    }
    (sim, d)
}

fn check(c: &Cfg, steps: usize) -> Result<u64, (String, String)> {
    let what = format!("{c:?}");
    let steps = if c.long { 50_000 } else { steps };
    // Nondeterminism of the subject shows up as run-to-run differences, possibly only sometimes: compare several independently
    // built simulators against the first one, so that a random tie-break or entropy source is caught (and re-caught on replay) with near certainty.
    let mut total = 0u64;
    for rep in 0..5 { total = check_pair(c, steps, &what, rep)?; }
    Ok(total)
}
/// `rep` varies what happens in the process between the two constructions (nothing / a simulator with another strategy is built /
/// another one with the same strategy is built and run): the outcome may depend on the configuration only, not on process history.
fn check_pair(c: &Cfg, steps: usize, what: &str, rep: u32) -> Result<u64, (String, String)> {
    let what = what.to_string();
    let r = catch(|| -> Result<u64, (String, String)> {
        let (mut a, da) = make(c);
        match rep {
            1 => { let other = Simulator::new(SimFlags { machine_init: MachineInitStrategy::Seeded { seed: 0x5EED }, ..Default::default() }); std::hint::black_box(&other); }
            2 => { let (mut x, _) = make(c); for _ in 0..25 { let _ = x.step_in(); } x.reset(); }
            3 => { let other = Simulator::new(SimFlags { machine_init: MachineInitStrategy::Known { value: 0x0F0F }, ..Default::default() }); std::hint::black_box(&other); let (x, _) = make(c); std::hint::black_box(&x); }
            _ => {}
        }
        // (rep 4: the second simulator went through new -> reset -> load; under every deterministic strategy that is the same machine)
        if rep == 4 && matches!(c.strat, MachineInitStrategy::Unseeded) { return Ok(0); }
        let (mut b, db) = make_via(c, rep == 4);
        // initial state identical, and Known fills everything outside the OS image, the loaded program and the I/O page
        for x in 0..=0xFFFFu16 { if a.mem[x] != b.mem[x] { return Err(("initial-memory-differs".into(), format!("{what}: two simulators built alike start with different memory"))); } }
        for i in 0..8 { if a.reg_file[reg(i)] != b.reg_file[reg(i)] { return Err(("initial-registers-differ".into(), format!("{what}: two simulators built alike start with different registers"))); } }
        if let MachineInitStrategy::Known { value } = c.strat {
            let fresh = Simulator::new(SimFlags { machine_init: c.strat, ..Default::default() });
            for i in 0..8 { if fresh.reg_file[reg(i)].get() != value { return Err(("known-fill:register".into(), format!("Known{{x{value:04X}}}: R{i} = x{:04X}", fresh.reg_file[reg(i)].get()))); } }
            for x in 0..0xFE00u16 { if !os().image.contains_key(&x) && fresh.mem[x].get() != value { return Err(("known-fill:memory".into(), format!("Known{{x{value:04X}}}: mem[x{x:04X}] = x{:04X}", fresh.mem[x].get()))); } }
        }
        let mut interrupts = 0u64;
        for _k in 0..steps {
            a.observer.clear();
            let depth0 = a.frame_stack.len();
            let ra = a.step_in(); let rb = b.step_in();
            if format!("{ra:?}") != format!("{rb:?}") { return Err(("runs-diverge".into(), format!("{what}: two identically configured simulations of the same program with the same inputs do not produce identical histories (which component diverges first varies from run to run)"))); }
            for i in 0..8 { if a.reg_file[reg(i)] != b.reg_file[reg(i)] { return Err(("runs-diverge".into(), format!("{what}: two identically configured simulations of the same program with the same inputs do not produce identical histories (which component diverges first varies from run to run)"))); } }
            if a.pc != b.pc || a.psr().get() != b.psr().get() { return Err(("runs-diverge".into(), format!("{what}: two identically configured simulations of the same program with the same inputs do not produce identical histories (which component diverges first varies from run to run)"))); }
            for (x, _) in a.observer.take_mem_accesses() { if x < 0xFE00 && a.mem[x] != b.mem[x] { return Err(("runs-diverge".into(), format!("{what}: two identically configured simulations of the same program with the same inputs do not produce identical histories (which component diverges first varies from run to run)"))); } }
            if a.frame_stack.len() != b.frame_stack.len() || a.instructions_run != b.instructions_run { return Err(("runs-diverge".into(), format!("{what}: two identically configured simulations of the same program with the same inputs do not produce identical histories (which component diverges first varies from run to run)"))); }
            if a.frame_stack.len() > depth0 && a.psr().priority() > 0 { interrupts += 1; }
            if *da.get_buffer().read().unwrap_or_else(|e| e.into_inner()) != *db.get_buffer().read().unwrap_or_else(|e| e.into_inner()) { return Err(("runs-diverge".into(), format!("{what}: two identically configured simulations of the same program with the same inputs do not produce identical histories (which component diverges first varies from run to run)"))); }
            if ra.is_err() { break; }
        }
        for x in 0..0xFE00u16 { if a.mem[x] != b.mem[x] { return Err(("runs-diverge".into(), format!("{what}: two identically configured simulations of the same program with the same inputs do not produce identical histories (which component diverges first varies from run to run)"))); } }
        Ok(interrupts)
    });
    match r { Ok(x) => x, Err(p) => Err((format!("panic:{}", panic_site(&p)), format!("{what}: {p}"))) }
}
fn cfgs(thorough: bool) -> Vec<Cfg> {
    let mut v = vec![];
    for strat in strategies(thorough) { for range in 0..5u8 { for tseed in if thorough { vec![5u64, 9, 0, u64::MAX] } else { vec![0u64, 9] } { for prog in 0..7 { for kb in 0..if thorough { 3u8 } else { 2 } { for flags in if thorough { vec![0u8, 1, 2, 3] } else { vec![0u8, 3] } {
        v.push(Cfg { strat, range, tseed, prog, kb, flags, long: false });
    } } } } } }
    for (range, tseed) in [(2u8, 0u64), (1, 9), (2, u64::MAX)] { v.push(Cfg { strat: MachineInitStrategy::Seeded { seed: 7 }, range, tseed, prog: 1, kb: 0, flags: 0, long: true }); }
    v
}
pub fn run(ctx: &Ctx) -> Report {
    let mut rep = Report::new("grid: machine strategies {Seeded 0,1,2,7,2^63 (thorough +4), Known 0,xFFFF,x1234} x timer ranges {3..=3, 1..=3, 0..=2, 5..40, and three timers of equal priority firing on the same steps} x timer seeds (each configuration 4 times: with nothing, a simulator of another strategy, a run-and-reset simulator of the same configuration, or both built in the process between the two constructions) x 6 programs (the sixth reads unmapped I/O ports and the device registers with privilege checks off) (one whose results depend on uninitialized registers and memory, a counting loop under timer interrupts, a GETC/OUT echo loop, PUTS + subroutine with stack, a stack-walking loop) x keyboard inputs x flag sets; for each configuration independently constructed simulators (4 pairs): identical initial 64K memory and registers, then after every one of 400 (thorough 1500) steps identical result, registers (with init flags), PC, PSR, touched memory, frame depth, instruction count, output; identical final memory; Known{v}: every register and every word outside the OS image and the I/O page equals v. non-trivial = configurations in which timer interrupts were taken");
    let cs = cfgs(ctx.thorough());
    let steps = ctx.pick(400usize, 1500usize);
    let r = sweep(ctx, cs.len() as u64, 1, |i, acc| {
        let c = &cs[i as usize];
        acc.evals += 1; acc.traces += 1; acc.transitions += 2 * steps as u64;
        match check(c, steps) {
            Ok(ints) => { if ints > 0 { acc.nontrivial += 1; } acc.outcomes.insert(mix(c.prog as u64 * 8 + c.range as u64, ints.min(50))); }
            Err((sig, d)) => acc.violation(sig, i.to_string() + if ctx.thorough() { ":t" } else { ":q" }, d),
        }
        acc.sample(i, ctx.seed, 101, || format!("{c:?}"));
    });
    rep.absorb(r);
    rep.bound("configurations", Json::i(cs.len() as u64)); rep.bound("steps", Json::i(steps as u64));
    rep.require(rep.acc.nontrivial > 50, "timer interrupts were taken in many configurations");
    rep
}
pub fn replay(case: &str) -> Option<String> {
    let (i, t) = case.split_once(':')?;
    let cs = cfgs(t == "t");
    check(cs.get(i.parse::<usize>().ok()?)?, if t == "t" { 1500 } else { 400 }).err().map(|(s, d)| format!("[{s}] {d}"))
}
