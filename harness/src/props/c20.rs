//! C20 — linking unions images, resolves externals, and is order-independent. (Also hosts the link half of C26.)
use crate::gen::objs::*;
use crate::refs::asm as refasm;
use crate::refs::link::{self as reflink, Linked};
use crate::util::*;
use lc3_ensemble::asm::{AsmErr, ObjectFile};
use lc3_ensemble::err::Error as _;
use std::sync::OnceLock;

pub struct Fam { pub names: Vec<String>, pub objs: Vec<ObjectFile>, pub refs: Vec<refasm::RefObj> }
pub fn fam() -> &'static Fam {
    static F: OnceLock<Fam> = OnceLock::new();
    F.get_or_init(|| {
        let mut f = Fam { names: vec![], objs: vec![], refs: vec![] };
        for (d, p, o, _) in link_objs() {
            let rr = refasm::assemble(&p);
            let Some(ro) = rr.obj else { continue };
            if !ro.ext_ambiguous.is_empty() { continue; }
            f.names.push(d); f.objs.push(o); f.refs.push(ro);
        }
        f
    })
}

/// A link expression over family indices: ((a b) c) or (a (b c)) etc. encoded as a postfix string, e.g. "3 5 L 7 L".
fn eval(expr: &str) -> Result<Result<ObjectFile, AsmErr>, String> {
    let f = fam();
    catch(|| {
        let mut stack: Vec<Result<ObjectFile, AsmErr>> = vec![];
        for t in expr.split_whitespace() {
            if t == "L" {
                let b = stack.pop().unwrap(); let a = stack.pop().unwrap();
                stack.push(match (a, b) { (Ok(a), Ok(b)) => ObjectFile::link(a, b), (Err(e), _) | (_, Err(e)) => Err(e) });
            } else { stack.push(Ok(f.objs[t.parse::<usize>().unwrap()].clone())); }
        }
        stack.pop().unwrap()
    })
}
fn members(expr: &str) -> Vec<usize> { expr.split_whitespace().filter(|t| *t != "L").map(|t| t.parse().unwrap()).collect() }

fn check(expr: &str) -> Option<(String, String)> {
    let f = fam();
    let ms = members(expr);
    let refs: Vec<&refasm::RefObj> = ms.iter().map(|i| &f.refs[*i]).collect();
    let exp = reflink::link(&refs);
    let names: Vec<&str> = ms.iter().map(|i| f.names[*i].as_str()).collect();
    match eval(expr) {
        Err(p) => Some((format!("panic:{}", panic_site(&p)), format!("link {expr} ({names:?}) panicked: {p}"))),
        Ok(Err(e)) => if exp.is_ok() { Some((format!("rejects-linkable:{:?}", e.kind), format!("link {expr} ({names:?}) failed with {:?} but blocks are disjoint and labels consistent", e.kind))) } else { None },
        Ok(Ok(o)) => match exp {
            Err(why) => Some((format!("accepts-unlinkable:{why:?}"), format!("link {expr} ({names:?}) succeeded but reference says {why:?}"))),
            Ok(exp) => {
                let got = reflink::observe(&o);
                if got == exp { None } else {
                    let part = if got.image != exp.image { "image" } else if got.labels != exp.labels { "labels" } else { "relocations" };
                    Some((format!("wrong-{part}"), format!("link {expr} ({names:?}): {part} differ\n got {}\n exp {}", show(&got, part), show(&exp, part))))
                }
            }
        },
    }
}
fn show(l: &Linked, part: &str) -> String { match part { "image" => format!("{:x?}", l.image), "labels" => format!("{:x?}", l.labels), _ => format!("{:x?}", l.relocs) } }

pub fn run(ctx: &Ctx) -> Report {
    let mut rep = Report::new("link family of ~40 assembled files (definers/users/both of labels A,B,C in several cases; externals declared before/inside/after use; touching, overlapping, containing, identical-origin blocks; same label at same/different addresses; label-free and empty files): every ordered pair, every ordered triple in both bracketings (complete), and ordered quadruples in 5 bracketings over a 12-file core (thorough: the whole family); each compared with RefLink (success bit, image, label addresses, external flags, pending relocations) — hence with every other order/bracketing of the same set. non-trivial = link whose members share a label name or touch/overlap");
    let n = fam().objs.len() as u64;
    // pairs
    let r = sweep(ctx, n * n, 16, |k, acc| {
        let e = format!("{} {} L", k / n, k % n);
        acc.evals += 1; acc.transitions += 1; acc.count("pairs", 1);
        tally(&e, acc);
        acc.sample(k, ctx.seed, 211, || format!("{e}  = link({}, {})", fam().names[(k / n) as usize], fam().names[(k % n) as usize]));
        if let Some((sig, d)) = check(&e) { acc.violation(sig, e, d); }
    });
    rep.absorb(r);
    let r = sweep(ctx, n * n * n * 2, 64, |k, acc| {
        let (a, b, c, br) = (k / (2 * n * n), k / (2 * n) % n, k / 2 % n, k % 2);
        let e = if br == 0 { format!("{a} {b} L {c} L") } else { format!("{a} {b} {c} L L") };
        acc.evals += 1; acc.transitions += 2; acc.count("triples", 1);
        tally(&e, acc);
        if let Some((sig, d)) = check(&e) { acc.violation(sig, e, d); }
    });
    rep.absorb(r);
    // quadruples over a core subset
    let core: Vec<u64> = (0..n).step_by((n as usize / ctx.pick(12, 33)).max(1)).collect();
    let m = core.len() as u64;
    let shapes = ["{a} {b} L {c} L {d} L", "{a} {b} {c} {d} L L L", "{a} {b} L {c} {d} L L", "{a} {b} {c} L L {d} L", "{a} {b} {c} L {d} L L"];
    let r = sweep(ctx, m * m * m * m * 5, 64, |k, acc| {
        let sh = shapes[(k % 5) as usize]; let k4 = k / 5;
        let (a, b, c, d) = (core[(k4 / (m * m * m)) as usize], core[(k4 / (m * m) % m) as usize], core[(k4 / m % m) as usize], core[(k4 % m) as usize]);
        let e = sh.replace("{a}", &a.to_string()).replace("{b}", &b.to_string()).replace("{c}", &c.to_string()).replace("{d}", &d.to_string());
        acc.evals += 1; acc.transitions += 3; acc.count("quadruples", 1);
        tally(&e, acc);
        if let Some((sig, d)) = check(&e) { acc.violation(sig, e, d); }
    });
    rep.absorb(r);
    rep.bound("family_size", Json::i(n)); rep.bound("quadruple_core", Json::i(m));
    rep.require(rep.acc.get("linked_ok") > 1000 && rep.acc.get("link_failed") > 1000, "both successful and failing links explored");
    rep.require(rep.acc.get("resolved_external") > 100, "links that resolve an external were explored");
    rep.assume("files carry symbol tables (assembled with debug symbols), per the property's precondition; pending relocations are observed through the documented text format's .LINKER_INFO table");
    rep
}
fn tally(e: &str, acc: &mut Acc) {
    let f = fam(); let ms = members(e);
    let refs: Vec<&refasm::RefObj> = ms.iter().map(|i| &f.refs[*i]).collect();
    let mut names = std::collections::BTreeSet::new(); let mut shared = false;
    for r in &refs { for n in r.labels.keys() { if !names.insert(n.clone()) { shared = true; } } }
    if shared { acc.nontrivial += 1; }
    match reflink::link(&refs) {
        Ok(l) => { acc.count("linked_ok", 1); if refs.iter().any(|r| r.relocs.values().any(|n| l.labels.get(n).map(|x| !x.1).unwrap_or(false))) { acc.count("resolved_external", 1); }
                   let mut h = 0u64; for (a, w) in &l.image { h = mix(h, (*a as u64) << 17 | w.map(|x| x as u64 + 1).unwrap_or(0)); } acc.outcomes.insert(h); }
        Err(w) => { acc.count("link_failed", 1); acc.outcomes.insert(w as u64); }
    }
}
pub fn replay(case: &str) -> Option<String> { check(case).map(|x| format!("[{}] {}", x.0, x.1)) }

// ---------------------------------------------------------------- C26 (link half)
/// objects for the link-error exploration: the debug family followed by its members that keep a symbol table when assembled without debug symbols
fn span_objs() -> &'static Vec<ObjectFile> {
    static S: OnceLock<Vec<ObjectFile>> = OnceLock::new();
    S.get_or_init(|| {
        let mut v = fam().objs.clone();
        for (_, p) in link_family() { if let Some((o, _)) = assemble_prog(&p, false, &crate::gen::prog::Style::plain()) { if o.symbol_table().is_some() { v.push(o); } } }
        // two table-carrying no-debug files that define the same label at different addresses
        for (l, at) in [("DUP", 0x6800u16), ("DUP", 0x6900u16)] {
            let p = { let mut p = vec![crate::gen::prog::st(crate::gen::prog::Nuc::External("ELSEWHERE".into()))]; p.extend(crate::gen::prog::block(at, vec![crate::gen::prog::lst(l, crate::gen::prog::Nuc::Halt)])); p };
            if let Some((o, _)) = assemble_prog(&p, false, &crate::gen::prog::Style::plain()) { v.push(o); }
        }
        v
    })
}
fn eval_span(expr: &str) -> Result<Result<ObjectFile, AsmErr>, String> {
    let objs = span_objs();
    catch(|| {
        let mut stack: Vec<Result<ObjectFile, AsmErr>> = vec![];
        for t in expr.split_whitespace() {
            if t == "L" { let b = stack.pop().unwrap(); let a = stack.pop().unwrap(); stack.push(match (a, b) { (Ok(a), Ok(b)) => ObjectFile::link(a, b), (Err(e), _) | (_, Err(e)) => Err(e) }); }
            else { stack.push(Ok(objs[t.parse::<usize>().unwrap()].clone())); }
        }
        stack.pop().unwrap()
    })
}
fn check_link_span(expr: &str) -> Option<(String, String, bool)> {
    match eval_span(expr) {
        Err(_) | Ok(Ok(_)) => None,
        Ok(Err(e)) => {
            let kind = e.kind;
            let r = catch(|| { let first = e.span.first(); let all: Vec<_> = e.span.iter().cloned().collect(); let v = e.span().map(|s| s.iter().cloned().collect::<Vec<_>>()); (first, all, v) });
            match r {
                Err(p) => Some((format!("link-span-panic:{}", panic_site(&p)), format!("querying the spans of link error {kind:?} ({expr}) panicked: {p}"), true)),
                Ok((first, all, v)) => {
                    if all.is_empty() { return Some(("link-empty-span-list".into(), format!("link error {kind:?} ({expr}) has an empty span list"), true)); }
                    if first != all[0] || v.as_ref() != Some(&all) { return Some(("link-span-accessors-disagree".into(), format!("{kind:?}: first={first:?} all={all:?} Error::span={v:?}"), true)); }
                    Some((String::new(), String::new(), true))
                }
            }
        }
    }
}
pub fn link_error_spans(ctx: &Ctx, rep: &mut Report) {
    let n = span_objs().len() as u64;
    let r = sweep(ctx, n * n + n * n * n, 64, |k, acc| {
        let e = if k < n * n { format!("{} {} L", k / n, k % n) } else { let k = k - n * n; format!("{} {} L {} L", k / (n * n), k / n % n, k % n) };
        acc.evals += 1; acc.transitions += 1;
        if let Some((sig, d, _)) = check_link_span(&e) {
            acc.count("link_errors", 1); acc.nontrivial += 1;
            if !sig.is_empty() { acc.violation(sig, format!("link:{e}"), d); }
        }
    });
    rep.absorb(r);
}
pub fn replay_link_span(case: &str) -> Option<String> {
    let e = case.strip_prefix("link:")?;
    check_link_span(e).and_then(|(s, d, _)| if s.is_empty() { None } else { Some(d) })
}
#[allow(dead_code)]
pub fn debug_family() {
    let all = link_family();
    let f = fam();
    for (d, p) in &all { if !f.names.contains(d) { let rr = refasm::assemble(p); eprintln!("excluded: {d}: violated {:?} ambiguous {} obj {}", rr.violated, rr.ambiguous, assemble_prog(p, true, &crate::gen::prog::Style::plain()).is_some()); } }
}
