//! C09 — user-mode code cannot touch memory or state outside user space (independent attempt classifier, no interpreter).
use super::simcmp::*;
use super::simfam::*;
use crate::refs::isa::{decode, reg, RI};
use crate::util::*;
use lc3_ensemble::sim::SimErr;

fn user(a: u16) -> bool { (0x3000..0xFE00).contains(&a) }

#[derive(Debug, Clone, Copy, PartialEq, Eq)]
enum Expect { Clean, Acv { target: u16 }, Priv }

/// What the step at the current PC attempts, judged from the pre-state only (addresses in the order the ISA makes the accesses).
fn classify(p: &Pair) -> Expect {
    let pc = p.sim.pc;
    if !user(pc) { return Expect::Acv { target: pc }; }
    let w = p.sim.mem[pc].get();
    let Ok(i) = decode(w) else { return Expect::Clean };
    let npc = pc.wrapping_add(1);
    let r = |n: u8| p.sim.reg_file[reg(n)].get();
    let chain: Vec<u16> = match i {
        RI::Ld { off, .. } | RI::St { off, .. } => vec![npc.wrapping_add(off as u16)],
        RI::Ldr { base, off, .. } | RI::Str { base, off, .. } => vec![r(base).wrapping_add(off as u16)],
        RI::Ldi { off, .. } | RI::Sti { off, .. } => { let a = npc.wrapping_add(off as u16);
            // strict mode: a pointer cell that was never written has no known value, so there is no second address to judge
            if user(a) && p.sim.flags.strict && !p.sim.mem[a].is_init() { vec![a] } else if user(a) { vec![a, p.sim.mem[a].get()] } else { vec![a] } }
        RI::Rti => return Expect::Priv,
        _ => vec![],
    };
    for a in chain { if !user(a) { return Expect::Acv { target: a }; } }
    Expect::Clean
}

/// One user-mode step judged by the classifier. `m` must be a user-mode machine with privilege checks on.
fn check_step(p: &mut Pair, what: &str) -> Result<Expect, (String, String)> {
    let exp = classify(p);
    let pc0 = p.sim.pc;
    let real = p.rf.real_traps;
    let w = if pc0 < 0xFE00 { p.sim.mem[pc0].get() } else { 0 };
    let target_before = match exp { Expect::Acv { target } if target < 0xFE00 => Some((target, p.sim.mem[target])), _ => None };
    let kb0: Vec<u8> = p.kb.get_buffer().read().unwrap_or_else(|e| e.into_inner()).iter().copied().collect();
    let d0: Vec<u8> = p.disp.get_buffer().read().unwrap_or_else(|e| e.into_inner()).clone();
    let rec0 = p.rec.log.lock().unwrap_or_else(|e| e.into_inner()).len();
    let ssp0 = p.saved_sp();
    let regs0: Vec<u16> = (0..8).map(|i| p.sim.reg_file[reg(i)].get()).collect();
    p.sim.observer.clear();
    let res = match catch(|| p.sim.step_in()) { Ok(r) => r, Err(m) => return Err((format!("panic:{}", panic_site(&m)), format!("{what}: {m}"))) };
    let ctx = format!("{what}: word x{w:04X} at pc x{pc0:04X} (real_traps={real}), expectation {exp:?}");
    let kb1: Vec<u8> = p.kb.get_buffer().read().unwrap_or_else(|e| e.into_inner()).iter().copied().collect();
    let d1: Vec<u8> = p.disp.get_buffer().read().unwrap_or_else(|e| e.into_inner()).clone();
    let rec1 = p.rec.log.lock().unwrap_or_else(|e| e.into_inner()).len();
    match exp {
        Expect::Clean => {
            match &res { Err(SimErr::AccessViolation) | Err(SimErr::PrivilegeViolation) => return Err(("spurious-violation".into(), format!("{ctx}: every address of the step is in user space but it reported {res:?}"))), _ => {} }
            if real && p.sim.psr().privileged() && !matches!(decode(w), Ok(RI::Trap { .. }) | Err(_)) { return Err(("spurious-vectoring".into(), format!("{ctx}: step entered supervisor mode though nothing privileged was attempted"))); }
        }
        Expect::Acv { .. } | Expect::Priv => {
            let want_acv = matches!(exp, Expect::Acv { .. });
            if !real {
                let ok = match &res { Err(SimErr::AccessViolation) => want_acv, Err(SimErr::PrivilegeViolation) => !want_acv, _ => false };
                if !ok { return Err((format!("violation-not-reported:{}", opname(w)), format!("{ctx}: simulator returned {res:?}"))); }
            } else {
                if res.is_err() { return Err(("real-trap-error".into(), format!("{ctx}: under real traps the step returned {res:?} instead of vectoring"))); }
                let vec = if want_acv { 0x0102 } else { 0x0100 };
                let handler = p.sim.mem[vec].get();
                if p.sim.pc != handler { return Err((format!("not-vectored:{}", opname(w)), format!("{ctx}: PC = x{:04X}, expected the handler mem[x{vec:04X}] = x{handler:04X}", p.sim.pc))); }
                if !p.sim.psr().privileged() { return Err(("vectored-in-user-mode".into(), format!("{ctx}: exception handler entered without supervisor privilege"))); }
                let sp = p.sim.reg_file[reg(6)].get();
                if sp != ssp0.wrapping_sub(2) { return Err(("stack-discipline".into(), format!("{ctx}: R6 = x{sp:04X} after entry, supervisor stack pointer was x{ssp0:04X}"))); }
                if p.sim.mem[sp.wrapping_add(1)].get() & 0x8000 == 0 { return Err(("saved-psr".into(), format!("{ctx}: saved PSR x{:04X} does not record user mode", p.sim.mem[sp.wrapping_add(1)].get()))); }
            }
            // nothing outside user space was touched
            let stack_slot = |t: u16| real && (t == ssp0.wrapping_sub(1) || t == ssp0.wrapping_sub(2)); // exception entry legitimately pushes there
            if let Some((t, before)) = target_before { if !stack_slot(t) && p.sim.mem[t] != before { return Err((format!("target-changed:{}", opname(w)), format!("{ctx}: mem[x{t:04X}] changed from {before:?} to {:?}", p.sim.mem[t]))); } }
            if kb0 != kb1 { return Err((format!("keyboard-consumed:{}", opname(w)), format!("{ctx}: keyboard queue changed {kb0:x?} -> {kb1:x?}"))); }
            if d0 != d1 { return Err((format!("display-written:{}", opname(w)), format!("{ctx}: display changed {d0:x?} -> {d1:x?}"))); }
            if rec0 != rec1 { return Err((format!("device-touched:{}", opname(w)), format!("{ctx}: the recording device received {} call(s)", rec1 - rec0))); }
            if !real { for i in 0..8 { if p.sim.reg_file[reg(i)].get() != regs0[i as usize] { return Err((format!("register-changed:{}", opname(w)), format!("{ctx}: R{i} changed by a rejected step"))); } } }
        }
    }
    // observer: everything recorded is in user space, except the exception vector entry and the two supervisor stack slots
    let allowed: Vec<u16> = if real && exp != Expect::Clean { let s = ssp0; vec![0x0100, 0x0102, s.wrapping_sub(1), s.wrapping_sub(2)] } else { vec![] };
    let trap = matches!(decode(w), Ok(RI::Trap { .. })) || (real && decode(w).is_err());
    if !trap {
        for (a, s) in p.sim.observer.take_mem_accesses() {
            if !user(a) && !allowed.contains(&a) && exp != Expect::Clean { return Err((format!("observer-outside-user-space:{}", opname(w)), format!("{ctx}: observer recorded {s:?} at x{a:04X}"))); }
            if !user(a) && exp == Expect::Clean && !matches!(decode(w), Err(_)) { return Err(("clean-step-outside-user-space".into(), format!("{ctx}: a step classified clean accessed x{a:04X}"))); }
        }
    }
    // (only on machines whose OS image the scenario has left as loaded: several target families plant sentinels inside the OS)
    let os_intact = real && exp != Expect::Clean && super::osinfo::os().image.iter().all(|(a, w)| match w { Some(w) => p.sim.mem[*a].get() == *w, None => true });
    if os_intact {
        let want_acv = matches!(exp, Expect::Acv { .. });
        let vec = if want_acv { 0x0102 } else { 0x0100 };
        // "vectored to the OS exception handler": what was entered must behave as one, i.e. report and stop the machine, never hand control
        // back to the offending program (the handler is followed, not looked up by name)
        // (single steps neither set nor read the machine control register: it is switched on here so that the OS switching it off is visible)
        p.sim.mcr().store(true, std::sync::atomic::Ordering::Relaxed);
        let mut stopped = false;
        for _ in 0..4000 {
            match catch(|| p.sim.step_in()) { Ok(Ok(())) => {} Ok(Err(e)) => return Err(("exception-handler-fails".into(), format!("{ctx}: the entered handler failed with {e:?}"))), Err(m) => return Err((format!("panic:{}", panic_site(&m)), format!("{what}: {m}"))) }
            if !p.sim.mcr().load(std::sync::atomic::Ordering::Relaxed) { stopped = true; break; }
            if !p.sim.psr().privileged() { return Err((format!("handler-returns-to-program:{}", if want_acv { "acv" } else { "priv" }), format!("{ctx}: the handler entered through mem[x{vec:04X}] returned to user mode at x{:04X} instead of stopping the machine; it printed {:?}", p.sim.pc, String::from_utf8_lossy(&p.disp.get_buffer().read().unwrap_or_else(|e| e.into_inner())[d0.len()..])))); }
        }
        if !stopped { return Err(("exception-handler-does-not-stop".into(), format!("{ctx}: 4000 steps after exception entry the machine is still running"))); }
    }
    Ok(exp)
}
fn opname(w: u16) -> &'static str { ["BR","ADD","LD","ST","JSR","AND","LDR","STR","RTI","NOT","LDI","STI","JMP","RES","LEA","TRAP"][(w >> 12) as usize] }

const B: [u16; 17] = [0x0000, 0x0001, 0x01FF, 0x0200, 0x2FFE, 0x2FFF, 0x3000, 0x3001, 0xFDFE, 0xFDFF, 0xFE00, 0xFE02, 0xFE04, 0xFE06, 0xFE10, 0xFFFC, 0xFFFE];
const B_EXTRA: [u16; 1] = [0xFFFF];

/// Targeted family: form f aimed at address t, real/virtual.
fn targeted(form: u64, ti: u64, real: bool) -> Option<(Machine, u32, String)> {
    let t = if ti < 17 { B[ti as usize] } else { B_EXTRA[0] };
    targeted_at(form, t, real)
}
fn targeted_at(form: u64, t: u16, real: bool) -> Option<(Machine, u32, String)> {
    let mut m = Machine::user();
    m.real_traps = real; m.kb = Some(vec![b'k', b'q']); m.saved_sp = 0x2FF0;
    m.regs = [0x1234, t, 0x3100, 0x3200, 0, 0, 0xFD00, 0x3050];
    m.pokes.push((0x3100, t)); // pointer cell in user space
    let mut steps = 1;
    let name;
    match form {
        0 => { name = "LDR"; m.pokes.push((0x3000, 0x6040)); }                  // LDR R0,R1,#0
        1 => { name = "STR"; m.pokes.push((0x3000, 0x7040)); }                  // STR R0,R1,#0
        2 => { name = "LDI second hop"; m.pokes.push((0x3000, 0xA0FF)); }       // LDI R0,+255 -> x3100
        3 => { name = "STI second hop"; m.pokes.push((0x3000, 0xB0FF)); }
        4 => { name = "JMP then fetch"; m.pokes.push((0x3000, 0xC040)); steps = 2; }
        5 => { name = "JSRR then fetch"; m.pokes.push((0x3000, 0x4040)); steps = 2; }
        6 => { name = "PC preset"; m.pc = t; }
        7 => { // LD / ST / LDI-first-hop / BR / JSR / fall-through placed so that PC+1+off = t; needs a user-space PC within reach
            name = "PC-relative reach";
            let cands: Vec<u16> = [t.wrapping_sub(1), t.wrapping_add(255), t.wrapping_sub(256)].into_iter().filter(|p| user(*p)).collect();
            let pc = *cands.first()?;
            let off = t.wrapping_sub(pc.wrapping_add(1)) as i16;
            if !(-256..=255).contains(&off) { return None; }
            m.pc = pc; m.pokes.push((pc, 0x2000 | (off as u16 & 0x1FF))); // LD R0, off
        }
        8 => { name = "ST reach"; let pc = [t.wrapping_sub(1), t.wrapping_add(255)].into_iter().find(|p| user(*p))?; let off = t.wrapping_sub(pc.wrapping_add(1)) as i16; m.pc = pc; m.pokes.push((pc, 0x3000 | (off as u16 & 0x1FF))); }
        9 => { name = "LDI first hop"; let pc = [t.wrapping_sub(1), t.wrapping_add(255)].into_iter().find(|p| user(*p))?; let off = t.wrapping_sub(pc.wrapping_add(1)) as i16; m.pc = pc; m.pokes.push((pc, 0xA000 | (off as u16 & 0x1FF))); }
        10 => { name = "STI first hop"; let pc = [t.wrapping_sub(1), t.wrapping_add(255)].into_iter().find(|p| user(*p))?; let off = t.wrapping_sub(pc.wrapping_add(1)) as i16; m.pc = pc; m.pokes.push((pc, 0xB000 | (off as u16 & 0x1FF))); }
        11 => { name = "BR taken then fetch"; let pc = [t.wrapping_sub(1), t.wrapping_add(255)].into_iter().find(|p| user(*p))?; let off = t.wrapping_sub(pc.wrapping_add(1)) as i16; m.pc = pc; m.pokes.push((pc, 0x0E00 | (off as u16 & 0x1FF))); steps = 2; }
        12 => { name = "JSR then fetch"; let pc = [t.wrapping_sub(1), t.wrapping_add(1023)].into_iter().find(|p| user(*p))?; let off = t.wrapping_sub(pc.wrapping_add(1)) as i16; if !(-1024..=1023).contains(&off) { return None; } m.pc = pc; m.pokes.push((pc, 0x4800 | (off as u16 & 0x7FF))); steps = 2; }
        13 => { name = "RTI"; m.pokes.push((0x3000, 0x8000)); m.regs[6] = t; }
        14 => { name = "PUTS with pointer"; m.regs[0] = t; m.pokes.push((0x3000, 0xF022)); steps = 40; }
        15 => { name = "LDR through R6"; m.regs[6] = t; m.pokes.push((0x3000, 0x6180)); }                // LDR R0,R6,#0
        16 => { name = "STR through R6"; m.regs[6] = t; m.pokes.push((0x3000, 0x7180)); }                // STR R0,R6,#0
        17 => { name = "LDR base = destination"; m.pokes.push((0x3000, 0x6240)); }                       // LDR R1,R1,#0
        18 => { name = "STR base = source"; m.pokes.push((0x3000, 0x7240)); }                            // STR R1,R1,#0
        19 => { name = "LDR through R7"; m.regs[7] = t; m.pokes.push((0x3000, 0x61C0)); }                // LDR R0,R7,#0
        20 => { name = "STR through R6 with offset"; m.regs[6] = t.wrapping_add(5); m.pokes.push((0x3000, 0x71BB)); } // STR R0,R6,#-5
        _ => return None,
    }
    Some((m, steps, format!("{name} aimed at x{t:04X}")))
}

fn run_targeted(form: u64, ti: u64, real: bool) -> Result<Option<bool>, (String, String)> { run_targeted_s(form, ti, real, false) }
/// `strict`: strict mode on and the data register R0 never written (the machine's uninitialised fill): what strict mode objects to
/// must not take precedence over, or replace, the access-control outcome
fn run_targeted_s(form: u64, ti: u64, real: bool, strict: bool) -> Result<Option<bool>, (String, String)> {
    let Some((mut m, steps, mut what)) = targeted(form, ti, real) else { return Ok(None) };
    if strict { m.strict = true; m.uninit_regs = 1; what += " (strict mode, R0 uninitialised)"; }
    let mut p = build(&m);
    let mut violated = false;
    for _ in 0..steps {
        if p.sim.psr().privileged() { // inside the OS (trap routine or exception handler): user-mode rules no longer apply
            if let Err(m) = catch(|| p.sim.step_in()) { return Err((format!("panic:{}", panic_site(&m)), m)); }
            continue;
        }
        let e = check_step(&mut p, &what)?;
        if e != Expect::Clean { violated = true; if !real { break; } }
    }
    Ok(Some(violated))
}

// ---- history family: the same attempts, made after the OS itself has just executed / touched the target on the same simulator
const PRE_AT: u16 = 0x5000;
const PRE_NAMES: [&str; 4] = ["OUT", "PUTS", "GETC", "PUTS of an empty string"];
/// Runs one OS service call from user code at x5000 on `p` (which is left in user mode just after the call);
/// returns the supervisor-space addresses the OS executed or accessed while serving it.
fn preamble(p: &mut Pair, pre: u64) -> Result<Vec<u16>, (String, String)> {
    let word = [0xF021u16, 0xF022, 0xF020, 0xF022][pre as usize];
    p.sim.mem[PRE_AT].set(word);
    for (k, c) in [0x4Fu16, 0x4B, 0].iter().enumerate() { p.sim.mem[PRE_AT + 0x100 + k as u16].set(*c); }
    p.sim.reg_file[reg(0)].set(if pre == 1 { PRE_AT + 0x100 } else if pre == 3 { PRE_AT + 0x102 } else { 0x0041 });
    p.sim.pc = PRE_AT;
    let mut seen = std::collections::BTreeSet::new();
    for _ in 0..3000 {
        let pc = p.sim.pc;
        if p.sim.psr().privileged() && !user(pc) { seen.insert(pc); }
        p.sim.observer.clear();
        match catch(|| p.sim.step_in()) { Ok(Ok(())) => {} Ok(Err(e)) => return Err(("machinery:preamble".into(), format!("preamble {} failed: {e:?}", PRE_NAMES[pre as usize]))), Err(m) => return Err((format!("panic:{}", panic_site(&m)), m)) }
        for (a, _) in p.sim.observer.take_mem_accesses() { if a < 0x3000 { seen.insert(a); } }
        if p.sim.pc == PRE_AT + 1 && !p.sim.psr().privileged() { return Ok(seen.into_iter().collect()); }
    }
    Err(("machinery:preamble".into(), format!("preamble {} did not return", PRE_NAMES[pre as usize])))
}
fn preamble_targets(pre: u64, real: bool) -> Vec<u16> {
    static T: std::sync::OnceLock<Vec<Vec<u16>>> = std::sync::OnceLock::new();
    T.get_or_init(|| (0..6).map(|i| {
        let (m, _, _) = targeted_at(0, 0x3000, i % 2 == 1).unwrap();
        let mut p = build(&m);
        preamble(&mut p, i / 2).unwrap_or_default()
    }).collect())[(pre * 2 + real as u64) as usize].clone()
}
fn run_history(pre: u64, form: u64, k: u64, real: bool) -> Result<Option<bool>, (String, String)> {
    let targets = preamble_targets(pre, real);
    let Some(&t) = targets.get(k as usize) else { return Ok(None) };
    let Some((m, steps, what)) = targeted_at(form, t, real) else { return Ok(None) };
    let what = format!("after a user-mode {} call served by the OS: {what}", PRE_NAMES[pre as usize]);
    let mut p = build(&m);
    preamble(&mut p, pre)?;
    // back to the scenario's own user-mode state on the same simulator (public fields and the PSR port, as a front end would)
    for i in 0..8 { p.sim.reg_file[reg(i)].set(m.regs[i as usize]); }
    p.sim.pc = m.pc;
    p.sim.write_mem(0xFFFC, lc3_ensemble::sim::mem::Word::new_init(m.psr), lc3_ensemble::sim::MemAccessCtx::omnipotent()).map_err(|e| ("machinery:psr".to_string(), format!("{e:?}")))?;
    let mut violated = false;
    for _ in 0..steps {
        if p.sim.psr().privileged() { if let Err(m) = catch(|| p.sim.step_in()) { return Err((format!("panic:{}", panic_site(&m)), m)); } continue; }
        let e = check_step(&mut p, &what)?;
        if e != Expect::Clean { violated = true; if !real { break; } }
    }
    Ok(Some(violated))
}

/// scale: a long history of privilege switches (one GETC, then `n` PUTS of an empty string: 2n+2 switches, n = 0..=300) before the attempt
fn run_switches(n: u64, form: u64, io: bool, real: bool) -> Result<Option<bool>, (String, String)> {
    let t = if io { 0xFE02 } else { *preamble_targets(2, real).first().unwrap_or(&0x0200) };
    let Some((m, steps, what)) = targeted_at(form, t, real) else { return Ok(None) };
    let what = format!("after a GETC and {n} PUTS of an empty string served by the OS ({} privilege switches): {what}", 2 * n + 2);
    let mut p = build(&m);
    preamble(&mut p, 2)?;
    for _ in 0..n { preamble(&mut p, 3)?; }
    for i in 0..8 { p.sim.reg_file[reg(i)].set(m.regs[i as usize]); }
    p.sim.pc = m.pc;
    p.sim.write_mem(0xFFFC, lc3_ensemble::sim::mem::Word::new_init(m.psr), lc3_ensemble::sim::MemAccessCtx::omnipotent()).map_err(|e| ("machinery:psr".to_string(), format!("{e:?}")))?;
    let mut violated = false;
    for _ in 0..steps {
        if p.sim.psr().privileged() { if let Err(m) = catch(|| p.sim.step_in()) { return Err((format!("panic:{}", panic_site(&m)), m)); } continue; }
        let e = check_step(&mut p, &what)?;
        if e != Expect::Clean { violated = true; if !real { break; } }
    }
    Ok(Some(violated))
}

fn run_sweep(ci: u64, w: u16) -> Result<Expect, (String, String)> { run_sweep_s(ci, w, false) }
fn run_sweep_s(ci: u64, w: u16, strict: bool) -> Result<Expect, (String, String)> {
    let mut m = context(ci);
    m.strict = strict;
    if m.pc < 0xFE00 { m.pokes.push((m.pc, w)); } else { m.regs[0] = w; }
    let mut p = build(&m);
    check_step(&mut p, &format!("sweep context {ci}"))
}
fn user_contexts(thorough: bool) -> Vec<u64> { (0..context_count(thorough)).filter(|i| { let m = context(*i); m.psr >> 15 == 1 && !m.ignore_priv }).collect() }

pub fn run(ctx: &Ctx) -> Report {
    let mut rep = Report::new("user mode, privilege checks on, real and virtual traps: (1) targeted [21 forms: the 15 listed plus LDR/STR through R6 (with and without offset), through R7, and with base = destination / base = source register] (each also in strict mode with the data register never written, where strict-mode objections must not replace the access-control outcome): 15 access/transfer forms (LDR, STR, LDI/STI second hop, LD/ST/LDI/STI first hop by PC-relative reach, JMP/JSRR/JSR/BR-taken followed by the fetch, PC preset, RTI, PUTS with a pointer argument) each aimed at every address of the 18-address boundary set {x0000,x0001,x01FF,x0200,x2FFE,x2FFF|x3000,x3001,xFDFE,xFDFF|xFE00,xFE02,xFE04,xFE06,xFE10,xFFFC,xFFFE,xFFFF}; (2) every 16-bit word in every user-mode single-step context of the C08 grid, in non-strict and in strict mode; (3) history: the same 15 forms aimed at every supervisor-space address that the OS executed or accessed while serving a user-mode OUT / PUTS / GETC call made a moment earlier on the same simulator (non-initial states: anything the simulator remembers about an address from supervisor-mode use must not leak into user mode). Oracle: an independent attempt classifier computed from the pre-state (fetch address, effective addresses in ISA order, RTI): an attempt outside x3000-xFDFF must be reported (virtual) or vectored with supervisor PSR, R6 = SSP-2, saved user PSR (real), leave the target word, keyboard queue, display buffer and recording-device log unchanged and the observer inside user space apart from the vector entry and two stack slots; steps whose addresses are all inside must not report a violation. non-trivial = steps classified as attempts");
    let r = sweep(ctx, 21 * 18 * 2 * 2, 4, |k, acc| {
        let (strict, k) = (k >= 21 * 18 * 2, k % (21 * 18 * 2));
        let (form, ti, real) = (k / 36, k / 2 % 18, k % 2 == 1);
        match run_targeted_s(form, ti, real, strict) {
            Ok(None) => {}
            Ok(Some(v)) => { acc.evals += 1; acc.transitions += 2; acc.count("targeted_cases", 1); if v { acc.nontrivial += 1; acc.count("targeted_attempts", 1); } acc.outcomes.insert(mix(form, v as u64)); }
            Err((sig, d)) => { acc.evals += 1; acc.violation(sig, format!("t:{form}:{ti}:{}:{}", real as u8, strict as u8), d); }
        }
        acc.sample(k, ctx.seed, 37, || targeted(form, ti, real).map(|x| x.2).unwrap_or_else(|| format!("form {form} target {ti} unreachable")));
    });
    rep.absorb(r);
    // history family
    let maxk = (0..6).map(|i| preamble_targets(i / 2, i % 2 == 1).len() as u64).max().unwrap_or(0);
    let r = sweep(ctx, 3 * 21 * maxk * 2, 4, |i, acc| {
        let (pre, form, k, real) = (i / (21 * maxk * 2), i / (maxk * 2) % 21, i / 2 % maxk, i % 2 == 1);
        match run_history(pre, form, k, real) {
            Ok(None) => {}
            Ok(Some(v)) => { acc.evals += 1; acc.transitions += 40; acc.count("history_cases", 1); if v { acc.nontrivial += 1; acc.count("history_attempts", 1); } acc.outcomes.insert(mix(form + 1000 * (pre + 1), v as u64)); }
            Err((sig, d)) => { acc.evals += 1; acc.violation(sig, format!("h:{pre}:{form}:{k}:{}", real as u8), d); }
        }
    });
    rep.absorb(r);
    let forms = [0u64, 1, 4, 9];
    let r = sweep(ctx, 301 * 4 * 2 * 2, 4, |i, acc| {
        let (n, form, io, real) = (i / 16, forms[(i / 4 % 4) as usize], i / 2 % 2 == 1, i % 2 == 1);
        match run_switches(n, form, io, real) {
            Ok(None) => {}
            Ok(Some(v)) => { acc.evals += 1; acc.transitions += 30 * n + 40; acc.count("switch_history_cases", 1); if v { acc.nontrivial += 1; acc.count("switch_history_attempts", 1); } }
            Err((sig, d)) => { acc.evals += 1; acc.violation(sig, format!("w:{n}:{form}:{}:{}", io as u8, real as u8), d); }
        }
    });
    rep.absorb(r);
    rep.require(rep.acc.get("switch_history_attempts") > 1000, "attempts after long privilege-switch histories were judged");
    rep.bound("history_targets_per_service", Json::i(maxk));
    let ucs = user_contexts(ctx.thorough());
    let n = ucs.len() as u64;
    let r = sweep(ctx, n * 65536 * 2, 1024, |k, acc| {
        let (strict, k) = (k >= n * 65536, k % (n * 65536));
        let (ci, w) = (ucs[(k / 65536) as usize], (k % 65536) as u16);
        acc.evals += 1; acc.transitions += 1; acc.count("sweep_steps", 1);
        match run_sweep_s(ci, w, strict) {
            Ok(e) => { if e != Expect::Clean { acc.nontrivial += 1; acc.count("sweep_attempts", 1); } acc.outcomes.insert(mix((w >> 12) as u64 + 100, matches!(e, Expect::Clean) as u64 + 2 * (ci % 8))); }
            Err((sig, d)) => acc.violation(sig, format!("s:{ci}:{w}:{}", strict as u8), d),
        }
    });
    rep.absorb(r);
    rep.bound("user_contexts", Json::i(n)); rep.bound("boundary_addresses", Json::i(18)); rep.bound("forms", Json::i(21));
    rep.require(rep.acc.get("targeted_attempts") > 150 && rep.acc.get("sweep_attempts") > 10_000, "attempts outside user space were made and judged");
    rep.require(rep.acc.get("history_attempts") > 500, "attempts at addresses the OS had just executed were made and judged");
    rep.require(rep.acc.get("sweep_steps") - rep.acc.get("sweep_attempts") > 10_000, "clean steps were judged too");
    rep
}
pub fn replay(case: &str) -> Option<String> {
    let p: Vec<&str> = case.split(':').collect();
    let n = |i: usize| -> Option<u64> { p.get(i)?.parse().ok() };
    let r = match *p.first()? { "t" => run_targeted_s(n(1)?, n(2)?, n(3)? == 1, n(4).unwrap_or(0) == 1).map(|_| ()), "s" => run_sweep_s(n(1)?, n(2)? as u16, n(3).unwrap_or(0) == 1).map(|_| ()), "w" => run_switches(n(1)?, n(2)?, n(3)? == 1, n(4)? == 1).map(|_| ()), "h" => run_history(n(1)?, n(2)?, n(3)?, n(4)? == 1).map(|_| ()), _ => return None };
    r.err().map(|(s, d)| format!("[{s}] {d}"))
}
