//! C29 — loading places exactly the object image into a fresh machine.
use super::objrt;
use crate::util::*;
use lc3_ensemble::asm::assemble;
use lc3_ensemble::parse::parse_ast;
use lc3_ensemble::sim::mem::{MachineInitStrategy, Word};
use lc3_ensemble::sim::{SimFlags, Simulator};
use std::collections::BTreeMap;
use std::sync::OnceLock;

fn os_image() -> &'static BTreeMap<u16, Option<u16>> {
    static OS: OnceLock<BTreeMap<u16, Option<u16>>> = OnceLock::new();
    OS.get_or_init(|| {
        // the subject tree's OS source, put through the (separately checked, C01) assembler
        let src = std::fs::read_to_string("/repo/src/os.asm").expect("os.asm");
        let obj = assemble(parse_ast(&src).expect("os parses")).expect("os assembles");
        obj.addr_iter().collect()
    })
}
const STRATS: [MachineInitStrategy; 5] = [
    MachineInitStrategy::Known { value: 0 }, MachineInitStrategy::Known { value: 0xA5A5 }, MachineInitStrategy::Seeded { seed: 7 },
    MachineInitStrategy::Seeded { seed: u64::MAX }, MachineInitStrategy::Unseeded,
];
fn snapshot(sim: &Simulator) -> (Vec<Word>, Vec<Word>, u16, u16) {
    let mem: Vec<Word> = (0..=0xFFFFu16).map(|a| sim.mem[a]).collect();
    let regs: Vec<Word> = (0..8).map(|r| sim.reg_file[crate::refs::isa::reg(r)]).collect();
    (mem, regs, sim.pc, sim.psr().get())
}

fn check_fresh(si: usize) -> Option<(String, String)> {
    let r = catch(|| -> Result<(), (String, String)> {
        let sim = Simulator::new(SimFlags { machine_init: STRATS[si], ..Default::default() });
        for (a, w) in os_image() {
            let m = sim.mem[*a];
            match w { Some(v) => if m.get() != *v || !m.is_init() { return Err(("os-image".into(), format!("fresh simulator ({:?}): mem[x{a:04X}] = x{:04X} init={}, OS image has x{v:04X}", STRATS[si], m.get(), m.is_init()))); }, None => {} }
        }
        for a in 0xFE00..=0xFFFFu16 { let m = sim.mem[a]; if m.get() != 0 { return Err(("io-page-nonzero".into(), format!("fresh simulator: mem[x{a:04X}] = x{:04X}", m.get()))); } }
        Ok(())
    });
    match r { Ok(Ok(())) => None, Ok(Err(e)) => Some(e), Err(p) => Some((format!("panic:{}", panic_site(&p)), p)) }
}

/// Object files that only a reader can produce: blocks that wrap from the top of the address space to x0000 (addr_iter and the loader
/// support them; the assembler rejects them). Made by re-addressing the block of a serialized file and reading it back.
fn wrapped_objs() -> &'static Vec<crate::gen::objs::ObjCase> {
    use lc3_ensemble::asm::encoding::{BinaryFormat, ObjFileFormat};
    static W: OnceLock<Vec<crate::gen::objs::ObjCase>> = OnceLock::new();
    W.get_or_init(|| {
        let mut v = vec![];
        for (src, origs) in [(".orig x3000\n.fill x1111\n.fill x2222\n.fill x3333\n.fill x4444\n.fill x5555\n.end", vec![0xFFFDu16, 0xFFFF, 0xFFFB, 0xFFFC]),
                             (".orig x3000\n.fill x1111\n.blkw 2\n.fill x4444\n.blkw 1\n.fill x6666\n.end", vec![0xFFFD, 0xFFFE, 0xFFFA]),
                             (".orig x3000\n.blkw 4\n.end", vec![0xFFFE])] {
            let Ok(ast) = parse_ast(src) else { continue }; let Ok(o) = assemble(ast) else { continue };
            let bytes = BinaryFormat::serialize(&o);
            // layout: 7-byte header, then the code chunk: tag 0, origin (u16 LE), length (u16 LE), words
            if bytes.len() < 12 || bytes[7] != 0 || bytes[8] != 0x00 || bytes[9] != 0x30 { continue; }
            for orig in origs {
                let mut b = bytes.clone(); b[8] = orig as u8; b[9] = (orig >> 8) as u8;
                if let Some(obj) = BinaryFormat::deserialize(&b) { v.push(crate::gen::objs::ObjCase { desc: format!("block of `{}` re-addressed to x{orig:04X} (wraps to x0000)", src.replace('\n', " / ")), obj }); }
            }
        }
        v
    })
}
fn check_load(oi: usize, si: usize, mode: u8, thorough: bool) -> Option<(String, String)> {
    let fam = objrt::family(thorough);
    let c = if oi < fam.len() { &fam[oi] } else { wrapped_objs().get(oi - fam.len())? };
    if c.obj.symbol_table().map(|s| s.label_iter().any(|(_, _, e)| e)).unwrap_or(false) { return None; } // unresolved externals: out of scope (C21)
    let r = catch(|| -> Result<(), (String, String)> {
        let mut sim = Simulator::new(SimFlags { machine_init: STRATS[si], ..Default::default() });
        if mode == 2 {
            // after some execution: run a few OS-independent steps of a tiny program first
            let pre = assemble(parse_ast(".orig x3000\nAND R0,R0,#0\nADD R0,R0,#5\nST R0, X\nBR #-1\nX .blkw 1\n.end").unwrap()).unwrap();
            sim.load_obj_file(&pre).map_err(|e| ("machinery".to_string(), format!("{e:?}")))?;
            for _ in 0..10 { let _ = sim.step_in(); }
            // mirror cells of the I/O page hold whatever earlier device traffic left there
            for (a, v) in [(0xFE04u16, 0x8000u16), (0xFE06, 0x0041), (0xFE10, 0x1234), (0xFFFF, 0xFFFF)] { sim.mem[a].set(v); }
        }
        if mode == 1 { sim.load_obj_file(&c.obj).map_err(|e| ("load-fails".to_string(), format!("{}: {e:?}", c.desc)))?; }
        let (mem0, regs0, pc0, psr0) = snapshot(&sim);
        sim.load_obj_file(&c.obj).map_err(|e| ("load-fails".to_string(), format!("{}: {e:?}", c.desc)))?;
        let (mem1, regs1, pc1, psr1) = snapshot(&sim);
        let img: BTreeMap<u16, Option<u16>> = c.obj.addr_iter().collect();
        for a in 0..=0xFFFFu16 {
            let (b, n) = (mem0[a as usize], mem1[a as usize]);
            match img.get(&a) {
                Some(Some(v)) => if n.get() != *v || !n.is_init() { return Err(("initialized-word".into(), format!("{} ({:?}, mode {mode}): mem[x{a:04X}] {} after load, file has x{v:04X}", c.desc, STRATS[si], if n.get() == *v { "is not marked initialized".to_string() } else if matches!(STRATS[si], MachineInitStrategy::Unseeded) && !n.is_init() { "still holds its old (random) contents".to_string() } else { format!("= x{:04X} init={}", n.get(), n.is_init()) }))); },
                Some(None) => if n.is_init() { return Err(("reserved-word-initialized".into(), format!("{} ({:?}, mode {mode}): reserved word mem[x{a:04X}] is marked initialized after load", c.desc, STRATS[si]))); },
                // (under the Unseeded strategy the old contents are random: they are left out so that the report is the same on every re-execution)
                None => if b != n { return Err(("other-word-changed".into(), if matches!(STRATS[si], MachineInitStrategy::Unseeded) { format!("{} ({:?}, mode {mode}): mem[x{a:04X}] was changed by the load though the file does not define it", c.desc, STRATS[si]) } else { format!("{} ({:?}, mode {mode}): mem[x{a:04X}] changed from {b:?} to {n:?} though the file does not define it", c.desc, STRATS[si]) })); },
            }
        }
        if regs0 != regs1 { return Err(("registers-changed".into(), format!("{}: registers changed by load", c.desc))); }
        if pc0 != pc1 || psr0 != psr1 { return Err(("pc-changed".into(), format!("{}: PC x{pc0:04X}->x{pc1:04X} PSR x{psr0:04X}->x{psr1:04X}", c.desc))); }
        Ok(())
    });
    match r { Ok(Ok(())) => None, Ok(Err(e)) => Some(e), Err(p) => Some((format!("panic:{}", panic_site(&p)), format!("{}: {p}", c.desc))) }
}

/// Life cycle of the object file value: members of the link family that were already loaded into some simulator (which: bit 0 = left,
/// bit 1 = right operand; bit 2: the loaded value's clone is linked instead of the value itself) are linked, and the result is loaded.
fn check_loaded_then_linked(i: usize, j: usize, which: u8) -> Option<(String, String)> {
    let lo = crate::gen::objs::link_objs();
    let (da, a, db, b) = (&lo[i].0, lo[i].2.clone(), &lo[j].0, lo[j].2.clone());
    let r = catch(|| -> Result<bool, (String, String)> {
        let mut scratch = Simulator::new(SimFlags { machine_init: STRATS[0], ..Default::default() });
        if which & 1 != 0 { let _ = scratch.load_obj_file(&a); }
        if which & 2 != 0 { let _ = scratch.load_obj_file(&b); }
        let (a, b) = if which & 4 != 0 { (a.clone(), b.clone()) } else { (a, b) };
        let Ok(l) = lc3_ensemble::asm::ObjectFile::link(a, b) else { return Ok(false) };
        if l.symbol_table().map(|s| s.label_iter().any(|(_, _, e)| e)).unwrap_or(false) { return Ok(false); }
        let what = format!("link({da}, {db}) after {} had been loaded into another simulator", match which & 3 { 1 => "the left operand", 2 => "the right operand", _ => "both operands" });
        let mut sim = Simulator::new(SimFlags { machine_init: STRATS[0], ..Default::default() });
        let before: Vec<Word> = (0..=0xFFFFu16).map(|x| sim.mem[x]).collect();
        sim.load_obj_file(&l).map_err(|e| ("load-fails".to_string(), format!("{what}: {e:?}")))?;
        let img: BTreeMap<u16, Option<u16>> = l.addr_iter().collect();
        for x in 0..=0xFFFFu16 {
            let n = sim.mem[x];
            match img.get(&x) {
                Some(Some(v)) => if n.get() != *v || !n.is_init() { return Err(("initialized-word".into(), format!("{what}: mem[x{x:04X}] = {n:?} after loading the result, the file has x{v:04X}"))); },
                Some(None) => if n.is_init() { return Err(("reserved-word-initialized".into(), format!("{what}: reserved word mem[x{x:04X}] is marked initialized"))); },
                None => if n != before[x as usize] { return Err(("other-word-changed".into(), format!("{what}: mem[x{x:04X}] changed though the file does not define it"))); },
            }
        }
        Ok(true)
    });
    match r { Ok(Ok(_)) => None, Ok(Err(e)) => Some(e), Err(p) => Some((format!("panic:{}", panic_site(&p)), format!("link of loaded members {i},{j}: {p}"))) }
}
pub fn run(ctx: &Ctx) -> Report {
    let mut rep = Report::new("fresh simulators under Known(0), Known(xA5A5), Seeded(7), Seeded(u64::MAX), Unseeded: OS image (subject's os.asm through the separately checked assembler) at its addresses, xFE00-xFFFF zero; every object of the family without unresolved externals, plus read-only object files whose block wraps from xFFFx to x0000 (blocks at x0000, ending at xFE00, .blkw regions, multi-block, linked) x strategy x {fresh, loaded twice, after 10 executed steps}: full 64K before/after comparison: initialized words set and marked initialized, reserved words marked uninitialized, every other word, all registers, PC and PSR bit-identical. non-trivial = object with at least one block");
    for si in 0..STRATS.len() { rep.acc.evals += 1; rep.acc.transitions += 1; if let Some((sig, d)) = check_fresh(si) { rep.acc.violation(sig, format!("fresh:{si}"), d); } }
    let fam = objrt::family(ctx.thorough());
    let stride = ctx.pick(2u64, 1u64);
    let n = (fam.len() as u64).div_ceil(stride);
    let r = sweep(ctx, n * 5 * 3, 2, |k, acc| {
        let oi = ((k / 15) * stride) as usize; let si = (k / 3 % 5) as usize; let mode = (k % 3) as u8;
        acc.evals += 1; acc.transitions += 2;
        let c = &fam[oi];
        if c.obj.addr_iter().next().is_some() { acc.nontrivial += 1; }
        acc.outcomes.insert(mix(oi as u64, si as u64));
        acc.sample(k, ctx.seed, 4001, || format!("{} under {:?} mode {mode}", c.desc, STRATS[si]));
        if let Some((sig, d)) = check_load(oi, si, mode, ctx.thorough()) { acc.violation(sig, format!("load:{}:{oi}:{si}:{mode}", ctx.thorough() as u8), d); }
    });
    rep.absorb(r);
    let nw = wrapped_objs().len() as u64;
    let fl = fam.len();
    let r = sweep(ctx, nw * 5 * 3, 2, |k, acc| {
        let oi = fl + (k / 15) as usize; let si = (k / 3 % 5) as usize; let mode = (k % 3) as u8;
        acc.evals += 1; acc.transitions += 2; acc.nontrivial += 1; acc.count("wrapping_block_loads", 1);
        if let Some((sig, d)) = check_load(oi, si, mode, ctx.thorough()) { acc.violation(sig, format!("load:{}:{oi}:{si}:{mode}", ctx.thorough() as u8), d); }
    });
    rep.absorb(r);
    let nl = crate::gen::objs::link_objs().len() as u64;
    let r = sweep(ctx, nl * nl * 6, 8, |k, acc| {
        let (i, j, which) = ((k / (nl * 6)) as usize, (k / 6 % nl) as usize, [1u8, 2, 3, 5, 6, 7][(k % 6) as usize]);
        acc.evals += 1; acc.transitions += 3; acc.nontrivial += 1; acc.count("links_of_already_loaded_files", 1);
        if let Some((sig, d)) = check_loaded_then_linked(i, j, which) { acc.violation(format!("loaded-then-linked:{sig}"), format!("ll:{i}:{j}:{which}"), d); }
    });
    rep.absorb(r);
    rep.require(nw >= 6, "object files with wrapping blocks could be read back");
    rep.bound("objects", Json::i(n)); rep.bound("strategies", Json::i(5)); rep.bound("modes", Json::s("fresh, loaded twice, after execution"));
    rep.assume("the OS image is obtained by assembling /repo/src/os.asm with the subject's assembler, which C01 checks separately");
    rep
}
pub fn replay(case: &str) -> Option<String> {
    if let Some(r) = case.strip_prefix("ll:") { let p: Vec<usize> = r.split(':').filter_map(|x| x.parse().ok()).collect(); return check_loaded_then_linked(*p.first()?, *p.get(1)?, *p.get(2)? as u8).map(|x| x.1); }
    let p: Vec<&str> = case.split(':').collect();
    match *p.first()? {
        "fresh" => check_fresh(p.get(1)?.parse().ok()?).map(|x| x.1),
        "load" => check_load(p.get(2)?.parse().ok()?, p.get(3)?.parse().ok()?, p.get(4)?.parse().ok()?, *p.get(1)? == "1").map(|x| x.1),
        _ => None,
    }
}
