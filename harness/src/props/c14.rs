//! C14 — strict mode only adds uninitialized-value errors (paired strict / non-strict runs from identical machines).
use super::simcmp::*;
use super::simfam::*;
use crate::refs::isa::reg;
use crate::util::*;
use lc3_ensemble::sim::SimErr;

fn is_strict_err(e: &SimErr) -> bool {
    matches!(e, SimErr::StrictRegSetUninit | SimErr::StrictMemSetUninit | SimErr::StrictIOSetUninit | SimErr::StrictJmpAddrUninit | SimErr::StrictSRAddrUninit
        | SimErr::StrictMemAddrUninit | SimErr::StrictPCCurrUninit | SimErr::StrictPCNextUninit | SimErr::StrictPSRSetUninit)
}
fn kind(e: &SimErr) -> String { let s = format!("{e:?}"); s.split('(').next().unwrap_or("").to_string() }

struct Two { s: Pair, n: Pair }
fn build_two(m: &Machine, full_init: bool) -> Two {
    let mut ms = m.clone(); ms.strict = true;
    let mut mn = m.clone(); mn.strict = false;
    let mut s = build(&ms); let mut n = build(&mn);
    if full_init {
        for p in [&mut s, &mut n] {
            for a in 0..=0xFFFFu16 { let v = p.sim.mem[a].get(); p.sim.mem[a].set(v); }
            for i in 0..8 { let v = p.sim.reg_file[reg(i)].get(); p.sim.reg_file[reg(i)].set(v); }
        }
    }
    Two { s, n }
}
/// compares the two real simulators (not the reference): registers with init flags, PC, PSR, saved SP, non-I/O memory cells touched, devices, counts
fn compare(t: &mut Two, ctx: &str, cells: &[u16]) -> Result<(), (String, String)> {
    for i in 0..8 { let (a, b) = (t.s.sim.reg_file[reg(i)], t.n.sim.reg_file[reg(i)]); if a != b { return Err(("state-differs:register".into(), format!("{ctx}: R{i} strict {a:?} vs non-strict {b:?}"))); } }
    if t.s.sim.pc != t.n.sim.pc { return Err(("state-differs:pc".into(), format!("{ctx}: PC strict x{:04X} vs non-strict x{:04X}", t.s.sim.pc, t.n.sim.pc))); }
    if t.s.sim.psr().get() != t.n.sim.psr().get() { return Err(("state-differs:psr".into(), format!("{ctx}: PSR strict x{:04X} vs x{:04X}", t.s.sim.psr().get(), t.n.sim.psr().get()))); }
    let (a, b) = (t.s.saved_sp(), t.n.saved_sp()); if a != b { return Err(("state-differs:saved-sp".into(), format!("{ctx}: saved SP strict x{a:04X} vs x{b:04X}"))); }
    // raw I/O-page cells as well: both machines receive identical host probes, so any difference comes from strict mode itself
    for c in 0xFE00..=0xFFFFu16 { let (a, b) = (t.s.sim.mem[c], t.n.sim.mem[c]); if a != b { return Err(("state-differs:io-page-cell".into(), format!("{ctx}: mem[x{c:04X}] strict {a:?} vs non-strict {b:?}"))); } }
    for c in cells { if *c < 0xFE00 { let (a, b) = (t.s.sim.mem[*c], t.n.sim.mem[*c]); if a != b { return Err(("state-differs:memory".into(), format!("{ctx}: mem[x{c:04X}] strict {a:?} vs non-strict {b:?}"))); } } }
    let (ka, kb): (Vec<u8>, Vec<u8>) = (t.s.kb.get_buffer().read().unwrap_or_else(|e| e.into_inner()).iter().copied().collect(), t.n.kb.get_buffer().read().unwrap_or_else(|e| e.into_inner()).iter().copied().collect());
    if ka != kb { return Err(("device-effect:keyboard".into(), format!("{ctx}: keyboard queue strict {ka:x?} vs non-strict {kb:x?}"))); }
    let (da, db) = (t.s.disp.get_buffer().read().unwrap_or_else(|e| e.into_inner()).clone(), t.n.disp.get_buffer().read().unwrap_or_else(|e| e.into_inner()).clone());
    if da != db { return Err(("device-effect:display".into(), format!("{ctx}: display strict {da:x?} vs non-strict {db:x?}"))); }
    let (ra, rb) = (t.s.rec.log.lock().unwrap_or_else(|e| e.into_inner()).clone(), t.n.rec.log.lock().unwrap_or_else(|e| e.into_inner()).clone());
    if ra != rb { return Err(("device-effect:custom".into(), format!("{ctx}: recording device strict {ra:x?} vs non-strict {rb:x?}"))); }
    if t.s.sim.instructions_run != t.n.sim.instructions_run { return Err(("state-differs:instruction-count".into(), format!("{ctx}: instruction counts {} vs {}", t.s.sim.instructions_run, t.n.sim.instructions_run))); }
    if t.s.sim.frame_stack.len() != t.n.sim.frame_stack.len() { return Err(("state-differs:frames".into(), format!("{ctx}: frame depth {} vs {}", t.s.sim.frame_stack.len(), t.n.sim.frame_stack.len()))); }
    Ok(())
}

/// Steps both up to `steps`; returns (accepted steps, strict rejections)
fn run_pair(m: &Machine, steps: usize, full_init: bool, what: &str) -> Result<(u64, u64), (String, String)> {
    run_pair_built(build_two(m, full_init), steps, full_init, what)
}
fn run_pair_built(mut t: Two, steps: usize, full_init: bool, what: &str) -> Result<(u64, u64), (String, String)> {
    let mut accepted = 0u64;
    for k in 0..steps {
        let pc = t.n.sim.pc;
        let w = if pc < 0xFE00 { t.n.sim.mem[pc].get() } else { 0 };
        let ctx = format!("{what} step {k}: word x{w:04X} at pc x{pc:04X} full_init={full_init}");
        t.n.sim.observer.clear();
        let rs = match catch(|| t.s.sim.step_in()) { Ok(r) => r, Err(p) => return Err((format!("panic:{}", panic_site(&p)), format!("{ctx}: strict step panicked: {p}"))) };
        let rn = match catch(|| t.n.sim.step_in()) { Ok(r) => r, Err(p) => return Err((format!("panic:{}", panic_site(&p)), format!("{ctx}: non-strict step panicked: {p}"))) };
        let cells: Vec<u16> = t.n.sim.observer.take_mem_accesses().map(|x| x.0).collect();
        match (&rs, &rn) {
            (Ok(()), Ok(())) => { compare(&mut t, &ctx, &cells)?; accepted += 1; }
            (Ok(()), Err(e)) => return Err(("strict-accepts-what-nonstrict-rejects".into(), format!("{ctx}: strict Ok, non-strict {e:?}"))),
            (Err(e), _) if is_strict_err(e) => {
                if full_init { return Err((format!("strict-error-on-initialized-machine:{}", kind(e)), format!("{ctx}: every word and register is initialized but strict reported {e:?}"))); }
                return Ok((accepted, 1));
            }
            (Err(e), Ok(())) => return Err((format!("strict-only-failure-not-strict-error:{}", kind(e)), format!("{ctx}: the step fails only under strict mode, with {e:?} (not an uninitialized-value error)"))),
            (Err(a), Err(b)) => {
                if kind(a) != kind(b) { return Err(("different-errors".into(), format!("{ctx}: strict {a:?} vs non-strict {b:?}"))); }
                compare(&mut t, &ctx, &cells)?;
                return Ok((accepted, 0));
            }
        }
        // a virtual HALT leaves both machines parked; stop when nothing moves any more
        if t.n.sim.pc == pc && cells.is_empty() && k > 0 { break; }
    }
    Ok((accepted, 0))
}

/// targeted programs: jumps into OS memory, into each I/O register (incl. KBDR with queued input), .blkw-like regions, stack-relative accesses
fn targeted(i: u64) -> Option<(Machine, String)> {
    const T: [u16; 12] = [0x0200, 0x0000, 0x2FFF, 0xFE00, 0xFE02, 0xFE04, 0xFE06, 0xFE10, 0xFFFC, 0xFFFE, 0x3100, 0x4000];
    let form = i / 12 % 6; let t = T[(i % 12) as usize]; let flags = i / 72;
    if flags >= 4 { return None; }
    let mut m = Machine::user();
    m.real_traps = flags & 1 == 1; m.ignore_priv = flags & 2 == 2;
    m.kb = Some(vec![b'k', b'q']);
    m.regs = [0x0041, t, 0x3100, 0x3200, 0, 0, 0xFD00, t];
    m.pokes.push((0x3100, 0x1021)); // an initialized instruction at one of the targets
    let name = match form {
        0 => { m.pokes.push((0x3000, 0xC040)); "JMP R1" }
        1 => { m.pokes.push((0x3000, 0x4040)); "JSRR R1" }
        2 => { m.pokes.push((0x3000, 0xC1C0)); "RET" }
        3 => { m.pokes.push((0x3000, 0x6040)); m.pokes.push((0x3001, 0x7040)); "LDR/STR R0,R1,#0" }
        4 => { m.pokes.push((0x3000, 0x6180)); m.pokes.push((0x3001, 0x71BF)); m.pokes.push((0x3002, 0x1DBF)); m.pokes.push((0x3003, 0x6180)); "stack-relative LDR/STR through R6" }
        _ => { m.pokes.push((0x3000, 0x8000)); m.regs[6] = t; "RTI with R6 at target" }
    };
    Some((m, format!("{name} aimed at x{t:04X} flags {flags}")))
}

/// Programs loaded with `load_obj_file` (so that "allocated" .blkw regions exist): one access instruction aimed at every address class
/// relative to the loaded blocks, with initialized / uninitialized source data.
fn loaded(i: u64) -> Option<(Machine, lc3_ensemble::asm::ObjectFile, String)> {
    use lc3_ensemble::asm::assemble;
    use lc3_ensemble::parse::parse_ast;
    const TARGETS: [(u16, &str); 10] = [(0x1000, "below the first block"), (0x2FFF, "just below the first block"), (0x3000, "first word of a block"), (0x3010, "inside .blkw"), (0x3013, "last word of the first block"),
        (0x3014, "one past the first block"), (0x4000, "between blocks"), (0x5000, "uninitialized .blkw of the second block"), (0x5003, "initialized word of the second block"), (0xFDFF, "top of user memory")];
    let (ti, form, srcinit, flags) = (i % 10, i / 10 % 6, i / 60 % 2, i / 120);
    if flags >= 4 { return None; }
    let (t, tname) = TARGETS[ti as usize];
    let src = ".orig x3000\nNOP\nNOP\nNOP\nHALT\nPTR .fill 0\nD .fill 5\n.blkw 9\nS .stringz \"abc\"\n.end\n.orig x5000\n.blkw 3\n.fill 7\n.end";
    let obj = assemble(parse_ast(src).ok()?).ok()?;
    let mut m = Machine::user();
    m.real_traps = flags & 1 == 1; m.ignore_priv = flags & 2 == 2;
    m.regs = [0, t, 0, 0, 0, 0, 0xFD00, 0];
    let name = match form { 0 => "LDR R0,R1,#0", 1 => "STR R2,R1,#0", 2 => "LDI R0,PTR", 3 => "STI R2,PTR", 4 => "LDR R0,R1,#0 ; STR R0,R1,#1", _ => "LEA R3,D ; LDR R0,R3,#0 ; STR R0,R1,#0" };
    Some((m, obj, format!("{name} aimed at x{t:04X} ({tname}) source {} flags {flags} [case {i} form {form} srcinit {srcinit}]", if srcinit == 1 { "initialized" } else { "uninitialized" })))
}
fn run_loaded(i: u64, full_init: bool) -> Result<(u64, u64), (String, String)> {
    let Some((m, obj, what)) = loaded(i) else { return Ok((0, 0)) };
    let (ti, form, srcinit) = (i % 10, i / 10 % 6, i / 60 % 2);
    let _ = ti;
    let mut t = build_two(&m, false);
    for p in [&mut t.s, &mut t.n] {
        p.sim.load_obj_file(&obj).map_err(|e| ("machinery".to_string(), format!("{e:?}")))?;
        let code: &[u16] = match form { 0 => &[0x6040], 1 => &[0x7440], 2 => &[0xA003], 3 => &[0xB403], 4 => &[0x6040, 0x7041], _ => &[0xE604, 0x60C0, 0x7040] };
        for (k, w) in code.iter().enumerate() { p.sim.mem[0x3000 + k as u16].set(*w); }
        p.sim.mem[0x3004].set(p.sim.reg_file[reg(1)].get()); // PTR -> target
        if srcinit == 1 { p.sim.reg_file[reg(2)].set(0x0042); }
        if full_init { for a in 0..=0xFFFFu16 { let v = p.sim.mem[a].get(); p.sim.mem[a].set(v); } for r in 0..8 { let v = p.sim.reg_file[reg(r)].get(); p.sim.reg_file[reg(r)].set(v); } }
    }
    run_pair_built(t, 5, full_init, &what)
}

/// scale: an object file with `n` one-cell reserved blocks (and one code block that loads from / stores to every cell), loaded into a strict
/// and a non-strict simulator: accesses to the program's own reserved cells are exempt from strict mode however many blocks there are
fn run_many_blocks(n: u32, full_init: bool) -> Result<(u64, u64), (String, String)> {
    use lc3_ensemble::asm::assemble;
    use lc3_ensemble::parse::parse_ast;
    // R1 walks the cells (2 apart, from x4000), R3 counts
    let mut src = String::from(".orig x3000\nLD R1, BASE\nLD R3, COUNT\nLOOP STR R3,R1,#0\nLDR R0,R1,#0\nADD R1,R1,#2\nADD R3,R3,#-1\nBRp LOOP\nHALT\nBASE .fill x4000\n");
    src.push_str(&format!("COUNT .fill {n}\n.end\n"));
    for k in 0..n { src.push_str(&format!(".orig x{:04X}\n.blkw 1\n.end\n", 0x4000 + 2 * k)); }
    let obj = assemble(parse_ast(&src).map_err(|e| ("machinery".to_string(), format!("{e:?}")))?).map_err(|e| ("machinery".to_string(), format!("{e:?}")))?;
    let mut m = Machine::user();
    m.regs = [0, 0, 0, 0, 0, 0, 0xFD00, 0];
    let mut t = build_two(&m, false);
    for p in [&mut t.s, &mut t.n] {
        p.sim.load_obj_file(&obj).map_err(|e| ("machinery".to_string(), format!("{e:?}")))?;
        if full_init { for a in 0..=0xFFFFu16 { let v = p.sim.mem[a].get(); p.sim.mem[a].set(v); } for r in 0..8 { let v = p.sim.reg_file[reg(r)].get(); p.sim.reg_file[reg(r)].set(v); } }
    }
    run_pair_built(t, 5 * n as usize + 20, full_init, &format!("object file with {n} one-cell reserved blocks walked by STR/LDR"))
}
const MANY_BLOCKS: [u32; 8] = [3, 100, 254, 255, 256, 257, 300, 1000];

/// program pair; `int` > 0: a device requests one (edge-triggered, priority-4) interrupt at poll int-1 on both machines, serviced by an
/// initialized ISR (push R0, clobber, pop, RTI): taking a device interrupt is not something strict mode may object to
/// Internal registers mapped into the I/O page by the host (`mmap_internal`): supervisor-mode code loads from and stores to the mapped port.
/// i = register (PC, PSR, MCR, saved SP) x value stored (addresses of never-written and of written words, PSR-like and extreme values) x form.
const MAPPED_VALUES: [u16; 8] = [0x4000, 0x3005, 0x8002, 0x0000, 0xFFFF, 0x0002, 0xFE00, 0x2FFF];
fn run_mapped(i: u64, full: bool) -> Result<(u64, u64), (String, String)> {
    use lc3_ensemble::sim::InternalRegister as IR;
    let (r, v, form) = (i % 4, MAPPED_VALUES[(i / 4 % 8) as usize], i / 32);
    let port = 0xFE40u16;
    let mut m = Machine::user();
    m.psr = 0x0002; m.saved_sp = 0xF000; // supervisor mode, R6 is the supervisor stack pointer
    m.regs = [v, port, 0x3100, 0x3101, 0, 0, 0x2FF0, 0x3002];
    m.pokes.extend([(0x3005u16, 0x1021u16), (0x3006, 0x1021), (0x3100, port), (0x3101, v)]);
    let name = match form {
        0 => { m.pokes.extend([(0x3000u16, 0x7040u16), (0x3001, 0x1021), (0x3002, 0x6640)]); "STR R0,R1,#0 ; ADD ; LDR R3,R1,#0" }
        1 => { m.pokes.extend([(0x3000u16, 0xB0FFu16), (0x3001, 0x1021), (0x3002, 0xA6FD)]); "STI R0,[x3100] ; ADD ; LDI R3,[x3100]" }
        2 => { m.pokes.extend([(0x3000u16, 0x6640u16), (0x3001, 0x76C0)]); "LDR R3,R1,#0 ; STR R3,R3,#0" }
        _ => return Err(("machinery:form".into(), "no such form".into())),
    };
    let mut t = build_two(&m, full);
    let reg_ = [IR::PC, IR::PSR, IR::MCR, IR::SavedSP][r as usize];
    for p in [&mut t.s, &mut t.n] { p.sim.mmap_internal(port, reg_).map_err(|e| ("machinery:mmap".to_string(), format!("{e:?}")))?; }
    run_pair_built(t, 6, full, &format!("{name} with {reg_:?} mapped at x{port:04X} by the host, value x{v:04X}"))
}
fn run_program(len: usize, idx: u64, flags: u64, full: bool, int: u64) -> Result<(u64, u64), (String, String)> {
    let (mut m, words) = program_machine(len, idx, flags);
    if int == 0 { return run_pair(&m, 120, full, &format!("program {words:x?} flags {flags}")); }
    for (k, w) in [0x1DBFu16, 0x7180, 0x5020, 0x6180, 0x1DA1, 0x8000].iter().enumerate() { m.pokes.push((0x1F00 + k as u16, *w)); }
    m.pokes.push((0x0190, 0x1F00));
    let mut t = build_two(&m, full);
    for p in [&mut t.s, &mut t.n] { let i = p.add_source(0x90, 4, vec![int - 1]); p.sources[i].state.lock().unwrap_or_else(|e| e.into_inner()).edge = true; }
    run_pair_built(t, 120, full, &format!("program {words:x?} flags {flags} with an interrupt requested at poll {}", int - 1))
}

pub fn run(ctx: &Ctx) -> Report {
    let mut rep = Report::new("pairs of real simulators (strict / non-strict) built from one machine description with Known fill, stepped together: (1) every word x the single-step contexts of C08 (2 steps); (2) all programs of <=2 (thorough 3) instructions over the 40-word alphabet x 4 flag sets (<=120 steps); (3) targeted: JMP/JSRR/RET/LDR+STR/stack-relative/RTI aimed at OS memory, x2FFF, KBSR, KBDR (with queued input), DSR, DDR, a custom device port, PSR, MCR, user code and uninitialized user memory x 4 flag sets; (4) object files loaded with load_obj_file (two blocks with .blkw regions): LDR/STR/LDI/STI and load-then-store sequences aimed at 10 address classes relative to the loaded blocks (below, first/last word, one past, inside .blkw, between blocks, second block, top of user memory) x initialized/uninitialized source x 4 flag sets; each family also on fully initialized machines (all 64K words and 8 registers marked initialized). Oracle: strict-accepted step => identical registers (with init flags), PC, PSR, saved SP, touched memory, the raw I/O-page cells, device buffers, counts; strict-only failure => a Strict* error; initialized machine => no Strict* error. non-trivial = pairs in which strict mode rejected a step");
    let nctx = context_count(ctx.thorough()).min(ctx.pick(12, 60));
    let wstride = ctx.pick(3u64, 1u64);
    let r = sweep(ctx, nctx * (65536 / wstride + 1) * 2, 512, |k, acc| {
        let full = k % 2 == 1; let k2 = k / 2; let per = 65536 / wstride + 1;
        let (ci, wi) = (k2 / per, k2 % per); let w = ((wi * wstride + ci % wstride) & 0xFFFF) as u16;
        let mut m = context(ci);
        if m.pc < 0xFE00 { m.pokes.push((m.pc, w)); } else { m.regs[0] = w; }
        acc.evals += 1; acc.count("sweep_pairs", 1);
        match run_pair(&m, 2, full, &format!("sweep context {ci}")) {
            Ok((a, rj)) => { acc.transitions += 2 * a + 2; if rj > 0 { acc.nontrivial += 1; acc.count("strict_rejections", 1); } acc.outcomes.insert(mix((w >> 12) as u64, a * 2 + rj)); }
            Err((sig, d)) => acc.violation(sig, format!("w:{ci}:{w}:{}", full as u8), d),
        }
        acc.sample(k, ctx.seed, 900_001, || format!("context {ci} word x{w:04X} full_init={full}"));
    });
    rep.absorb(r);
    let maxlen = ctx.pick(2usize, 3usize);
    for len in 1..=maxlen {
        let n = 40u64.pow(len as u32);
        let fstride = if len == 3 { 5 } else { 1 };
        let nint = if len <= 2 { 5 } else { 1 };
        let r = sweep(ctx, n * 4 * 2 * nint, 16, |k, acc| {
            let (int, k) = (k % nint, k / nint);
            let (idx, flags, full) = (k / 8, k / 2 % 4, k % 2 == 1);
            if full && idx % fstride != 0 { return; }
            acc.evals += 1; acc.count("program_pairs", 1); if int > 0 { acc.count("program_pairs_with_interrupt", 1); }
            match run_program(len, idx, flags, full, int) {
                Ok((a, rj)) => { acc.transitions += 2 * a; acc.traces += 1; if rj > 0 { acc.nontrivial += 1; acc.count("strict_rejections", 1); } }
                Err((sig, d)) => acc.violation(sig, format!("p:{len}:{idx}:{flags}:{}:{int}", full as u8), d),
            }
        });
        rep.absorb(r);
    }
    let r = sweep(ctx, 288 * 2, 4, |k, acc| {
        let (i, full) = (k / 2, k % 2 == 1);
        let Some((m, what)) = targeted(i) else { return };
        acc.evals += 1; acc.count("targeted_pairs", 1);
        match run_pair(&m, 6, full, &what) {
            Ok((a, rj)) => { acc.transitions += 2 * a; if rj > 0 { acc.nontrivial += 1; acc.count("strict_rejections", 1); } }
            Err((sig, d)) => acc.violation(sig, format!("t:{i}:{}", full as u8), d),
        }
    });
    rep.absorb(r);
    let r = sweep(ctx, 480 * 2, 4, |k, acc| {
        let (i, full) = (k / 2, k % 2 == 1);
        if loaded(i).is_none() { return; }
        acc.evals += 1; acc.count("loaded_object_pairs", 1);
        match run_loaded(i, full) {
            Ok((a, rj)) => { acc.transitions += 2 * a; if rj > 0 { acc.nontrivial += 1; acc.count("strict_rejections", 1); acc.count("strict_rejections_loaded", 1); } }
            Err((sig, d)) => acc.violation(sig, format!("l:{i}:{}", full as u8), d),
        }
    });
    rep.absorb(r);
    let r = sweep(ctx, 96 * 2, 4, |k, acc| {
        let (i, full) = (k / 2, k % 2 == 1);
        acc.evals += 1; acc.count("host_mapped_register_programs", 1);
        match run_mapped(i, full) {
            Ok((a, rj)) => { acc.transitions += 2 * a; acc.nontrivial += 1; if rj > 0 { acc.count("strict_rejections", 1); } }
            Err((sig, d)) => acc.violation(sig, format!("x:{i}:{}", full as u8), d),
        }
    });
    rep.absorb(r);
    let r = sweep(ctx, MANY_BLOCKS.len() as u64 * 2, 1, |k, acc| {
        let (n, full) = (MANY_BLOCKS[(k / 2) as usize], k % 2 == 1);
        acc.evals += 1; acc.count("many_block_objects", 1);
        match run_many_blocks(n, full) {
            Ok((a, _)) => { acc.transitions += 2 * a; acc.nontrivial += 1; if a < 5 * n as u64 { acc.count("many_block_runs_cut_short", 1); } }
            Err((sig, d)) => acc.violation(sig, format!("m:{n}:{}", full as u8), d),
        }
    });
    rep.absorb(r);
    rep.require(rep.acc.get("many_block_runs_cut_short") == 0, "the reserved cells of a loaded file are exempt from strict mode: every many-block run reaches its HALT under strict mode too");
    rep.require(rep.acc.get("strict_rejections_loaded") > 10, "strict mode rejected accesses outside allocated regions of a loaded object file");
    rep.bound("contexts", Json::i(nctx)); rep.bound("word_stride", Json::i(wstride)); rep.bound("program_length", Json::i(maxlen as u64));
    rep.require(rep.acc.get("strict_rejections") > 1000, "strict mode rejected steps in many pairs");
    rep.assume("strict mode is judged only relative to non-strict mode");
    rep
}
pub fn replay(case: &str) -> Option<String> {
    let p: Vec<&str> = case.split(':').collect();
    let n = |i: usize| -> Option<u64> { p.get(i)?.parse().ok() };
    let r = match *p.first()? {
        "w" => { let mut m = context(n(1)?); let w = n(2)? as u16; if m.pc < 0xFE00 { m.pokes.push((m.pc, w)); } else { m.regs[0] = w; } run_pair(&m, 2, n(3)? == 1, &format!("sweep context {}", n(1)?)) }
        "p" if p.len() >= 6 => run_program(n(1)? as usize, n(2)?, n(3)?, n(4)? == 1, n(5)?),
        "p" => { let (m, words) = program_machine(n(1)? as usize, n(2)?, n(3)?); run_pair(&m, 120, n(4)? == 1, &format!("program {words:x?} flags {}", n(3)?)) }
        "t" => { let (m, what) = targeted(n(1)?)?; run_pair(&m, 6, n(2)? == 1, &what) }
        "l" => run_loaded(n(1)?, n(2)? == 1),
        "x" => run_mapped(n(1)?, n(2)? == 1),
        "m" => run_many_blocks(n(1)? as u32, n(2)? == 1),
        _ => return None,
    };
    r.err().map(|(s, d)| format!("[{s}] {d}"))
}
