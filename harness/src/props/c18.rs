//! C18 — text object format round-trips every object file.
use super::objrt;
use crate::util::*;
pub fn run(ctx: &Ctx) -> Report {
    let mut rep = Report::new("same object family as C17 through TextFormat, plus objects assembled from hostile source texts (<=3 (thorough 4) tokens over quotes, backslash, apostrophe, TAB, CR, x01, x7F, non-ASCII, ' | ', '====', '#', '.TEXT', NUL, digits and letters that continue an escape (7, n, u{41}, x41), U+2028, empty and whitespace-only lines; LF, CRLF and blank-line layouts; with and without final newline): TextFormat::deserialize(serialize(o)) == Some(o). non-trivial = object carrying a symbol table");
    objrt::run_family(ctx, &mut rep, true);
    objrt::run_hostile(ctx, &mut rep, true);
    // life cycle: every 11th object's round trip again right after the reader was given a damaged copy of it on the same thread (14 kinds of damage)
    objrt::run_after_failed_reads(ctx, &mut rep, true);
    rep.require(rep.acc.get("linked_objects") > 100 && rep.acc.get("assembled_objects") > 300, "assembled and linked objects explored");
    rep
}
pub fn replay(case: &str) -> Option<String> { objrt::replay(case, true) }
