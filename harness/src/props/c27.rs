//! C27 — frame stack tracks calls and returns.
use super::simcmp::*;
use crate::refs::isa::reg;
use crate::refs::lc3::Outcome;
use crate::util::*;
use lc3_ensemble::ast::Reg;
use lc3_ensemble::sim::frame::{FrameType, ParameterList};

const ALPHA: [u16; 9] = [0x4800, 0x4801, 0x4040, 0xF021, 0xF025, 0xC1C0, 0xC040, 0x8000, 0x1021];
const MODES: u64 = 3; // 0 user/virtual, 1 user/real, 2 supervisor/virtual

fn machine(idx: u64, mode: u64, debug: bool) -> (Machine, Vec<u16>) {
    let mut m = Machine::user();
    m.debug_frames = debug; m.real_traps = mode == 1;
    if mode == 2 { m.psr = 0x0002; m.saved_sp = 0xFD00; }
    m.regs = [0x0041, 0x3004, 2, 3, 4, 5, if mode == 2 { 0x2F00 } else { 0xFD00 }, 0x3006];
    let mut words = vec![]; let mut i = idx;
    for _ in 0..4 { words.push(ALPHA[(i % 9) as usize]); i /= 9; }
    for (k, w) in words.iter().enumerate() { m.pokes.push((0x3000 + k as u16, *w)); }
    for k in 4..12u16 { m.pokes.push((0x3000 + k, 0xF025)); }
    // supervisor stack content for unbalanced RTIs: (PC, PSR) pairs returning into the HALT sled in supervisor mode
    for k in 0..8u16 { m.pokes.push((0x2F00 + 2 * k, 0x3006 + k % 4)); m.pokes.push((0x2F01 + 2 * k, 0x0002)); }
    // user stack content (arguments for the calling-convention signature)
    for k in 0..6u16 { m.pokes.push((0xFD00 + k, 0xA000 + k)); }
    // interrupt handler: RTI only; vector x90
    m.pokes.push((0x0190, 0x1F00)); m.pokes.push((0x0121, 0x1F00)); m.pokes.push((0x1F00, 0x8000));
    (m, words)
}
fn signature(addr: u16) -> Option<ParameterList> {
    match addr { 0x3001 | 0x3003 | 0x3005 => Some(ParameterList::with_calling_convention(&["a", "b"])), 0x3002 => Some(ParameterList::with_pass_by_register(&[("x", Reg::R0), ("y", Reg::R1)], Some(Reg::R0))),
        // parameters in the link register and the stack pointer: what the callee sees at entry (R7 = the return address)
        0x3004 => Some(ParameterList::with_pass_by_register(&[("x", Reg::R0), ("ret", Reg::R7), ("sp", Reg::R6)], Some(Reg::R0))), _ => None }
}

#[derive(Clone, Debug, PartialEq)]
struct ExpFrame { caller: u16, callee: u16, kind: u8, args: Vec<u16>, fp: Option<u16> }

/// prior use of the simulator: a program that stops two calls deep (JSR; JSR; ...; TRAP x25 inside) was run on it, then reset()
fn prior_machine(m: &Machine) -> Machine {
    let mut pm = Machine::user();
    pm.debug_frames = !m.debug_frames; pm.real_traps = false;
    pm.regs = [0x0041, 0x3004, 2, 3, 4, 5, 0xFD00, 0x3006];
    for (k, w) in [0x4800u16, 0x4800, 0xF021, 0xF025].iter().enumerate() { pm.pokes.push((0x3000 + k as u16, *w)); }
    pm
}
fn run(idx: u64, mode: u64, debug: bool, int_at: Option<u64>, vect: u8) -> Result<(u64, u64), (String, String)> { run_on(idx, mode, debug, int_at, vect, false) }
fn run_on(idx: u64, mode: u64, debug: bool, int_at: Option<u64>, vect: u8, reused: bool) -> Result<(u64, u64), (String, String)> {
    let (m, words) = machine(idx, mode, debug);
    let mut p = if reused { build_reused(&m, &prior_machine(&m), 200).map_err(|e| (format!("panic:{}", panic_site(&e)), format!("setting up a reused simulator: {e}")))? } else { build(&m) };
    if reused && !p.sim.frame_stack.is_empty() { return Err(("depth-after-reset".into(), format!("frame depth {} right after reset() (nothing has executed)", p.sim.frame_stack.len()))); }
    for a in 0x3000..0x3008u16 { if let Some(s) = signature(a) { p.sim.frame_stack.set_subroutine_def(a, s); } }
    if let Some(at) = int_at { p.add_source(vect, 4, vec![at]); }
    let what = format!("program {words:x?} mode {mode} debug_frames={debug} interrupt_at={int_at:?} vector x{vect:02X}{}", if reused { " on a simulator that was reset() after a run that stopped two calls deep" } else { "" });
    let mut exp: Vec<ExpFrame> = vec![];
    let mut maxdepth = 0u64; let mut steps = 0u64;
    for _ in 0..60 {
        // pre-state needed to compute the arguments of a frame pushed by this step
        let r: Vec<u16> = (0..8).map(|i| p.sim.reg_file[reg(i)].get()).collect();
        let pre_depth = p.rf.frames.len();
        let stack: Vec<u16> = (0..2).map(|i| p.sim.mem[r[6].wrapping_add(i)].get()).collect();
        let info = step_compare(&mut p, false)?;
        steps += 1;
        if matches!(info.outcome, Outcome::Exception(_)) || p.rf.saw_user_rti { break; } // statement silent on exception entries / A10
        // maintain the expected frame list from the reference's frames
        let now = p.rf.frames.len();
        if now > pre_depth {
            let (caller, callee, kind) = *p.rf.frames.last().unwrap();
            let (args, fp) = match kind {
                0 => match signature(callee) {
                    Some(ParameterList::CallingConvention { .. }) => (stack.clone(), Some(r[6].wrapping_sub(4))),
                    Some(ParameterList::PassByRegister { .. }) => (if callee == 0x3004 { vec![r[0], caller.wrapping_add(1), r[6]] } else { vec![r[0], r[1]] }, None),
                    None => (vec![], None),
                },
                1 => (match callee { 0x21 | 0x22 | 0x24 => vec![r[0]], _ => vec![] }, None),
                _ => (vec![], None),
            };
            exp.push(ExpFrame { caller, callee, kind, args, fp });
        } else if now < pre_depth || matches!(p.rf.mem(p.rf.instr_addr), 0xC1C0 | 0x8000) && info.outcome == Outcome::Executed { exp.truncate(now); }
        maxdepth = maxdepth.max(p.rf.depth);
        if exp.len() as u64 != p.rf.depth { return Err(("machinery:expected-frames".into(), format!("{what}: harness bookkeeping has {} expected frames for depth {}", exp.len(), p.rf.depth))); }
        // ---- oracle
        let got_len = p.sim.frame_stack.len();
        if got_len != p.rf.depth { return Err(("depth".into(), format!("{what}: after step {steps} (pc now x{:04X}) frame depth {got_len}, expected calls-minus-returns {}", p.sim.pc, p.rf.depth))); }
        if p.sim.frame_stack.is_empty() != (p.rf.depth == 0) { return Err(("is_empty".into(), format!("{what}: is_empty() disagrees with len()"))); }
        match p.sim.frame_stack.frames() {
            None => if debug { return Err(("frames-missing".into(), format!("{what}: debug_frames is on but frames() is None"))); },
            Some(fs) => {
                if !debug { return Err(("frames-present".into(), format!("{what}: debug_frames is off but frames() is Some"))); }
                if fs.len() as u64 != p.rf.depth { return Err(("frame-list-length".into(), format!("{what}: {} frame entries, depth {}", fs.len(), p.rf.depth))); }
                for (k, (g, e)) in fs.iter().zip(exp.iter()).enumerate() {
                    let gk = match g.frame_type { FrameType::Subroutine => 0u8, FrameType::Trap => 1, FrameType::Interrupt => 2 };
                    let ga: Vec<u16> = g.arguments.iter().map(|w| w.get()).collect();
                    if g.caller_addr != e.caller || g.callee_addr != e.callee || gk != e.kind { return Err((format!("frame-entry:{}", ["subroutine", "trap", "interrupt"][e.kind as usize]), format!("{what}: frame {k} = (caller x{:04X}, callee x{:04X}, {:?}), expected (x{:04X}, x{:04X}, kind {})", g.caller_addr, g.callee_addr, g.frame_type, e.caller, e.callee, e.kind))); }
                    if ga != e.args { return Err((format!("frame-arguments:{}", ["subroutine", "trap", "interrupt"][e.kind as usize]), format!("{what}: frame {k} (callee x{:04X}) arguments {ga:x?}, expected {:x?}", e.callee, e.args))); }
                    if g.frame_ptr.map(|w| w.get()) != e.fp { return Err(("frame-pointer".into(), format!("{what}: frame {k} frame_ptr {:x?}, expected {:x?}", g.frame_ptr.map(|w| w.get()), e.fp))); }
                }
            }
        }
        if matches!(info.outcome, Outcome::Halt | Outcome::Err(_)) { break; }
    }
    Ok((steps, maxdepth))
}

// ---- life cycle of signatures: registered, replaced and removed-by-replacement while the program is already running
/// Program: three calls of the same subroutine (JSR SUB x3 ; HALT ; SUB: RET). The host registers signature `k1` for SUB after `r1` executed
/// steps and signature `k2` after `r2` steps (kinds: 0 none, 1 stack arguments, 2 register arguments, 3 one register argument). A frame
/// holds the arguments described by the signature registered for the callee when the call is made.
fn run_late(r1: u64, k1: u64, r2: u64, k2: u64) -> Result<u64, (String, String)> {
    let mut m = Machine::user();
    m.debug_frames = true;
    m.regs = [0x0041, 0x0042, 2, 3, 4, 5, 0xFD00, 0];
    for (k, w) in [0x4803u16, 0x4802, 0x4801, 0xF025, 0xC1C0].iter().enumerate() { m.pokes.push((0x3000 + k as u16, *w)); }
    for k in 0..4u16 { m.pokes.push((0xFD00 + k, 0xA000 + k)); }
    let sig = |k: u64| match k { 1 => Some(ParameterList::with_calling_convention(&["a", "b"])), 2 => Some(ParameterList::with_pass_by_register(&[("x", Reg::R0), ("y", Reg::R1)], Some(Reg::R0))), 3 => Some(ParameterList::with_pass_by_register(&[("x", Reg::R1)], None)), _ => None };
    let args = |k: u64| -> Vec<u16> { match k { 1 => vec![0xA000, 0xA001], 2 => vec![0x0041, 0x0042], 3 => vec![0x0042], _ => vec![] } };
    let what = format!("three calls of one subroutine; signature kind {k1} registered after {r1} steps, kind {k2} after {r2} steps");
    let mut p = build(&m);
    let mut current = 0u64;
    for step in 0..8u64 {
        if step == r1 { if let Some(s) = sig(k1) { p.sim.frame_stack.set_subroutine_def(0x3004, s); current = k1; } }
        if step == r2 { if let Some(s) = sig(k2) { p.sim.frame_stack.set_subroutine_def(0x3004, s); current = k2; } }
        let pc = p.sim.pc;
        let info = step_compare(&mut p, false)?;
        if (0x3000..0x3003).contains(&pc) && info.outcome == Outcome::Executed {
            // a call was just made: the innermost frame describes it
            let Some(fs) = p.sim.frame_stack.frames() else { return Err(("frames-missing".into(), format!("{what}: debug_frames is on but frames() is None"))) };
            let Some(f) = fs.last() else { return Err(("depth".into(), format!("{what}: no frame after the call at x{pc:04X}"))) };
            let ga: Vec<u16> = f.arguments.iter().map(|w| w.get()).collect();
            if f.callee_addr != 0x3004 || f.caller_addr != pc { return Err(("frame-entry:subroutine".into(), format!("{what}: frame after the call at x{pc:04X} = (x{:04X}, x{:04X})", f.caller_addr, f.callee_addr))); }
            if ga != args(current) { return Err(("frame-arguments:registered-later".into(), format!("{what}: the call at x{pc:04X} (step {step}) made a frame with arguments {ga:x?}; the signature registered for the callee at that moment (kind {current}) describes {:x?}", args(current)))); }
        }
        if matches!(info.outcome, Outcome::Halt | Outcome::Err(_)) { return Ok(step + 1); }
    }
    Ok(8)
}

// ---- where the stack is: stack-argument signatures with the stack pointer at the ends of the address space
/// One call of a subroutine whose signature has `n` stack arguments, with R6 = `r6`: the frame's arguments are the `n` words at R6, R6+1, ...
/// (addresses wrap at xFFFF), read as raw memory cells.
const EDGE_SP: [u16; 12] = [0xFFFC, 0xFFFD, 0xFFFE, 0xFFFF, 0x0000, 0x0001, 0xFDFE, 0xFDFF, 0xFE00, 0x2FFE, 0x2FFF, 0x7FFF];
fn run_edge(r6: u16, n: usize) -> Result<u64, (String, String)> {
    let mut m = Machine::user();
    m.debug_frames = true; m.ignore_priv = true;
    m.regs = [1, 2, 3, 4, 5, 6, r6, 0];
    for (k, w) in [0x4801u16, 0xF025, 0xC1C0].iter().enumerate() { m.pokes.push((0x3000 + k as u16, *w)); }
    let names = ["a", "b", "c", "d"];
    let what = format!("call of a subroutine with {n} stack argument(s) while R6 = x{r6:04X}");
    let mut p = build(&m);
    for i in 0..n as u16 { let a = r6.wrapping_add(i); if !(0x3000..0x3003).contains(&a) { p.sim.mem[a].set(0x1110 * (i + 1)); p.rf.set_mem(a, 0x1110 * (i + 1)); } }
    p.sim.frame_stack.set_subroutine_def(0x3002, ParameterList::with_calling_convention(&names[..n]));
    let exp: Vec<u16> = (0..n as u16).map(|i| p.sim.mem[r6.wrapping_add(i)].get()).collect();
    step_compare(&mut p, false)?;
    let Some(fs) = p.sim.frame_stack.frames() else { return Err(("frames-missing".into(), format!("{what}: frames() is None"))) };
    let Some(f) = fs.last() else { return Err(("depth".into(), format!("{what}: no frame after the call"))) };
    let ga: Vec<u16> = f.arguments.iter().map(|w| w.get()).collect();
    if ga != exp { return Err(("frame-arguments:stack-at-the-edge".into(), format!("{what}: frame arguments {ga:x?}, the words at R6.. are {exp:x?}"))); }
    Ok(1)
}

// ---- strict mode: a step that strict mode rejects has executed nothing, so it cannot have entered or left a subroutine
/// words 0-8 at position k of the program: JSR +0, JSR +1, RET, LD R7 <- never-written cell, LD R7 <- cell pointing at never-written memory, ADD, JSRR R1, TRAP x21, JMP R1
fn strict_word(sel: u64, k: u16) -> u16 {
    let off = |cell: u16| (cell.wrapping_sub(0x3000 + k + 1)) & 0x1FF;
    match sel { 0 => 0x4800, 1 => 0x4801, 2 => 0xC1C0, 3 => 0x2E00 | off(0x3010), 4 => 0x2E00 | off(0x3011), 5 => 0x1021, 6 => 0x4040, 7 => 0xF021, _ => 0xC040 }
}
fn run_strict(idx: u64, debug: bool) -> Result<(u64, bool), (String, String)> {
    let mut m = Machine::user();
    m.debug_frames = debug;
    m.regs = [0x0041, 0x3004, 2, 3, 4, 5, 0xFD00, 0x3006];
    m.uninit_regs = 0x80; // R7 never written
    let mut words = vec![]; let mut i = idx;
    for k in 0..4u16 { words.push(strict_word(i % 9, k)); i /= 9; }
    for (k, w) in words.iter().enumerate() { m.pokes.push((0x3000 + k as u16, *w)); }
    for k in 4..12u16 { m.pokes.push((0x3000 + k, 0xF025)); }
    m.pokes.push((0x3011, 0x5000));
    let what = format!("strict-mode program {words:x?} debug_frames={debug} (R7, x3010 and x5000 never written)");
    let mut ms = m.clone(); ms.strict = true;
    let (mut s, mut n) = (build(&ms), build(&m));
    let mut rejected = false; let mut steps = 0;
    for _ in 0..40 {
        let pre = s.sim.frame_stack.len();
        let pre_frames = s.sim.frame_stack.frames().map(|f| f.len());
        let rs = match catch(|| s.sim.step_in()) { Ok(r) => r, Err(p) => return Err((format!("panic:{}", panic_site(&p)), format!("{what}: {p}"))) };
        steps += 1;
        match rs {
            Ok(()) => {
                let rn = match catch(|| n.sim.step_in()) { Ok(r) => r, Err(p) => return Err((format!("panic:{}", panic_site(&p)), format!("{what}: {p}"))) };
                if rn.is_err() { break; }
                if s.sim.frame_stack.len() != n.sim.frame_stack.len() { return Err(("strict:depth-differs".into(), format!("{what}: after step {steps} the strict machine is at depth {}, the non-strict one at {}", s.sim.frame_stack.len(), n.sim.frame_stack.len()))); }
                if s.sim.pc == n.sim.pc && s.sim.instructions_run == n.sim.instructions_run && s.sim.mem[s.sim.pc].get() == 0xF025 && steps > 6 { break; }
            }
            Err(e) => {
                let strict_err = format!("{e:?}").starts_with("Strict");
                if strict_err {
                    rejected = true;
                    if s.sim.frame_stack.len() != pre || s.sim.frame_stack.frames().map(|f| f.len()) != pre_frames {
                        return Err(("strict:rejected-step-changed-frames".into(), format!("{what}: step {steps} was rejected with {e:?} (nothing executed) but the frame depth went from {pre} to {}", s.sim.frame_stack.len())));
                    }
                }
                break;
            }
        }
    }
    Ok((steps, rejected))
}

// ---- scale: thousands of live frames
/// `n` nested calls (ADD R1,R1,#-1 ; BRz +1 ; JSR -3 ; RET with R7 pointing at the RET itself), then the matching n returns one per step
fn run_deep(n: u16, debug: bool) -> Result<u64, (String, String)> {
    let mut m = Machine::user();
    m.debug_frames = debug;
    m.regs = [0, n, 2, 3, 4, 5, 0xFD00, 0x3003];
    for (k, w) in [0x127Fu16, 0x0401, 0x4FFD, 0xC1C0].iter().enumerate() { m.pokes.push((0x3000 + k as u16, *w)); }
    let mut p = build(&m);
    let what = format!("{n} nested calls then {n} returns, debug_frames={debug}");
    let mut steps = 0u64;
    for _ in 0..(4 * n as u64 + 40) {
        step_compare(&mut p, false).map_err(|(s, d)| (s, format!("{what}: step {steps}: {d}")))?;
        steps += 1;
        let depth = p.rf.depth;
        if p.sim.frame_stack.len() != depth { return Err(("deep:depth".into(), format!("{what}: after step {steps} frame depth {}, calls minus returns {depth}", p.sim.frame_stack.len()))); }
        match p.sim.frame_stack.frames() {
            None => if debug { return Err(("deep:frames-missing".into(), format!("{what}: debug_frames is on but frames() is None"))); },
            Some(fs) => {
                if fs.len() as u64 != depth { return Err(("deep:frame-list-length".into(), format!("{what}: after step {steps} the frame list has {} entries at depth {depth}", fs.len()))); }
                if let Some(top) = fs.last() { if top.caller_addr != 0x3002 || top.callee_addr != 0x3000 { return Err(("deep:top-frame".into(), format!("{what}: after step {steps} the innermost frame is (caller x{:04X}, callee x{:04X}), expected (x3002, x3000)", top.caller_addr, top.callee_addr))); } }
            }
        }
        if steps > 3 * n as u64 + 3 && depth == 0 { break; }
    }
    Ok(steps)
}
const DEEP_N: [u16; 9] = [255, 256, 257, 4095, 4096, 4097, 5000, 16384, 20000];

pub fn run_engine(ctx: &Ctx) -> Report {
    let mut rep = Report::new("every program of 4 instructions over {JSR +0, JSR +1, JSRR R1, TRAP x21, TRAP x25, RET (= JMP R7), JMP R1, RTI, ADD} (6561 programs, unbalanced returns included) followed by a HALT sled x {user/virtual traps, user/real traps, supervisor/virtual with a prepared stack for RTI} x debug frames on/off x {no interrupt, one vectored interrupt (vector x90, or x21 whose low byte equals a trap vector with a built-in signature) raised at each of the first 10 (thorough 16) polls}; calling-convention (2 params, prepared stack) and pass-by-register signatures registered for 5 callee addresses; and every program again on a simulator that first ran another program to a stop two calls deep (with the opposite debug_frames setting) and was reset(); strict mode: every program of 4 over {JSR +0, JSR +1, RET, LD R7 from a never-written cell, LD R7 from a pointer to never-written memory, ADD, JSRR, TRAP x21, JMP R1} on a strict and a non-strict simulator side by side: equal depth while both accept, and a step that strict mode rejects leaves depth and frame list unchanged; run in lock-step with RefLC3; after every step len() = calls - returns saturating, is_empty(), and with debug frames the entry list (caller address, callee/vector, kind, arguments per signature, frame pointer). non-trivial = runs that reach depth >= 2");
    let polls = ctx.pick(10u64, 16u64);
    let stride = ctx.pick(3u64, 1u64);
    let nprog = 6561u64.div_ceil(stride);
    let r = sweep(ctx, nprog * MODES * 2 * (polls + 1), 32, |k, acc| {
        let int = k % (polls + 1); let debug = k / (polls + 1) % 2 == 1; let mode = k / (2 * (polls + 1)) % MODES; let pi = k / (2 * (polls + 1) * MODES);
        let idx = (pi * stride + (mode + int) % stride).min(6560);
        let int_at = if int == 0 { None } else { Some(int - 1) };
        let vect = if (pi + int) % 2 == 0 { 0x90u8 } else { 0x21u8 };
        acc.evals += 1; acc.traces += 1;
        match run(idx, mode, debug, int_at, vect) {
            Ok((steps, d)) => { acc.transitions += steps; if d >= 2 { acc.nontrivial += 1; } acc.outcomes.insert(mix(d, steps.min(30))); if int_at.is_some() { acc.count("with_interrupt", 1); } }
            Err((sig, d)) => acc.violation(sig, format!("{idx}:{mode}:{}:{}:{vect}", debug as u8, int_at.map(|x| x as i64).unwrap_or(-1)), d),
        }
        acc.sample(k, ctx.seed, 40_009, || format!("program {:x?} mode {mode} debug={debug} interrupt_at={int_at:?}", machine(idx, mode, debug).1));
    });
    rep.absorb(r);
    // the same programs on reused simulators (no interrupt dimension)
    let r = sweep(ctx, nprog * MODES * 2, 32, |k, acc| {
        let debug = k % 2 == 1; let mode = k / 2 % MODES; let pi = k / (2 * MODES);
        let idx = (pi * stride + mode % stride).min(6560);
        acc.evals += 1; acc.traces += 1; acc.count("on_reused_simulator", 1);
        match run_on(idx, mode, debug, None, 0x90, true) {
            Ok((steps, d)) => { acc.transitions += steps; if d >= 2 { acc.nontrivial += 1; } }
            Err((sig, d)) => acc.violation(sig, format!("{idx}:{mode}:{}:-1:144:r", debug as u8), d),
        }
    });
    rep.absorb(r);
    let r = sweep(ctx, 6561 * 2, 32, |k, acc| {
        let (idx, debug) = (k / 2, k % 2 == 1);
        acc.evals += 1; acc.traces += 1; acc.count("strict_programs", 1);
        match run_strict(idx, debug) {
            Ok((steps, rej)) => { acc.transitions += steps; if rej { acc.count("strict_rejections", 1); } }
            Err((sig, d)) => acc.violation(sig, format!("s:{idx}:{}", debug as u8), d),
        }
    });
    rep.absorb(r);
    let r = sweep(ctx, EDGE_SP.len() as u64 * 4, 4, |k, acc| {
        let (r6, n) = (EDGE_SP[(k / 4) as usize], (k % 4) as usize + 1);
        acc.evals += 1; acc.count("stack_argument_frames_at_the_edges", 1);
        match run_edge(r6, n) { Ok(s2) => { acc.transitions += s2; acc.nontrivial += 1; } Err((sig, d)) => acc.violation(sig, format!("edge:{r6}:{n}"), d) }
    });
    rep.absorb(r);
    let r = sweep(ctx, 8 * 4 * 8 * 4, 16, |k, acc| {
        let (r1, k1, r2, k2) = (k % 8, k / 8 % 4, k / 32 % 8, k / 256);
        acc.evals += 1; acc.count("signatures_registered_while_running", 1);
        match run_late(r1, k1, r2, k2) { Ok(steps) => { acc.transitions += steps; acc.nontrivial += 1; } Err((sig, d)) => acc.violation(sig, format!("late:{r1}:{k1}:{r2}:{k2}"), d) }
    });
    rep.absorb(r);
    let r = sweep(ctx, DEEP_N.len() as u64 * 2, 1, |k, acc| {
        let (n, debug) = (DEEP_N[(k / 2) as usize], k % 2 == 1);
        acc.evals += 1; acc.traces += 1; acc.count("deep_nesting_runs", 1);
        match run_deep(n, debug) { Ok(steps) => { acc.transitions += steps; acc.nontrivial += 1; } Err((sig, d)) => acc.violation(sig, format!("deep:{n}:{}", debug as u8), d) }
    });
    rep.absorb(r);
    rep.require(rep.acc.get("strict_rejections") > 500, "strict mode rejected steps inside subroutines");
    rep.bound("programs", Json::i(nprog)); rep.bound("interrupt_polls", Json::i(polls));
    rep.require(rep.acc.nontrivial > 10_000, "nested frames were reached");
    rep.assume("exception entries under real traps and RTI in user mode under ignore_privilege end the comparison (statement silent)");
    rep
}
pub fn replay(case: &str) -> Option<String> {
    let p: Vec<&str> = case.split(':').collect();
    if p.first() == Some(&"deep") { return run_deep(p.get(1)?.parse().ok()?, *p.get(2)? == "1").err().map(|(s, d)| format!("[{s}] {d}")); }
    if p.first() == Some(&"edge") { return run_edge(p.get(1)?.parse().ok()?, p.get(2)?.parse().ok()?).err().map(|(s, d)| format!("[{s}] {d}")); }
    if p.first() == Some(&"late") { let n = |i: usize| -> Option<u64> { p.get(i)?.parse().ok() }; return run_late(n(1)?, n(2)?, n(3)?, n(4)?).err().map(|(s, d)| format!("[{s}] {d}")); }
    if p.first() == Some(&"s") { return run_strict(p.get(1)?.parse().ok()?, *p.get(2)? == "1").err().map(|(s, d)| format!("[{s}] {d}")); }
    let at: i64 = p.get(3)?.parse().ok()?;
    run_on(p.first()?.parse().ok()?, p.get(1)?.parse().ok()?, *p.get(2)? == "1", if at < 0 { None } else { Some(at as u64) }, p.get(4).and_then(|x| x.parse().ok()).unwrap_or(0x90), p.get(5) == Some(&"r")).err().map(|(s, d)| format!("[{s}] {d}"))
}
