//! Machine contexts and program families for the simulator-side engines.
use super::simcmp::Machine;

pub const PTRS: [u16; 16] = [0x3100, 0x2FFF, 0xFE00, 0xFE02, 0xFE04, 0xFE06, 0xFE10, 0xFFFC, 0xFFFE, 0x0000, 0xFFFF, 0xFDFF, 0x3000, 0x0200, 0xFE30, 0x4321];
const REGSETS: [[u16; 8]; 4] = [
    [0x3010, 0x2FFF, 0xFE00, 0xFE02, 0xFE06, 0xFFFC, 0x4000, 0x3005],
    [0xFDFF, 0x0000, 0xFE04, 0xFE10, 0xFFFE, 0xFFFF, 0x2FF0, 0xFE30],
    [0x0041, 0x8000, 0x7FFF, 0x0001, 0xFFFF, 0x3000, 0xFE01, 0x0200],
    [0x3000, 0x3001, 0xFDFE, 0xFE12, 0x0100, 0x0025, 0x0001, 0xFFFE],
];
const PSRS: [u16; 8] = [0x8002, 0x8001, 0x8004, 0x0002, 0x0401, 0x0704, 0x8302, 0x0002];
const PCS: [u16; 10] = [0x3000, 0x1000, 0xFDFF, 0x2FFF, 0xFE00, 0xFE02, 0xFFFF, 0x0000, 0x01FF, 0xFFFC];

/// Single-step context `i`: (flag set, PC, register set, PSR). Ordered so that the first 12 are the quick tier.
pub fn context_count(thorough: bool) -> u64 { if thorough { 4 * 10 * 4 * 2 + 12 } else { 12 } }
pub fn context(i: u64) -> Machine {
    let (flags, pc, rs, psr): (u64, u16, usize, u16) = if i < 12 {
        // quick: user & supervisor, real & virtual, checks on/off, 3 register sets
        [(0, 0x3000, 0, 0x8002), (1, 0x3000, 1, 0x8001), (2, 0x3000, 2, 0x8004), (3, 0x3000, 0, 0x8002),
         (0, 0x1000, 1, 0x0002), (1, 0x1000, 0, 0x0401), (0, 0x3000, 1, 0x8002), (1, 0x3000, 2, 0x8302),
         (0, 0xFDFF, 0, 0x8002), (1, 0x2FFF, 0, 0x8002), (0, 0xFE02, 1, 0x0002), (1, 0xFFFF, 3, 0x0002)][i as usize]
    } else {
        let k = i - 12;
        let flags = k % 4; let pc = PCS[(k / 4 % 10) as usize]; let rs = (k / 40 % 4) as usize; let hi = k / 160 % 2;
        // PSR chosen from the PC page and index parity so that each PC is visited in both modes
        let psr = PSRS[((k / 4 + k / 40 + hi * 3) % 8) as usize];
        (flags, pc, rs, psr)
    };
    let mut m = Machine::user();
    m.real_traps = flags & 1 == 1; m.ignore_priv = flags & 2 == 2;
    m.pc = pc; m.regs = REGSETS[rs]; m.psr = psr;
    m.saved_sp = if psr >> 15 == 1 { 0x2FF8 } else { 0xF000 };
    m.kb = Some(vec![b'a', b'b']); m.kb_ie = false;
    // pointer cells around the PC so that PC-relative loads/stores and indirections hit every address class
    for d in -257i32..=257 {
        if d == 0 { continue; }
        let a = (pc as i32 + d) as u16;
        if a >= 0xFE00 || a < 0x0500 { continue; } // keep the OS image and the I/O page intact
        m.pokes.push((a, PTRS[(d & 15) as usize]));
    }
    // stack areas get recognisable content
    for k in 0..4u16 { m.pokes.push((0x2FF0 + k, 0x3000 + k)); m.pokes.push((0x4000 + k, 0x8002)); }
    m
}

/// Instruction alphabet for bounded program enumeration (programs are placed at x3000; data cells at x3010..).
pub const ALPHA: [u16; 40] = [
    0x1021, // ADD R0,R0,#1
    0x103F, // ADD R0,R0,#-1
    0x5020, // AND R0,R0,#0
    0x903F, // NOT R0,R0
    0x1240, // ADD R1,R1,R0
    0x0801, // BRn +1
    0x0401, // BRz +1
    0x0201, // BRp +1
    0x0FFE, // BRnzp -2
    0x0E00, // BRnzp +0
    0x4801, // JSR +1
    0x4040, // JSRR R1
    0xC1C0, // RET
    0xC040, // JMP R1
    0xF020, // GETC
    0xF021, // OUT
    0xF022, // PUTS
    0xF024, // PUTSP
    0xF025, // HALT
    0xF030, // TRAP x30 (bad trap)
    0x8000, // RTI
    0x200C, // LD R0, +12
    0xA20D, // LDI R1, +13
    0x6180, // LDR R0,R6,#0
    0x300C, // ST R0, +12
    0xB00E, // STI R0, +14  (pointer -> DDR)
    0x71BF, // STR R0,R6,#-1
    0xE00B, // LEA R0, +11
    0x21FE, // LD R0, -2 (reads code)
    0x31FF, // ST R0, -1 (overwrites the previous instruction)
    0xA40F, // LDI R2, +15 (pointer -> KBDR)
    0x6480, // LDR R2,R2,#0
    0x1DBF, // ADD R6,R6,#-1
    0x1DA1, // ADD R6,R6,#1
    0xE1FF, // LEA R0,-1
    0xD000, // reserved opcode
    0x1030, // ADD with bad MBZ? (x1030 = ADD R0,R0,imm -16) valid; keeps CC negative
    0x903E, // NOT with wrong suffix (invalid format)
    0x5000, // AND R0,R0,R0
    0x6FC0, // LDR R7,R7,#0
];
/// Builds the machine for program `idx` of length `len` (base-40 digits), flag set 0..4.
pub fn program_machine(len: usize, mut idx: u64, flags: u64) -> (Machine, Vec<u16>) {
    let mut m = Machine::user();
    m.real_traps = flags & 1 == 1; m.ignore_priv = flags & 2 == 2;
    m.regs = [0x0041, 0x3006, 0xFE00, 0x0003, 0x0004, 0x0005, 0xFD00, 0x3009];
    m.kb = Some(vec![b'x', b'y']);
    let mut words = vec![];
    for _ in 0..len { words.push(ALPHA[(idx % 40) as usize]); idx /= 40; }
    for (k, w) in words.iter().enumerate() { m.pokes.push((0x3000 + k as u16, *w)); }
    for k in len as u16..9 { m.pokes.push((0x3000 + k, 0xF025)); } // HALT sled after the program
    m.pokes.push((0x3009, 0xF025));
    // data cells
    for (k, v) in [(0x300Du16, 0x0048u16), (0x300E, 0x3012), (0x300F, 0xFE06), (0x3010, 0xFE06), (0x3011, 0xFE02), (0x3012, 0x0069), (0x3013, 0x0000), (0xFD00, 0x3003), (0xFCFF, 0x1111)] { m.pokes.push((k, v)); }
    // packed string for PUTSP / PUTS at x0041? R0 = x0041 points into the trap table (supervisor) — ACV in user mode; a user string at x3014
    m.pokes.push((0x3014, 0x6261)); m.pokes.push((0x3015, 0x0000));
    (m, words)
}
