//! Common driver for the assembler-side properties: enumerate (family, index, style, debug), run the shared oracle,
//! keep the failures tagged with this property.
use super::asmcheck::*;
use crate::gen::families::Families;
use crate::gen::prog::*;
use crate::util::*;
use std::sync::OnceLock;

pub fn families() -> &'static Families { static F: OnceLock<Families> = OnceLock::new(); F.get_or_init(Families::new) }

pub fn style_of(p: u64, s: u64) -> Style { Style::primary(p).with_secondary(s) }
/// plain style indices: primary 0 with default secondary (comma=1)
pub const DEFAULT_SECONDARY: u64 = 1;

pub fn case_id(fam: &str, idx: u64, p: u64, s: u64, debug: bool) -> String { format!("{fam}:{idx}:{p}:{s}:{}", debug as u8) }
pub fn parse_case(case: &str) -> Option<(String, u64, u64, u64, bool)> {
    let v: Vec<&str> = case.split(':').collect();
    Some((v.first()?.to_string(), v.get(1)?.parse().ok()?, v.get(2)?.parse().ok()?, v.get(3)?.parse().ok()?, *v.get(4)? == "1"))
}

/// Runs one case and returns the failures tagged `prop` (plus panics in parsing, which belong to whoever sees them).
pub fn run_case(prop: &str, fam: &str, idx: u64, p: u64, s: u64, debug: bool) -> Option<(Info, Vec<Fail>)> {
    let prog = families().get(fam, idx)?;
    let mut out = vec![];
    let info = check_program(&prog, &style_of(p, s), debug, &mut out);
    out.retain(|f| f.prop == prop);
    Some((info, out))
}
pub fn replay_case(prop: &str, case: &str) -> Option<String> {
    let (fam, idx, p, s, d) = parse_case(case)?;
    let (_, fails) = run_case(prop, &fam, idx, p, s, d)?;
    fails.into_iter().next().map(|f| format!("[{}] {}", f.sig, f.detail))
}

pub struct Plan { pub fam: &'static str, pub styles: Vec<(u64, u64)>, pub debug: Vec<bool>, pub stride: u64 }

pub fn run_plans(ctx: &Ctx, rep: &mut Report, prop: &'static str, plans: &[Plan], nontrivial: &(dyn Fn(&Info) -> bool + Sync)) {
    for plan in plans {
        let n = families().len(plan.fam);
        let per = (plan.styles.len() * plan.debug.len()) as u64;
        let total = n.div_ceil(plan.stride) * per;
        let r = sweep(ctx, total, 64, |k, acc| {
            let idx = (k / per) * plan.stride; let v = k % per;
            let (p, s) = plan.styles[(v / plan.debug.len() as u64) as usize]; let d = plan.debug[(v % plan.debug.len() as u64) as usize];
            let Some((info, fails)) = run_case(prop, plan.fam, idx, p, s, d) else { return };
            acc.evals += 1; acc.transitions += 3; acc.count(&format!("family_{}", plan.fam), 1);
            if info.accepted { acc.count("accepted", 1); } else if info.parsed { acc.count("rejected", 1); }
            if nontrivial(&info) { acc.nontrivial += 1; }
            acc.outcomes.insert(info.outcome_hash);
            acc.sample(k, ctx.seed, 7919, || { let prog = families().get(plan.fam, idx).unwrap(); format!("{}: {}", case_id(plan.fam, idx, p, s, d), render(&prog, &style_of(p, s)).text.replace('\n', "\\n")) });
            for f in fails { acc.violation(f.sig, case_id(plan.fam, idx, p, s, d), f.detail); }
        });
        rep.absorb(r);
    }
}
