//! C19 — reading untrusted object files never panics (nor do re-serializing, linking and loading what was read).
use super::objrt;
use crate::gen::objs::*;
use crate::gen::prog::Style;
use crate::util::*;
use lc3_ensemble::asm::encoding::{BinaryFormat, ObjFileFormat, TextFormat};
use lc3_ensemble::asm::ObjectFile;
use lc3_ensemble::sim::mem::MachineInitStrategy;
use lc3_ensemble::sim::{SimFlags, Simulator};
use std::cell::RefCell;
use std::sync::OnceLock;

const HEADER: &[u8] = b"obj\x21\x10\x00\x01";

fn partners() -> &'static Vec<ObjectFile> {
    static P: OnceLock<Vec<ObjectFile>> = OnceLock::new();
    P.get_or_init(|| {
        let lf = link_family();
        let pick = ["def A@x3000+2", "use A@x5000 decl0", "def B use A", "data no labels", "label at zero C and data"];
        let mut v: Vec<ObjectFile> = pick.iter().filter_map(|n| lf.iter().find(|(d, _)| d == n)).filter_map(|(_, p)| assemble_prog(p, true, &Style::plain()).map(|x| x.0)).collect();
        if let Some((_, p)) = lf.iter().find(|(d, _)| d == "def A@x3000+2") { if let Some((o, _)) = assemble_prog(p, false, &Style::plain()) { v.push(o); } }
        v
    })
}
thread_local! { static SIM: RefCell<Option<Simulator>> = const { RefCell::new(None) }; }

/// Everything the property lists after a successful read. Returns the first panic (stage, message).
fn exercise(o: &ObjectFile) -> Option<(String, String)> {
    if let Err(p) = catch(|| BinaryFormat::serialize(o)) { return Some((format!("panic:reserialize-binary:{}", panic_site(&p)), p)); }
    if let Err(p) = catch(|| TextFormat::serialize(o)) { return Some((format!("panic:reserialize-text:{}", panic_site(&p)), p)); }
    for (i, p) in partners().iter().enumerate() {
        if let Err(m) = catch(|| { let _ = ObjectFile::link(o.clone(), p.clone()); }) { return Some((format!("panic:link:{}", panic_site(&m)), format!("link(read, partner {i}): {m}"))); }
        if let Err(m) = catch(|| { let _ = ObjectFile::link(p.clone(), o.clone()); }) { return Some((format!("panic:link:{}", panic_site(&m)), format!("link(partner {i}, read): {m}"))); }
    }
    let r = catch(|| SIM.with(|s| {
        let mut s = s.borrow_mut();
        let sim = s.get_or_insert_with(|| Simulator::new(SimFlags { machine_init: MachineInitStrategy::Known { value: 0 }, ..Default::default() }));
        let _ = sim.load_obj_file(o);
    }));
    if let Err(m) = r { SIM.with(|s| *s.borrow_mut() = None); return Some((format!("panic:load:{}", panic_site(&m)), m)); }
    // ... and into a simulator that is in use: it has loaded and run part of another program (observer, frames and counters are not empty),
    // loads the file without a reset, steps on, and loads it once more
    let r = catch(|| {
        let mut sim = Simulator::new(SimFlags { machine_init: MachineInitStrategy::Known { value: 0 }, debug_frames: true, ..Default::default() });
        if let Some(p) = partners().first() { let _ = sim.load_obj_file(p); }
        for (k, w) in [0x2003u16, 0x3003, 0x4801, 0xF025, 0x1021, 0xC1C0].iter().enumerate() { sim.mem[0x3000 + k as u16].set(*w); }
        sim.pc = 0x3000;
        for _ in 0..3 { let _ = sim.step_in(); }
        let _ = sim.load_obj_file(o);
        let _ = sim.step_in();
        let _ = sim.load_obj_file(o);
        let _ = sim.run_with_limit(5);
    });
    if let Err(m) = r { return Some((format!("panic:load-into-used-simulator:{}", panic_site(&m)), format!("loading into a simulator that has run part of another program: {m}"))); }
    None
}
fn check_bin(bytes: &[u8]) -> (bool, Option<(String, String)>) {
    match catch(|| BinaryFormat::deserialize(bytes)) {
        Err(p) => (false, Some((format!("panic:read-binary:{}", panic_site(&p)), p))),
        Ok(None) => (false, None),
        Ok(Some(o)) => (true, exercise(&o)),
    }
}
fn check_text(text: &str) -> (bool, Option<(String, String)>) {
    match catch(|| TextFormat::deserialize(text)) {
        Err(p) => (false, Some((format!("panic:read-text:{}", panic_site(&p)), p))),
        Ok(None) => (false, None),
        Ok(Some(o)) => (true, exercise(&o)),
    }
}

// ---------------------------------------------------------------- binary structure walker (from the documented layout)
#[derive(Clone, Debug)]
struct Field { off: usize, len: usize }
struct Chunk { start: usize, end: usize, fields: Vec<Field> }
fn walk(b: &[u8]) -> Vec<Chunk> {
    let mut v = vec![]; let mut p = HEADER.len();
    let rd = |o: usize, n: usize| -> Option<u64> { let s = b.get(o..o + n)?; let mut x = 0u64; for (k, y) in s.iter().enumerate() { x |= (*y as u64) << (8 * k); } Some(x) };
    while p < b.len() {
        let start = p; let id = b[p]; p += 1;
        let mut fields = vec![];
        match id {
            0 => { fields.push(Field { off: p, len: 2 }); fields.push(Field { off: p + 2, len: 2 }); let Some(n) = rd(p + 2, 2) else { break }; p += 4 + 3 * n as usize; }
            1 => { fields.push(Field { off: p, len: 2 }); fields.push(Field { off: p + 2, len: 1 }); fields.push(Field { off: p + 3, len: 8 }); fields.push(Field { off: p + 11, len: 8 }); let Some(n) = rd(p + 11, 8) else { break }; p += 19 + n as usize; }
            2 => { fields.push(Field { off: p, len: 8 }); fields.push(Field { off: p + 8, len: 2 }); let Some(n) = rd(p + 8, 2) else { break }; for k in 0..(n as usize).min(4) { fields.push(Field { off: p + 10 + 2 * k, len: 2 }); } p += 10 + 2 * n as usize; }
            3 => { fields.push(Field { off: p, len: 8 }); let Some(n) = rd(p, 8) else { break }; p += 8 + n as usize; }
            4 => { fields.push(Field { off: p, len: 2 }); fields.push(Field { off: p + 2, len: 8 }); let Some(n) = rd(p + 2, 8) else { break }; p += 10 + n as usize; }
            _ => break,
        }
        if p > b.len() { break; }
        v.push(Chunk { start, end: p, fields });
    }
    v
}
fn field_values(len: usize, cur: u64) -> Vec<u64> {
    let max = if len == 8 { u64::MAX } else { (1u64 << (8 * len)) - 1 };
    let mut v = vec![0, 1, 2, cur.wrapping_sub(1) & max, cur.wrapping_add(1) & max, max - 1, max, max / 2, max / 2 + 1, 0xFE00 & max, 0xFDFF & max, 0xFFFF & max, 0x10000 & max];
    if len == 8 { v.extend([u64::MAX - 7, 1u64 << 63, (1u64 << 63) - 1, u32::MAX as u64, u32::MAX as u64 + 1, 1u64 << 16]); }
    v.sort(); v.dedup(); v.retain(|x| *x != cur); v
}
fn put(b: &mut [u8], f: &Field, v: u64) { for k in 0..f.len { b[f.off + k] = (v >> (8 * k)) as u8; } }
fn get(b: &[u8], f: &Field) -> u64 { let mut x = 0u64; for k in 0..f.len { x |= (b[f.off + k] as u64) << (8 * k); } x }

fn blobs(ctx: &Ctx) -> Vec<Vec<u8>> {
    let fam = objrt::family(false);
    let mut v: Vec<Vec<u8>> = vec![];
    let mut seen = std::collections::HashSet::new();
    for c in fam.iter() {
        let b = BinaryFormat::serialize(&c.obj);
        if b.len() > 700 || b.len() < 12 { continue; }
        // one blob per "shape" (set of chunk kinds and rough size)
        let shape: Vec<u8> = walk(&b).iter().map(|c| b[c.start]).collect();
        let mut key = shape.clone(); key.sort(); key.dedup(); key.push((b.len() / 120) as u8); key.push(c.desc.starts_with("link(") as u8);
        if seen.insert(key) { v.push(b); }
        if v.len() >= ctx.pick(30, 60) { break; }
    }
    v
}
fn texts(ctx: &Ctx) -> Vec<String> {
    let fam = objrt::family(false);
    let mut v = vec![]; let mut seen = std::collections::HashSet::new();
    for c in fam.iter() {
        let t = TextFormat::serialize(&c.obj);
        let nl = t.lines().count();
        if nl > 70 { continue; }
        let key = (t.contains(".SYMBOL"), t.matches(" | ").count().min(12), t.contains("????"), nl / 12, c.desc.starts_with("link("));
        if seen.insert(key) { v.push(t); }
        if v.len() >= ctx.pick(30, 60) { break; }
    }
    v
}
const NUMS: [&str; 14] = ["0", "1", "0000", "FFFF", "FE00", "10000", "65535", "65536", "18446744073709551615", "18446744073709551616", "-1", "????", "4294967296", "9223372036854775807"];

fn text_mutants(t: &str) -> Vec<String> {
    let lines: Vec<&str> = t.lines().collect();
    let mut v = vec![];
    let join = |ls: &[&str]| { let mut s = ls.join("\n"); s.push('\n'); s };
    for i in 0..lines.len() {
        let mut l = lines.clone(); l.remove(i); v.push(join(&l));
        let mut l = lines.clone(); l.insert(i, lines[i]); v.push(join(&l));
        if i + 1 < lines.len() { let mut l = lines.clone(); l.swap(i, i + 1); v.push(join(&l)); }
        v.push(join(&lines[..i]));
        for ins in ["====================", "=", ".DEBUG", ".TEXT", ".SYMBOL", ".LINKER_INFO", ".BOGUS", "LINE | ADDR | SOURCE", "LABEL | INDEX", "ADDR | EXT | LABEL", "ADDR | LABEL", "0000", "1", "X | 9"] {
            let mut l = lines.clone(); l.insert(i, ins); v.push(join(&l));
        }
        // numeric tokens of this line
        let toks: Vec<&str> = lines[i].split(" | ").collect();
        for (k, tk) in toks.iter().enumerate() {
            let tt = tk.trim();
            if tt.is_empty() || !(tt.chars().all(|c| c.is_ascii_hexdigit()) || tt == "????") { continue; }
            for n in NUMS {
                let mut nt: Vec<String> = toks.iter().map(|s| s.to_string()).collect();
                nt[k] = n.to_string();
                let nl = nt.join(" | ");
                let mut l = lines.clone(); l[i] = &nl; v.push(join(&l));
            }
        }
    }
    v
}

/// scale mutants of a valid text file: one table row repeated `n` times with its leading line/index number counting up (the rows after it
/// renumbered accordingly), for every row of every table. Identified by (text index, line index, n) instead of their (huge) contents.
fn scale_text_mutant(t: &str, line: usize, n: usize) -> Option<String> {
    let lines: Vec<&str> = t.lines().collect();
    let l = lines.get(line)?;
    let cells: Vec<&str> = l.split(" | ").collect();
    if cells.len() < 2 { return None; }
    let first: usize = cells[0].trim().parse().ok()?;
    let mut out: Vec<String> = lines[..line].iter().map(|s| s.to_string()).collect();
    for k in 0..n { let mut c: Vec<String> = cells.iter().map(|s| s.to_string()).collect(); c[0] = (first + k).to_string(); out.push(c.join(" | ")); }
    // following rows of the same table (up to the next divider) are renumbered so that the numbering stays increasing
    let mut in_table = true;
    for l2 in &lines[line + 1..] {
        if l2.starts_with('=') || l2.starts_with('.') || l2.is_empty() { in_table = false; }
        if in_table { let c2: Vec<&str> = l2.split(" | ").collect(); if let Ok(v) = c2[0].trim().parse::<usize>() { let mut c: Vec<String> = c2.iter().map(|s| s.to_string()).collect(); c[0] = (v + n - 1).to_string(); out.push(c.join(" | ")); continue; } }
        out.push(l2.to_string());
    }
    let mut s = out.join("\n"); s.push('\n'); Some(s)
}
const BLOCK_N: [usize; 9] = [1, 255, 256, 4096, 65535, 65536, 65537, 70000, 131072];
/// a text object file with one code block at `origin` that declares `n` words and carries `n + delta` word lines
/// (`mixed`: every 7th word is a reserved `????` word, otherwise the block is one initialized run)
fn block_text(origin: u32, n: usize, delta: i64, mixed: bool) -> String {
    let mut t = format!("LC-3 OBJ FILE\n\n.TEXT\n{origin:04X}\n{n}\n");
    for k in 0..(n as i64 + delta).max(0) { t.push_str(if mixed && k % 7 == 3 { "????\n" } else { "1234\n" }); }
    t.push_str("\n.SYMBOL\n\n.LINKER_INFO\n\n.DEBUG\n");
    t
}
const SCALE_N: [usize; 6] = [255, 256, 257, 65535, 65536, 70000];
fn scale_texts() -> Vec<String> {
    // a small debug object with an addressed line followed by an unaddressed one, and a linked object with labels and relocations
    let fam = objrt::family(false);
    let mut v = vec![];
    for want in ["base", "link(", "linkfam use"] { if let Some(c) = fam.iter().find(|c| c.desc.starts_with(want) && c.obj.symbol_table().and_then(|s| s.source_info()).is_some() && TextFormat::serialize(&c.obj).lines().count() < 60) { v.push(TextFormat::serialize(&c.obj)); } }
    v.push("LC-3 OBJ FILE\n\n.TEXT\n3000\n1\nF025\n\n.SYMBOL\n\n.LINKER_INFO\n\n.DEBUG\n====================\nLINE | ADDR | SOURCE\n0 | 3000 | HALT\\n\n1 | ???? | .end\n====================\n".to_string());
    v
}

pub fn run(ctx: &Ctx) -> Report {
    let mut rep = Report::new("binary: every byte string of length <=2 (thorough 3) after the valid header; for each of 30 (60) valid blobs of distinct shapes: truncation at every length, every byte replaced by 10 values, every length/address/line/index field replaced by a boundary set (0,1,cur+-1,max-1,max,2^63,u32::MAX+1,xFE00,...), every chunk deleted/duplicated/moved to the end, and (thorough) every pair of field edits; text: for each of 30 (60) valid files: every line deleted/duplicated/swapped/truncated-after, 14 structural lines inserted at every position (dividers, section headers, table headers), every numeric token replaced by 14 boundary tokens. Every accepted object is re-serialized in both formats, linked with 6 assembled files in both orders and loaded into a simulator, all under catch_unwind. non-trivial = mutated input that the reader accepted");
    // (a) short suffixes
    let maxlen = ctx.pick(2u32, 3u32);
    for len in 0..=maxlen {
        let r = sweep(ctx, 256u64.pow(len), 4096, |i, acc| {
            let mut b = HEADER.to_vec(); let mut k = i; for _ in 0..len { b.push((k % 256) as u8); k /= 256; }
            acc.evals += 1; acc.transitions += 1; acc.count("short_suffixes", 1);
            let (accepted, res) = check_bin(&b);
            if accepted { acc.nontrivial += 1; acc.count("accepted", 1); } else { acc.count("rejected", 1); }
            if let Some((sig, d)) = res { acc.violation(sig, format!("bin:{}", hex(&b)), d); }
        });
        rep.absorb(r);
    }
    // (b) structured binary mutations
    let bl = blobs(ctx);
    let r = sweep(ctx, bl.len() as u64, 1, |bi, acc| {
        let b = &bl[bi as usize];
        let mut run = |m: Vec<u8>, acc: &mut Acc, kind: &str| {
            acc.evals += 1; acc.transitions += 1; acc.count(kind, 1);
            let (accepted, res) = check_bin(&m);
            if accepted { acc.nontrivial += 1; acc.count("accepted", 1); acc.outcomes.insert(fnv(&m) % 4096); } else { acc.count("rejected", 1); }
            if let Some((sig, d)) = res { acc.violation(sig, format!("bin:{}", hex(&m)), d); }
        };
        run(b.clone(), acc, "valid_blobs");
        for n in 0..b.len() { run(b[..n].to_vec(), acc, "truncations"); }
        for i in HEADER.len()..b.len() { for v in [0u8, 1, 2, 3, 4, 5, 0x7F, 0x80, 0xFE, 0xFF] { if b[i] != v { let mut m = b.clone(); m[i] = v; run(m, acc, "byte_edits"); } } }
        let chunks = walk(b);
        let fields: Vec<Field> = chunks.iter().flat_map(|c| c.fields.clone()).filter(|f| f.off + f.len <= b.len()).collect();
        for f in &fields { for v in field_values(f.len, get(b, f)) { let mut m = b.clone(); put(&mut m, f, v); run(m, acc, "field_edits"); } }
        for c in &chunks {
            let mut m = b[..c.start].to_vec(); m.extend_from_slice(&b[c.end..]); run(m, acc, "chunk_edits");
            let mut m = b.clone(); m.extend_from_slice(&b[c.start..c.end]); run(m, acc, "chunk_edits");
            let mut m = b[..c.start].to_vec(); m.extend_from_slice(&b[c.end..]); m.extend_from_slice(&b[c.start..c.end]); run(m, acc, "chunk_edits");
        }
        // relational edits: one code block re-addressed relative to another (same start, inside it at every offset near its ends and its middle,
        // just before / just after it, overlapping its end), for every ordered pair of code blocks
        let code: Vec<&Chunk> = chunks.iter().filter(|c| b[c.start] == 0 && c.fields.len() >= 2).collect();
        for x in &code { for y in &code {
            if x.start == y.start { continue; }
            let (ox, lx, ly) = (get(b, &x.fields[0]) as i64, get(b, &x.fields[1]) as i64, get(b, &y.fields[1]) as i64);
            for d in [0i64, 1, 2, lx / 2, lx - ly - 1, lx - ly, lx - ly + 1, lx - 1, lx, lx + 1, -1, -ly, -ly + 1, -ly - 1] {
                let mut m = b.clone(); put(&mut m, &y.fields[0], ((ox + d) & 0xFFFF) as u64); run(m, acc, "relational_block_edits");
            }
        } }
        if ctx.quick() {
            // pairs of 8-byte fields (line numbers, indices, lengths) at their extreme values
            let wide: Vec<&Field> = fields.iter().filter(|f| f.len == 8).collect();
            for (x, f) in wide.iter().enumerate() { for g in wide.iter().skip(x + 1) {
                for v in [u64::MAX, u64::MAX - 1, 1u64 << 63] { for w in [u64::MAX, u64::MAX - 1, 0] {
                    let mut m = b.clone(); put(&mut m, f, v); put(&mut m, g, w); run(m, acc, "field_edit_pairs");
                } }
            } }
        }
        if ctx.thorough() {
            for (x, f) in fields.iter().enumerate() { for g in fields.iter().skip(x + 1) {
                for v in field_values(f.len, get(b, f)).into_iter().step_by(2) { for w in field_values(g.len, get(b, g)).into_iter().step_by(2) {
                    let mut m = b.clone(); put(&mut m, f, v); put(&mut m, g, w); run(m, acc, "field_edit_pairs");
                } }
            } }
        }
        acc.sample(bi, ctx.seed, 7, || format!("blob of {} bytes, chunk kinds {:?}", b.len(), chunks.iter().map(|c| b[c.start]).collect::<Vec<_>>()));
    });
    rep.absorb(r);
    // (c) text mutations
    let tx = texts(ctx);
    let r = sweep(ctx, tx.len() as u64, 1, |ti, acc| {
        let t = &tx[ti as usize];
        let ms = text_mutants(t);
        for m in std::iter::once(t.clone()).chain(ms) {
            acc.evals += 1; acc.transitions += 1; acc.count("text_mutants", 1);
            let (accepted, res) = check_text(&m);
            if accepted { acc.nontrivial += 1; acc.count("accepted", 1); acc.outcomes.insert(fnv_str(&m) % 4096 + 5000); } else { acc.count("rejected", 1); }
            if let Some((sig, d)) = res { acc.violation(sig, format!("txt:{}", hex(m.as_bytes())), d); }
        }
    });
    rep.absorb(r);
    // (c') scale mutants: every table row of a few valid texts repeated 255 .. 70000 times
    let st = scale_texts();
    let mut jobs: Vec<(usize, usize, usize)> = vec![];
    for (ti, t) in st.iter().enumerate() { for li in 0..t.lines().count() { if scale_text_mutant(t, li, 2).is_some() { for n in SCALE_N { jobs.push((ti, li, n)); } } } }
    let r = sweep(ctx, jobs.len() as u64, 1, |j, acc| {
        let (ti, li, n) = jobs[j as usize];
        let Some(m) = scale_text_mutant(&st[ti], li, n) else { return };
        acc.evals += 1; acc.transitions += 1; acc.count("scale_text_mutants", 1);
        let (accepted, res) = check_text(&m);
        if accepted { acc.nontrivial += 1; acc.count("accepted", 1); acc.count("scale_text_mutants_accepted", 1); } else { acc.count("rejected", 1); }
        if let Some((sig, d)) = res { acc.violation(sig, format!("scale:{ti}:{li}:{n}"), d); }
    });
    rep.absorb(r);
    // (c'') code blocks whose declared length and number of word lines are both scaled (consistently, and off by one): lengths on both sides
    //       of 2^8 and 2^16 and beyond the address space, at origins that do and do not make the block wrap
    let r = sweep(ctx, 4 * BLOCK_N.len() as u64 * 3 * 2, 1, |j, acc| {
        let (o, n, d, mixed) = ([0x3000u32, 0x0000, 0xFFF0, 0xFFFF][(j % 4) as usize], BLOCK_N[(j / 4 % BLOCK_N.len() as u64) as usize], (j / (4 * BLOCK_N.len() as u64) % 3) as i64 - 1, j / (12 * BLOCK_N.len() as u64) == 1);
        let m = block_text(o, n, d, mixed);
        acc.evals += 1; acc.transitions += 1; acc.count("scaled_code_blocks", 1);
        let (accepted, res) = check_text(&m);
        if accepted { acc.nontrivial += 1; acc.count("accepted", 1); acc.count("scaled_code_blocks_accepted", 1); } else { acc.count("rejected", 1); }
        if let Some((sig, d2)) = res { acc.violation(sig, format!("blk:{o}:{n}:{d}:{}", mixed as u8), format!("text object file with one code block at x{o:04X} declaring {n} words followed by {} word lines: {d2}", n as i64 + d)); }
    });
    rep.absorb(r);
    rep.require(rep.acc.get("scale_text_mutants_accepted") > 5, "some very long tables were accepted by the reader and exercised");
    // (d) short texts
    for t in ["", "LC-3 OBJ FILE", "LC-3 OBJ FILE\n.DEBUG\n=", "LC-3 OBJ FILE\n.DEBUG\n=\n=", "LC-3 OBJ FILE\n.DEBUG\n=\n=\n=", "LC-3 OBJ FILE\n.DEBUG\nLABEL | INDEX\n=", "LC-3 OBJ FILE\n.TEXT\nFFFF\n2\n0000\n0000", "LC-3 OBJ FILE\n.TEXT\n", "LC-3 OBJ FILE\nFFFF", "LC-3 OBJ FILE\n.SYMBOL\nADDR | EXT | LABEL\n0000 | 1 | A\n.LINKER_INFO\nADDR | LABEL\n3000 | A",
              "LC-3 OBJ FILE\n.DEBUG\n=\nLINE | ADDR | SOURCE\n0 | 3000 | \\u{110000}\n=", "LC-3 OBJ FILE\n.DEBUG\n=\nLINE | ADDR | SOURCE\n0 | 3000 | \\\n="] {
        rep.acc.evals += 1;
        let (_, res) = check_text(t);
        if let Some((sig, d)) = res { rep.acc.violation(sig, format!("txt:{}", hex(t.as_bytes())), d); }
    }
    rep.bound("blobs", Json::i(bl.len() as u64)); rep.bound("texts", Json::i(tx.len() as u64)); rep.bound("suffix_length", Json::i(maxlen));
    rep.require(rep.acc.get("accepted") > 1000 && rep.acc.get("rejected") > 1000, "mutants both accepted and rejected by the readers");
    rep.assume("in-process catch_unwind: the readers bound every allocation by the input length, so no allocation-failure abort is possible");
    rep
}

pub fn replay(case: &str) -> Option<String> {
    if let Some(h) = case.strip_prefix("bin:") { return check_bin(&unhex(h)?).1.map(|x| format!("[{}] {}", x.0, x.1)); }
    if let Some(r) = case.strip_prefix("blk:") { let q: Vec<i64> = r.split(':').filter_map(|x| x.parse().ok()).collect(); return check_text(&block_text(*q.first()? as u32, *q.get(1)? as usize, *q.get(2)?, *q.get(3)? == 1)).1.map(|x| x.1); }
    if let Some(r) = case.strip_prefix("scale:") { let q: Vec<usize> = r.split(':').filter_map(|x| x.parse().ok()).collect(); let st = scale_texts(); return check_text(&scale_text_mutant(st.get(*q.first()?)?, *q.get(1)?, *q.get(2)?)?).1.map(|x| format!("[{}] {}", x.0, x.1)); }
    if let Some(h) = case.strip_prefix("txt:") { return check_text(&String::from_utf8(unhex(h)?).ok()?).1.map(|x| format!("[{}] {}", x.0, x.1)); }
    None
}
