//! C25 — source position queries are consistent (all short strings over a newline/whitespace-rich alphabet × every index).
use crate::util::*;
use lc3_ensemble::asm::SourceInfo;

const SIGMA: [&str; 8] = ["a", " ", "\t", "\n", "\r", "é", "\u{b}", "\u{c}"];

fn nth_string(mut i: u64, len: usize) -> String {
    let mut s = String::new();
    for _ in 0..len { s.push_str(SIGMA[(i % 8) as usize]); i /= 8; }
    s
}

/// Reference semantics written from the doc comments of `SourceInfo`.
fn check(src: &str) -> Option<(String, String)> {
    let r = catch(|| -> Result<(), (String, String)> { let si = SourceInfo::new(src); check_info(&si, src) });
    match r { Ok(Ok(())) => None, Ok(Err(e)) => Some(e), Err(p) => Some((format!("panic:{}", panic_site(&p)), p)) }
}
/// The reference semantics applied to any `SourceInfo` (also those produced by linking and by the object-file readers).
pub fn check_info(si: &SourceInfo, src: &str) -> Result<(), (String, String)> {
    {
        // lines: split at '\n'
        let mut starts = vec![0usize];
        for (i, b) in src.bytes().enumerate() { if b == b'\n' { starts.push(i + 1); } }
        let nlines = starts.len();
        if si.count_lines() != nlines { return Err(("count_lines".into(), format!("count_lines={} expected {nlines}", si.count_lines()))); }
        if si.source() != src { return Err(("source".into(), "source() differs".into())); }
        for l in 0..nlines + 2 {
            let got_span = si.line_span(l);
            let got_text = si.read_line(l).map(|s| s.to_string());
            if l >= nlines {
                if got_span.is_some() || got_text.is_some() { return Err(("line-past-end".into(), format!("line {l} of {nlines}: span {got_span:?}"))); }
                continue;
            }
            let end = if l + 1 < nlines { starts[l + 1] - 1 } else { src.len() }; // exclude the '\n'
            let raw = &src[starts[l]..end];
            let lead = raw.len() - raw.trim_start().len();
            let trimmed = raw.trim();
            let exp = if trimmed.is_empty() { None } else { Some((starts[l] + lead)..(starts[l] + lead + trimmed.len())) };
            match (&got_span, &exp) {
                (Some(g), Some(e)) if g == e => {}
                // an all-whitespace line: any empty span inside the line is "that line without surrounding whitespace"
                (Some(g), None) if g.start == g.end && g.start >= starts[l] && g.end <= end => {}
                _ => return Err(("line_span".into(), format!("line {l}: span {got_span:?}, expected {exp:?} (or an empty span within the line)"))),
            }
            if got_text.as_deref() != Some(trimmed) { return Err(("read_line".into(), format!("line {l}: read_line {got_text:?}, expected {trimmed:?}"))); }
        }
        let mut newlines_before = 0usize; // number of '\n' among the first idx bytes, maintained incrementally (large texts)
        for idx in 0..=src.len() + 10 {
            let (l, c) = si.get_pos_pair(idx);
            if idx >= 1 && idx <= src.len() && src.as_bytes()[idx - 1] == b'\n' { newlines_before += 1; }
            let exp_l = if idx <= src.len() { newlines_before } else { nlines - 1 };
            let exp_c = idx - starts[exp_l];
            if (l, c) != (exp_l, exp_c) {
                let sig = if idx > src.len() { "pos-past-end" } else { "pos" };
                return Err((sig.into(), format!("get_pos_pair({idx}) = ({l},{c}), expected ({exp_l},{exp_c}) for text of {} bytes, {nlines} lines", src.len())));
            }
        }
        // the answer must not depend on what was asked before: the same questions in descending order, zig-zagging around every line break,
        // and (small texts) every ordered pair of questions
        let exp = |idx: usize| -> (usize, usize) { let l = if idx <= src.len() { starts.partition_point(|s| *s <= idx) - 1 } else { nlines - 1 }; (l, idx - starts[l]) };
        let ask = |idx: usize, how: &str| -> Result<(), (String, String)> {
            let got = si.get_pos_pair(idx);
            if got != exp(idx) { return Err((format!("pos-depends-on-history:{how}"), format!("get_pos_pair({idx}) = {got:?} when asked {how}, expected {:?} (text of {} bytes, {nlines} lines)", exp(idx), src.len()))); }
            Ok(())
        };
        for idx in (0..=src.len() + 10).rev() { ask(idx, "in descending order")?; }
        for st in &starts { let n = *st; for idx in [n, n.saturating_sub(1), n + 1, n.saturating_sub(2), n, src.len(), n.saturating_sub(1), 0, n] { ask(idx, "zig-zagging around a line break")?; } }
        if src.len() <= 40 { for i in 0..=src.len() + 2 { for j in 0..=src.len() + 2 { ask(i, "first of a pair")?; ask(j, "right after another position")?; } } }
        Ok(())
    }
}

pub fn run(ctx: &Ctx) -> Report {
    let maxlen = ctx.pick(5usize, 8usize);
    let mut rep = Report::new("all strings of length 0..=L over {a, space, TAB, LF, CR, e-acute, VT, FF}; every string of <=4 symbols again at every offset 0..=8 inside a longer text (word-at-a-time scanners see it at every alignment); for each: count_lines, every line's span/text, get_pos_pair at every index 0..=len+10, against a reference written from the doc comments; the same reference applied to the SourceInfo of linked object files (2-3 debug-symbol files whose texts carry every combination of 8 leading/trailing affixes: nothing, LF, CRLF, blanks, blank lines, comments) and of their binary/text round trips; non-trivial = string containing a newline and a non-newline character");
    for len in 0..=maxlen {
        let n = 8u64.pow(len as u32);
        let r = sweep(ctx, n, 4096, |i, acc| {
            let s = nth_string(i, len);
            acc.evals += 1; acc.transitions += (s.len() + 11 + 2 * (s.matches('\n').count() + 3)) as u64;
            if s.contains('\n') && s.chars().any(|c| c != '\n') { acc.nontrivial += 1; }
            acc.outcomes.insert(mix(s.matches('\n').count() as u64, s.trim().is_empty() as u64));
            acc.sample(i + len as u64, ctx.seed, 100_003, || format!("{s:?}"));
            if let Some((sig, d)) = check(&s) { acc.violation(sig, hex(s.as_bytes()), d); }
        });
        rep.absorb(r);
    }
    // whitespace outside ASCII (multi-byte: NBSP, NEL, EM SPACE, IDEOGRAPHIC SPACE) around and between other characters: all strings of
    // <= 4 (thorough 5) symbols over {a, space, LF, U+00A0, U+0085, U+2003, U+3000, e-acute}
    const WS: [&str; 8] = ["a", " ", "\n", "\u{a0}", "\u{85}", "\u{2003}", "\u{3000}", "é"];
    for len in 1..=ctx.pick(4usize, 5usize) {
        let r = sweep(ctx, 8u64.pow(len as u32), 1024, |i, acc| {
            let mut k = i; let mut s = String::new(); for _ in 0..len { s.push_str(WS[(k % 8) as usize]); k /= 8; }
            acc.evals += 1; acc.transitions += s.len() as u64; acc.count("unicode_whitespace_texts", 1);
            if let Some((sig, d)) = check(&s) { acc.violation(sig, hex(s.as_bytes()), d); }
        });
        rep.absorb(r);
    }
    // every short string at every alignment inside a longer text
    let npad = 8u64.pow(4) + 8u64.pow(3) + 64 + 8 + 1;
    let r = sweep(ctx, npad * 9, 512, |i, acc| {
        let (k, mut j) = (i % 9, i / 9);
        let mut len = 0usize; while j >= 8u64.pow(len as u32) { j -= 8u64.pow(len as u32); len += 1; }
        let s = format!("{}{}{}", "a".repeat(k as usize), nth_string(j, len), "aaaaaaaa\nb");
        acc.evals += 1; acc.transitions += s.len() as u64; acc.count("aligned_texts", 1);
        if let Some((sig, d)) = check(&s) { acc.violation(sig, hex(s.as_bytes()), d); }
    });
    rep.absorb(r);
    // scale: texts of 255 .. 70000 lines (line counts across 2^8, 2^9, 2^12, 2^16), three line shapes each, every index queried
    let shapes: [&[&str]; 3] = [&["a\n"], &["\n", "ab \n", "\t\r\n", "é\n"], &[" x;y\r\n", "\n"]];
    let counts = [255usize, 256, 257, 258, 511, 512, 513, 1000, 4095, 4096, 4097, 65535, 65536, 65537, 70000];
    let r = sweep(ctx, (counts.len() * 3 * 2) as u64, 1, |i, acc| {
        let (n, sh, tail) = (counts[(i / 6) as usize], shapes[(i / 2 % 3) as usize], i % 2 == 1);
        let mut s = String::new(); for k in 0..n { s.push_str(sh[k % sh.len()]); } if tail { s.push_str("last"); }
        acc.evals += 1; acc.transitions += s.len() as u64; acc.nontrivial += 1; acc.count("large_texts", 1);
        if let Some((sig, d)) = check(&s) { acc.violation(sig, format!("big:{i}"), d.chars().take(600).collect::<String>()); }
    });
    rep.absorb(r);
    super::linksrc::run_for(ctx, &mut rep, "C25");
    rep.bound("max_length", Json::i(maxlen as u64));
    rep.require(rep.acc.outcomes.len() >= 6, "texts with 0..several newlines seen");
    rep
}
pub fn replay(case: &str) -> Option<String> {
    if case.starts_with("ls:") { return super::linksrc::replay_for("C25", case); }
    if let Some(i) = case.strip_prefix("big:") {
        let i: usize = i.parse().ok()?;
        let shapes: [&[&str]; 3] = [&["a\n"], &["\n", "ab \n", "\t\r\n", "é\n"], &[" x;y\r\n", "\n"]];
        let counts = [255usize, 256, 257, 258, 511, 512, 513, 1000, 4095, 4096, 4097, 65535, 65536, 65537, 70000];
        let (n, sh, tail) = (*counts.get(i / 6)?, shapes[i / 2 % 3], i % 2 == 1);
        let mut s = String::new(); for k in 0..n { s.push_str(sh[k % sh.len()]); } if tail { s.push_str("last"); }
        return check(&s).map(|x| x.1.chars().take(600).collect());
    }
    let b = unhex(case)?; let s = String::from_utf8(b).ok()?;
    check(&s).map(|x| x.1)
}
