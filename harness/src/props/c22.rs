//! C22 — linked debug info still points at the right source text.
use super::c20::fam;
use crate::gen::objs::link_objs;
use crate::util::*;
use lc3_ensemble::asm::ObjectFile;
use std::sync::OnceLock;

struct Src { texts: Vec<String>, lines: Vec<std::collections::BTreeMap<u16, String>> }
fn srcs() -> &'static Src {
    static S: OnceLock<Src> = OnceLock::new();
    S.get_or_init(|| {
        let f = fam();
        let lo = link_objs();
        let mut s = Src { texts: vec![], lines: vec![] };
        for name in &f.names {
            let (_, _, o, t) = lo.iter().find(|x| &x.0 == name).unwrap();
            // per file: address -> text of the line it came from (read from the file's own debug info)
            let sym = o.symbol_table().unwrap();
            let si = sym.source_info().unwrap();
            let m = sym.line_iter().map(|(l, a)| (a, si.read_line(l).unwrap_or("").to_string())).collect();
            s.texts.push(t.clone()); s.lines.push(m);
        }
        s
    })
}

fn check(expr: &str) -> Option<(String, String)> {
    let f = fam(); let s = srcs();
    let ms: Vec<usize> = expr.split_whitespace().filter(|t| *t != "L").map(|t| t.parse().unwrap()).collect();
    let r = catch(|| -> Result<bool, (String, String)> {
        let mut stack: Vec<Option<ObjectFile>> = vec![];
        for t in expr.split_whitespace() {
            if t == "L" { let b = stack.pop().unwrap(); let a = stack.pop().unwrap(); stack.push(match (a, b) { (Some(a), Some(b)) => ObjectFile::link(a, b).ok(), _ => None }); }
            else { stack.push(Some(f.objs[t.parse::<usize>().unwrap()].clone())); }
        }
        let Some(o) = stack.pop().unwrap() else { return Ok(false) };
        let Some(sym) = o.symbol_table() else { return Err(("no-symbol-table".into(), "linked file has no symbol table".into())) };
        let Some(si) = sym.source_info() else { return Err(("no-source".into(), "linked file of debug-symbol files has no source info".into())) };
        // every address that has a line: the line's text equals the originating file's line text
        let mut expected: std::collections::BTreeMap<u16, &String> = Default::default();
        for m in &ms { for (a, t) in &s.lines[*m] { expected.insert(*a, t); } }
        for (a, exp) in &expected {
            match sym.rev_lookup_line(*a) {
                None => return Err(("line-lost".into(), format!("link {expr}: x{a:04X} had a source line ({exp:?}) in its file but none in the linked file"))),
                Some(l) => { let got = si.read_line(l); if got != Some(exp.as_str()) { return Err(("line-text".into(), format!("link {expr}: x{a:04X} -> line {l} reads {got:?}, in its own file it read {exp:?}"))); } }
            }
        }
        for (l, a) in sym.line_iter() { if !expected.contains_key(&a) { return Err(("line-invented".into(), format!("link {expr}: line {l} -> x{a:04X} which had no line in any member"))); } }
        // every label's span covers the label's text in the combined source
        let src = si.source();
        for (name, _, _) in sym.label_iter() {
            match sym.get_label_source(name) {
                None => return Err(("label-source-none".into(), format!("link {expr}: get_label_source({name:?}) = None"))),
                Some(sp) => { let t = src.get(sp.clone()); if !t.map(|t| t.eq_ignore_ascii_case(name)).unwrap_or(false) { return Err(("label-span".into(), format!("link {expr} ({:?}): label {name} span {sp:?} covers {t:?} in the combined source", ms.iter().map(|i| &f.names[*i]).collect::<Vec<_>>()))); } }
            }
        }
        Ok(true)
    });
    match r { Ok(Ok(_)) => None, Ok(Err(e)) => Some(e), Err(p) => Some((format!("panic:{}", panic_site(&p)), format!("link {expr}: {p}"))) }
}
fn links_ok(expr: &str) -> bool {
    let f = fam(); let mut stack: Vec<Option<ObjectFile>> = vec![];
    for t in expr.split_whitespace() { if t == "L" { let b = stack.pop().unwrap(); let a = stack.pop().unwrap(); stack.push(match (a, b) { (Some(a), Some(b)) => ObjectFile::link(a, b).ok(), _ => None }); } else { stack.push(Some(f.objs[t.parse::<usize>().unwrap()].clone())); } }
    stack.pop().unwrap().is_some()
}

pub fn run(ctx: &Ctx) -> Report {
    let mut rep = Report::new("every ordered pair and every ordered triple (both bracketings) of the link family assembled with debug symbols; for each successful link: every address that had a source line in its own file must map to a line of the combined source with the same text (and no new mappings appear); every label's get_label_source span must cover a spelling of the label in the combined source. Plus the text-boundary family: 3 files (definer, user, local code) whose texts carry every combination of 8 leading/trailing affixes (nothing, LF, CRLF, blanks, blank lines, comments), linked as ordered pairs and triples folded from either side, the linked object also read back through both file formats: same two checks. non-trivial = successful link");
    let n = fam().objs.len() as u64;
    let r = sweep(ctx, n * n + n * n * n * 2, 32, |k, acc| {
        let e = if k < n * n { format!("{} {} L", k / n, k % n) } else { let k = k - n * n; let (a, b, c) = (k / (2 * n * n), k / (2 * n) % n, k / 2 % n); if k % 2 == 0 { format!("{a} {b} L {c} L") } else { format!("{a} {b} {c} L L") } };
        acc.evals += 1; acc.transitions += 2;
        if links_ok(&e) { acc.nontrivial += 1; acc.outcomes.insert(fnv_str(&e) % 1024); }
        acc.sample(k, ctx.seed, 1009, || e.clone());
        if let Some((sig, d)) = check(&e) { acc.violation(sig, e, d); }
    });
    rep.absorb(r);
    super::linksrc::run_for(ctx, &mut rep, "C22");
    rep.bound("family_size", Json::i(n));
    rep.require(rep.acc.nontrivial > 5000, "successful links explored");
    rep
}
pub fn replay(case: &str) -> Option<String> {
    if case.starts_with("ls:") { return super::linksrc::replay_for("C22", case); }
    check(case).map(|x| format!("[{}] {}", x.0, x.1))
}
