//! C06 — decode is the exact inverse of encode (complete: all 65 536 words, all representable instructions).
use crate::refs::isa::{self, RDecErr};
use crate::util::*;
use lc3_ensemble::ast::sim::SimInstr;
use lc3_ensemble::sim::SimErr;

fn check_word(w: u16) -> Option<(String, String)> {
    let got = match catch(|| SimInstr::decode(w)) { Ok(g) => g, Err(p) => return Some(("panic".into(), format!("decode({w:#06x}) panicked: {p}"))) };
    let exp = isa::decode(w);
    match (&got, &exp) {
        (Ok(g), Ok(e)) => {
            if isa::from_sim(g) != *e { return Some(("wrong-instr".into(), format!("decode({w:#06x}) = {g:?}, reference {e:?}"))); }
            let back = g.encode();
            if back != w { return Some(("reencode".into(), format!("decode({w:#06x}) = {g:?} re-encodes to {back:#06x}"))); }
            None
        }
        (Ok(g), Err(e)) => Some((format!("accepts-noncanonical:{}", opname(w)), format!("decode({w:#06x}) = {g:?} but the word is not a canonical encoding ({e:?}); re-encodes to {:#06x}", g.encode()))),
        (Err(g), Ok(e)) => Some(("rejects-canonical".into(), format!("decode({w:#06x}) = Err({g:?}) but it is the canonical encoding of {e:?}"))),
        (Err(g), Err(e)) => {
            let ok = matches!((g, e), (SimErr::IllegalOpcode, RDecErr::IllegalOpcode) | (SimErr::InvalidInstrFormat, RDecErr::InvalidFormat));
            if ok { None } else { Some(("wrong-error".into(), format!("decode({w:#06x}) = Err({g:?}), reference {e:?}"))) }
        }
    }
}
fn opname(w: u16) -> &'static str {
    ["BR","ADD","LD","ST","JSR","AND","LDR","STR","RTI","NOT","LDI","STI","JMP","RES","LEA","TRAP"][(w >> 12) as usize]
}
fn check_instr(i: isa::RI) -> Option<(String, String)> {
    let r = catch(|| {
        let s = isa::to_sim(i);
        let w = s.encode();
        (s, w, SimInstr::decode(w))
    });
    let (s, w, d) = match r { Ok(x) => x, Err(p) => return Some(("panic".into(), format!("{i:?}: {p}"))) };
    if w != isa::encode(i) { return Some(("wrong-encoding".into(), format!("{s:?} encodes to {w:#06x}, reference {:#06x}", isa::encode(i)))); }
    match d {
        Ok(d) if d == s => None,
        other => Some(("encode-decode".into(), format!("{s:?} encodes to {w:#06x} which decodes to {other:?}"))),
    }
}

pub fn run(ctx: &Ctx) -> Report {
    let mut rep = Report::new("all 65536 words through decode (+ re-encode) against the ISA reference; all representable instructions through encode then decode; non-trivial = words whose opcode has must-be-zero/one bits, or the reserved opcode");
    let r = sweep(ctx, 65536, 1024, |i, acc| {
        let w = i as u16;
        acc.evals += 1; acc.transitions += 2;
        if matches!(w >> 12, 1 | 4 | 5 | 8 | 9 | 12 | 13 | 15) { acc.nontrivial += 1; }
        let res = check_word(w);
        let cls = match isa::decode(w) { Ok(_) => 0u64, Err(RDecErr::IllegalOpcode) => 1, Err(RDecErr::InvalidFormat) => 2 };
        acc.outcomes.insert(mix((w >> 12) as u64, cls));
        acc.sample(i, ctx.seed, 20011, || format!("word {w:#06x}"));
        if let Some((sig, d)) = res { acc.violation(sig, format!("w:{w}"), d); }
    });
    rep.absorb(r);
    sim_scale(ctx, &mut rep);
    sim_decode(ctx, &mut rep);
    let all = isa::all_instrs();
    let n = all.len() as u64;
    let r = sweep(ctx, n, 512, |i, acc| {
        acc.evals += 1; acc.transitions += 2; acc.count("instructions", 1);
        let ins = all[i as usize];
        acc.sample(i, ctx.seed, 9001, || format!("instr {ins:?}"));
        if let Some((sig, d)) = check_instr(ins) { acc.violation(sig, format!("i:{}", isa::encode(ins)), d); }
    });
    rep.absorb(r);
    rep.bound("words", Json::s("0x0000..=0xFFFF (complete)"));
    rep.bound("instructions", Json::i(n));
    rep.require(rep.acc.outcomes.len() >= 20, "accepted, illegal-opcode and invalid-format classes all seen");
    rep
}
/// The simulator is where decode is applied to fetched words: programs with more distinct instruction words than any cache or table sized
/// for "small" programs holds (loop bodies of 100..600 pairwise distinct instructions, executed three times), in lock-step with the reference.
fn sim_scale(ctx: &Ctx, rep: &mut Report) {
    let r = sweep(ctx, super::c08::S4_SIZES.len() as u64 * 2, 1, |k, acc| {
        let (n, flags) = (super::c08::S4_SIZES[(k / 2) as usize], (k % 2) * 1);
        acc.evals += 1; acc.count("long_programs_in_simulator", 1);
        match super::c08::s4(n, flags, 0) { Ok(steps) => { acc.transitions += steps; acc.nontrivial += 1; } Err((sig, d)) => acc.violation(format!("simulator:{sig}"), format!("s4:{n}:{flags}"), d) }
    });
    rep.absorb(r);
}
/// Every word again where decoding is applied to fetched words: placed (fully initialised) at x3000 of a user-mode machine with all registers
/// written, under each combination of the strict / real-traps / ignore-privilege flags, and stepped once. The step's outcome must fall in the
/// word's decode class: an illegal-opcode or invalid-format error exactly when the reference says so; any other outcome (success, access
/// violation, strict-mode objection about an operand ...) only for canonical encodings.
fn sim_decode(ctx: &Ctx, rep: &mut Report) {
    let r = sweep(ctx, 65536 * 8, 2048, |i, acc| {
        let (w, f) = ((i % 65536) as u16, i / 65536);
        acc.evals += 1; acc.transitions += 1; acc.count("words_decoded_by_a_step", 1);
        if let Some((sig, d)) = sim_decode_one(w, f) { acc.violation(sig, format!("sd:{w}:{f}"), d); }
    });
    rep.absorb(r);
}
fn sim_decode_one(w: u16, f: u64) -> Option<(String, String)> {
    use lc3_ensemble::sim::{mem::MachineInitStrategy, SimFlags, Simulator};
    let flags = SimFlags { strict: f & 1 != 0, use_real_traps: f & 2 != 0, ignore_privilege: f & 4 != 0, machine_init: MachineInitStrategy::Known { value: 0 }, ..Default::default() };
    let r = catch(move || {
        let mut sim = Simulator::new(flags);
        for k in 0..8 { sim.reg_file[crate::refs::isa::reg(k)].set(0x3100 + k as u16); }
        sim.mem[0x3000].set(w); sim.mem[0x3001].set(0xF025);
        for a in 0x3100u16..0x3140 { sim.mem[a].set(0x3200); }
        sim.pc = 0x3000;
        sim.step_in()
    });
    let got = match r { Err(p) => return Some((format!("panic:{}", panic_site(&p)), format!("stepping onto {w:#06x} (flags {f:03b}) panicked: {p}"))), Ok(g) => g };
    let class = |e: &Result<(), SimErr>| match e { Err(SimErr::IllegalOpcode) => 1, Err(SimErr::InvalidInstrFormat) => 2, _ => 0 };
    let exp = match isa::decode(w) { Ok(_) => 0, Err(RDecErr::IllegalOpcode) => 1, Err(RDecErr::InvalidFormat) => 2 };
    // under real traps the reserved opcode is vectored to the OS instead of being returned as an error: not a decode verdict the step reports
    if f & 2 != 0 && exp != 0 { return None; } // (real traps: undecodable words are vectored to the OS, the step itself succeeds)
    if class(&got) != exp { return Some((format!("simulator-decodes-differently:{}", opname(w)), format!("word {w:#06x} fetched by a simulator with strict={} real_traps={} ignore_privilege={}: step returned {got:?}; the word's decode class is {}", f & 1 != 0, f & 2 != 0, f & 4 != 0, ["an instruction", "illegal opcode", "invalid format"][exp]))); }
    None
}
pub fn replay(case: &str) -> Option<String> {
    if let Some(rest) = case.strip_prefix("s4:") { let (n, f) = rest.split_once(':')?; return super::c08::s4(n.parse().ok()?, f.parse().ok()?, 0).err().map(|(s, d)| format!("[{s}] {d}")); }
    if let Some(rest) = case.strip_prefix("sd:") { let (w, f) = rest.split_once(':')?; return sim_decode_one(w.parse().ok()?, f.parse().ok()?).map(|(s, d)| format!("[{s}] {d}")); }
    let (k, v) = case.split_once(':')?;
    let w: u16 = v.parse().ok()?;
    match k {
        "w" => check_word(w).map(|x| x.1),
        _ => isa::decode(w).ok().and_then(|i| check_instr(i).map(|x| x.1)),
    }
}
