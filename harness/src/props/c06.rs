//! C06 — decode is the exact inverse of encode (complete: all 65 536 words, all representable instructions).
use crate::refs::isa::{self, RDecErr};
use crate::util::*;
use lc3_ensemble::ast::sim::SimInstr;
use lc3_ensemble::sim::SimErr;

fn check_word(w: u16) -> Option<(String, String)> {
    let got = match catch(|| SimInstr::decode(w)) { Ok(g) => g, Err(p) => return Some(("panic".into(), format!("decode({w:#06x}) panicked: {p}"))) };
    let exp = isa::decode(w);
    match (&got, &exp) {
        (Ok(g), Ok(e)) => {
            if isa::from_sim(g) != *e { return Some(("wrong-instr".into(), format!("decode({w:#06x}) = {g:?}, reference {e:?}"))); }
            let back = g.encode();
            if back != w { return Some(("reencode".into(), format!("decode({w:#06x}) = {g:?} re-encodes to {back:#06x}"))); }
            None
        }
        (Ok(g), Err(e)) => Some((format!("accepts-noncanonical:{}", opname(w)), format!("decode({w:#06x}) = {g:?} but the word is not a canonical encoding ({e:?}); re-encodes to {:#06x}", g.encode()))),
        (Err(g), Ok(e)) => Some(("rejects-canonical".into(), format!("decode({w:#06x}) = Err({g:?}) but it is the canonical encoding of {e:?}"))),
        (Err(g), Err(e)) => {
            let ok = matches!((g, e), (SimErr::IllegalOpcode, RDecErr::IllegalOpcode) | (SimErr::InvalidInstrFormat, RDecErr::InvalidFormat));
            if ok { None } else { Some(("wrong-error".into(), format!("decode({w:#06x}) = Err({g:?}), reference {e:?}"))) }
        }
    }
}
fn opname(w: u16) -> &'static str {
    ["BR","ADD","LD","ST","JSR","AND","LDR","STR","RTI","NOT","LDI","STI","JMP","RES","LEA","TRAP"][(w >> 12) as usize]
}
fn check_instr(i: isa::RI) -> Option<(String, String)> {
    let r = catch(|| {
        let s = isa::to_sim(i);
        let w = s.encode();
        (s, w, SimInstr::decode(w))
    });
    let (s, w, d) = match r { Ok(x) => x, Err(p) => return Some(("panic".into(), format!("{i:?}: {p}"))) };
    if w != isa::encode(i) { return Some(("wrong-encoding".into(), format!("{s:?} encodes to {w:#06x}, reference {:#06x}", isa::encode(i)))); }
    match d {
        Ok(d) if d == s => None,
        other => Some(("encode-decode".into(), format!("{s:?} encodes to {w:#06x} which decodes to {other:?}"))),
    }
}

pub fn run(ctx: &Ctx) -> Report {
    let mut rep = Report::new("all 65536 words through decode (+ re-encode) against the ISA reference; all representable instructions through encode then decode; non-trivial = words whose opcode has must-be-zero/one bits, or the reserved opcode");
    let r = sweep(ctx, 65536, 1024, |i, acc| {
        let w = i as u16;
        acc.evals += 1; acc.transitions += 2;
        if matches!(w >> 12, 1 | 4 | 5 | 8 | 9 | 12 | 13 | 15) { acc.nontrivial += 1; }
        let res = check_word(w);
        let cls = match isa::decode(w) { Ok(_) => 0u64, Err(RDecErr::IllegalOpcode) => 1, Err(RDecErr::InvalidFormat) => 2 };
        acc.outcomes.insert(mix((w >> 12) as u64, cls));
        acc.sample(i, ctx.seed, 20011, || format!("word {w:#06x}"));
        if let Some((sig, d)) = res { acc.violation(sig, format!("w:{w}"), d); }
    });
    rep.absorb(r);
    sim_scale(ctx, &mut rep);
    let all = isa::all_instrs();
    let n = all.len() as u64;
    let r = sweep(ctx, n, 512, |i, acc| {
        acc.evals += 1; acc.transitions += 2; acc.count("instructions", 1);
        let ins = all[i as usize];
        acc.sample(i, ctx.seed, 9001, || format!("instr {ins:?}"));
        if let Some((sig, d)) = check_instr(ins) { acc.violation(sig, format!("i:{}", isa::encode(ins)), d); }
    });
    rep.absorb(r);
    rep.bound("words", Json::s("0x0000..=0xFFFF (complete)"));
    rep.bound("instructions", Json::i(n));
    rep.require(rep.acc.outcomes.len() >= 20, "accepted, illegal-opcode and invalid-format classes all seen");
    rep
}
/// The simulator is where decode is applied to fetched words: programs with more distinct instruction words than any cache or table sized
/// for "small" programs holds (loop bodies of 100..600 pairwise distinct instructions, executed three times), in lock-step with the reference.
fn sim_scale(ctx: &Ctx, rep: &mut Report) {
    let r = sweep(ctx, super::c08::S4_SIZES.len() as u64 * 2, 1, |k, acc| {
        let (n, flags) = (super::c08::S4_SIZES[(k / 2) as usize], (k % 2) * 1);
        acc.evals += 1; acc.count("long_programs_in_simulator", 1);
        match super::c08::s4(n, flags, 0) { Ok(steps) => { acc.transitions += steps; acc.nontrivial += 1; } Err((sig, d)) => acc.violation(format!("simulator:{sig}"), format!("s4:{n}:{flags}"), d) }
    });
    rep.absorb(r);
}
pub fn replay(case: &str) -> Option<String> {
    if let Some(rest) = case.strip_prefix("s4:") { let (n, f) = rest.split_once(':')?; return super::c08::s4(n.parse().ok()?, f.parse().ok()?, 0).err().map(|(s, d)| format!("[{s}] {d}")); }
    let (k, v) = case.split_once(':')?;
    let w: u16 = v.parse().ok()?;
    match k {
        "w" => check_word(w).map(|x| x.1),
        _ => isa::decode(w).ok().and_then(|i| check_instr(i).map(|x| x.1)),
    }
}
