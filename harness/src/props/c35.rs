//! C35 — bounded offsets accept exactly the representable values (complete: every i16/u16 × N=1..16).
use crate::util::*;
use lc3_ensemble::ast::Offset;

fn signed_ok(v: i16, n: u32) -> bool { let lo = -(1i32 << (n - 1)); let hi = (1i32 << (n - 1)) - 1; (lo..=hi).contains(&(v as i32)) }
fn signed_trunc(v: i16, n: u32) -> i16 {
    // sign-extension of the low n bits, computed arithmetically (not with shifts, unlike the subject)
    let m = 1i32 << n;
    let low = (v as i32).rem_euclid(m);
    (if low >= m / 2 { low - m } else { low }) as i16
}
fn unsigned_ok(v: u16, n: u32) -> bool { (v as u32) < (1u32 << n) }
fn unsigned_trunc(v: u16, n: u32) -> u16 { ((v as u32) % (1u32 << n)) as u16 }

fn check_signed<const N: u32>(v: i16) -> Option<String> {
    let r = Offset::<i16, N>::new(v);
    let exp = signed_ok(v, N);
    if r.is_ok() != exp { return Some(format!("Offset<i16,{N}>::new({v}) accepted={} expected={exp}", r.is_ok())); }
    if let Ok(o) = r { if o.get() != v { return Some(format!("Offset<i16,{N}>::new({v}) holds {}", o.get())); } }
    let t = Offset::<i16, N>::new_trunc(v).get();
    if t != signed_trunc(v, N) { return Some(format!("Offset<i16,{N}>::new_trunc({v}) = {t}, expected {}", signed_trunc(v, N))); }
    None
}
fn check_unsigned<const N: u32>(v: u16) -> Option<String> {
    let r = Offset::<u16, N>::new(v);
    let exp = unsigned_ok(v, N);
    if r.is_ok() != exp { return Some(format!("Offset<u16,{N}>::new({v}) accepted={} expected={exp}", r.is_ok())); }
    if let Ok(o) = r { if o.get() != v { return Some(format!("Offset<u16,{N}>::new({v}) holds {}", o.get())); } }
    let t = Offset::<u16, N>::new_trunc(v).get();
    if t != unsigned_trunc(v, N) { return Some(format!("Offset<u16,{N}>::new_trunc({v}) = {t}, expected {}", unsigned_trunc(v, N))); }
    None
}
macro_rules! dispatch {
    ($f:ident, $n:expr, $v:expr) => { match $n {
        1 => $f::<1>($v), 2 => $f::<2>($v), 3 => $f::<3>($v), 4 => $f::<4>($v), 5 => $f::<5>($v), 6 => $f::<6>($v),
        7 => $f::<7>($v), 8 => $f::<8>($v), 9 => $f::<9>($v), 10 => $f::<10>($v), 11 => $f::<11>($v), 12 => $f::<12>($v),
        13 => $f::<13>($v), 14 => $f::<14>($v), 15 => $f::<15>($v), 16 => $f::<16>($v), _ => None } };
}
fn check_case(signed: bool, n: u32, raw: u16) -> Option<String> {
    match catch(|| if signed { dispatch!(check_signed, n, raw as i16) } else { dispatch!(check_unsigned, n, raw) }) {
        Ok(r) => r,
        Err(p) => Some(format!("panic: {p}")),
    }
}

/// (statement with a hole, field width, signed)
const TOKEN_FIELDS: [(&str, u32, bool); 7] = [("ADD R0, R0, #{}", 5, true), ("LDR R0, R1, #{}", 6, true), ("LD R0, #{}", 9, true), ("BRnzp #{}", 9, true), ("JSR #{}", 11, true), ("TRAP #{}", 8, false), (".orig #{}", 16, false)];
fn check_token(k: usize, v: i64) -> Option<String> {
    use lc3_ensemble::ast::asm::{AsmInstr, Directive, StmtKind};
    use lc3_ensemble::ast::{ImmOrReg, PCOffset};
    let (tpl, n, signed) = TOKEN_FIELDS[k];
    let src = tpl.replace("{}", &v.to_string());
    let ok = if signed { v >= -(1i64 << (n - 1)) && v < (1i64 << (n - 1)) } else { v >= 0 && v < (1i64 << n) };
    let got = match catch(|| lc3_ensemble::parse::parse_ast(&src)) { Err(p) => return Some(format!("`{src}`: parsing panicked: {p}")), Ok(r) => r };
    let held: Option<i64> = match got {
        Err(_) => None,
        Ok(ast) => match ast.first().map(|s| &s.nucleus) {
            Some(StmtKind::Instr(AsmInstr::ADD(_, _, ImmOrReg::Imm(i)))) => Some(i.get() as i64),
            Some(StmtKind::Instr(AsmInstr::LDR(_, _, o))) => Some(o.get() as i64),
            Some(StmtKind::Instr(AsmInstr::LD(_, PCOffset::Offset(o)))) => Some(o.get() as i64),
            Some(StmtKind::Instr(AsmInstr::BR(_, PCOffset::Offset(o)))) => Some(o.get() as i64),
            Some(StmtKind::Instr(AsmInstr::JSR(PCOffset::Offset(o)))) => Some(o.get() as i64),
            Some(StmtKind::Instr(AsmInstr::TRAP(t))) => Some(t.get() as i64),
            Some(StmtKind::Directive(Directive::Orig(o))) => Some(o.get() as i64),
            other => return Some(format!("`{src}` parsed as {other:?}")),
        },
    };
    match (ok, held) {
        (true, Some(h)) if h == v => None,
        (false, None) => None,
        (true, Some(h)) => Some(format!("`{src}`: {v} is representable in {n} bits, the {n}-bit offset created from the token holds {h}")),
        (true, None) => Some(format!("`{src}`: {v} is representable in {n} bits ({}), but creating the offset from the token failed", if signed { "two's complement" } else { "plain binary" })),
        (false, Some(h)) => Some(format!("`{src}`: {v} is not representable in {n} bits ({}), yet an offset was created holding {h}", if signed { "two's complement" } else { "plain binary" })),
    }
}
pub fn run(ctx: &Ctx) -> Report {
    let mut rep = Report::new("every (signedness, N in 1..=16, 16-bit value) triple; each evaluates new and new_trunc; plus creation from a source token: every decimal literal -32768..=65535 in 7 instruction/directive fields (5, 6, 9, 9, 11 bits signed; 8 and 16 bits unsigned); non-trivial = value within one of a representability boundary of N bits");
    let total = 2u64 * 16 * 65536;
    let r = sweep(ctx, total, 8192, |i, acc| {
        let signed = i / (16 * 65536) == 0;
        let n = ((i / 65536) % 16) as u32 + 1;
        let raw = (i % 65536) as u16;
        acc.evals += 1; acc.transitions += 2;
        let near = if signed { let v = raw as i16 as i32; let b = 1i32 << (n - 1); (v - b).abs() <= 1 || (v + b).abs() <= 1 } else { ((raw as i32) - (1i32 << n)).abs() <= 1 };
        if near { acc.nontrivial += 1; }
        let res = check_case(signed, n, raw);
        acc.outcomes.insert(mix(n as u64 * 2 + signed as u64, res.is_some() as u64 * 4 + (if signed { signed_ok(raw as i16, n) } else { unsigned_ok(raw, n) }) as u64));
        acc.sample(i, ctx.seed, 400_003, || format!("{}:{n}:{}", if signed { "i16" } else { "u16" }, if signed { (raw as i16).to_string() } else { raw.to_string() }));
        if let Some(d) = res {
            acc.violation(format!("offset:{}:{n}", if signed { "i16" } else { "u16" }), format!("{}:{n}:{raw}", if signed { "i" } else { "u" }), d);
        }
    });
    rep.absorb(r);
    // third creation path: an offset created from a numeric source token (the parser's constructor, which takes the token's i16 or u16 value):
    // every value -32768..=65535 written as a decimal literal in every field of the instruction set
    let nv = 98304u64;
    let r = sweep(ctx, TOKEN_FIELDS.len() as u64 * nv, 4096, |i, acc| {
        let (k, v) = ((i / nv) as usize, (i % nv) as i64 - 32768);
        acc.evals += 1; acc.transitions += 1; acc.count("created_from_source_tokens", 1);
        if let Some(d) = check_token(k, v) { acc.violation(format!("offset-from-token:{}", TOKEN_FIELDS[k].0.split(' ').next().unwrap_or("")), format!("t:{k}:{v}"), d); }
    });
    rep.absorb(r);
    rep.bound("N", Json::s("1..=16")); rep.bound("values", Json::s("all 65536 per signedness"));
    rep.require(rep.acc.outcomes.len() >= 60, "both acceptance and rejection seen for N<16");
    rep
}
pub fn replay(case: &str) -> Option<String> {
    let p: Vec<&str> = case.split(':').collect();
    if p[0] == "t" { return check_token(p.get(1)?.parse().ok()?, p.get(2)?.parse().ok()?); }
    let n: u32 = p.get(1)?.parse().ok()?;
    let raw: u16 = p.get(2)?.parse().ok()?;
    check_case(p[0] == "i", n, raw)
}
