//! C32 — memory-mapped I/O reaches exactly the mapped register or device (explicit-state BFS + RefPorts).
use crate::util::*;
use lc3_ensemble::sim::device::{ExternalDevice, Interrupt};
use lc3_ensemble::sim::mem::{MachineInitStrategy, Word};
use lc3_ensemble::sim::{InternalRegister, MemAccessCtx, SimFlags, Simulator};
use std::collections::BTreeMap;
use std::sync::{Arc, Mutex};

#[derive(Clone, Copy, Debug)]
enum Op { /** scale: 300 attach/remove rounds of a device on a free port (ids are never reused, so later ids pass 2^8) */ Churn, /** the library's own NullDevice (answers nothing) attached to ports */ AddNull(&'static [u16]), Add(&'static [u16]), Remove(u16), SetKb, SetDisp, Mmap(u16, bool), Munmap(u16), Read(u16), Write(u16), /** the stored word is not (fully) initialised, as a register or memory word that was never written is */ WriteUninit(u16) }
const OPS: [Op; 41] = [
    Op::Churn, Op::AddNull(&[0xFE16]), Op::AddNull(&[0xFE10, 0xFE18]), Op::Add(&[0xFE16]),
    Op::Add(&[0xFE10]), Op::Add(&[0xFE12]), Op::Add(&[0xFE10, 0xFE12]), Op::Add(&[0xFE00]), Op::Add(&[0x3000]), Op::Add(&[]), Op::Add(&[0xFE12, 0xFE12]), Op::Add(&[0xFE14, 0xFE06]),
    Op::Remove(0), Op::Remove(1), Op::Remove(2), Op::Remove(3), Op::Remove(4), Op::Remove(5),
    Op::SetKb, Op::SetDisp,
    Op::Mmap(0xFE10, true), Op::Mmap(0xFE00, false), Op::Mmap(0xFFFC, true), Op::Mmap(0x3000, true),
    Op::Munmap(0xFE10), Op::Munmap(0xFE00), Op::Munmap(0xFFFC),
    Op::Read(0xFE00), Op::Read(0xFE10), Op::Read(0xFE12), Op::Read(0xFFFC),
    Op::Write(0xFE10), Op::Write(0xFE00),
    // the last I/O address
    Op::Add(&[0xFFFF]), Op::Read(0xFFFF), Op::Write(0xFFFF),
    Op::WriteUninit(0xFE10), Op::WriteUninit(0xFE12),
    // addresses outside the I/O page whose low bits coincide with those of a free I/O port (alone, and next to a valid port)
    Op::Add(&[0x3010]), Op::Add(&[0xFDFF]), Op::Add(&[0xFE12, 0x4014]),
];
const PROBES: [u16; 10] = [0xFE00, 0xFE02, 0xFE06, 0xFE10, 0xFE12, 0xFE14, 0xFE16, 0xFE18, 0xFFFC, 0xFFFF];

/// recording device: every call it receives is logged under its tag
#[derive(Clone)]
struct Rec { tag: u16, log: Arc<Mutex<Vec<(u16, bool, u16, u16)>>> }
impl ExternalDevice for Rec {
    fn io_read(&mut self, addr: u16, effectful: bool) -> Option<u16> { if effectful { self.log.lock().unwrap_or_else(|e| e.into_inner()).push((self.tag, false, addr, 0)); } Some(rec_value(self.tag, addr)) }
    fn io_write(&mut self, addr: u16, data: u16) -> bool { self.log.lock().unwrap_or_else(|e| e.into_inner()).push((self.tag, true, addr, data)); true }
    fn io_reset(&mut self) {}
    fn poll_interrupt(&mut self) -> Option<Interrupt> { None }
}
/// tag of a device that owns ports but answers nothing (NullDevice): reads fall through to the memory cell, writes reach nobody
const SILENT: u16 = 0xFFFF;
fn rec_value(tag: u16, addr: u16) -> u16 { 0x5000 | (tag << 8) | (addr & 0xFF) }

/// RefPorts — port-ownership table written from the property statement.
#[derive(Clone, Default)]
struct RefPorts { devs: Vec<Option<u16>>, owner: BTreeMap<u16, u16>, iregs: BTreeMap<u16, bool> /* true = PC, false = SavedSP */, psr_mapped: bool }
impl RefPorts {
    fn new() -> Self {
        let mut r = RefPorts { devs: vec![None, None, None], owner: BTreeMap::new(), iregs: BTreeMap::new(), psr_mapped: true };
        r.owner.extend([(0xFE00, 1), (0xFE02, 1), (0xFE04, 2), (0xFE06, 2)]);
        r
    }
    fn mapped(&self, a: u16) -> bool { self.iregs.contains_key(&a) || (a == 0xFFFC && self.psr_mapped) || a == 0xFFFE }
}
const PCV: u16 = 0x1234; const SSPV: u16 = 0x5678;

struct World { sim: Simulator, model: RefPorts, log: Arc<Mutex<Vec<(u16, bool, u16, u16)>>>, next_tag: u16 }
fn fresh() -> World {
    let mut sim = Simulator::new(SimFlags { machine_init: MachineInitStrategy::Known { value: 0 }, ..Default::default() });
    sim.pc = PCV;
    // put a recognisable value into the saved SP through a temporary mapping
    sim.mmap_internal(0xFE40, InternalRegister::SavedSP).unwrap();
    sim.write_mem(0xFE40, Word::new_init(SSPV), MemAccessCtx::omnipotent()).unwrap();
    sim.munmap_internal(0xFE40);
    World { sim, model: RefPorts::new(), log: Default::default(), next_tag: 1 }
}
fn priv_ctx() -> MemAccessCtx { MemAccessCtx { privileged: true, strict: false, io_effects: true, track_access: false } }

fn apply(w: &mut World, op: Op) -> Result<(), (String, String)> {
    let before_log = w.log.lock().unwrap_or_else(|e| e.into_inner()).len();
    let tag = w.next_tag;
    let what = format!("{op:?}");
    let expect_calls: Vec<(u16, bool, u16, u16)>;
    match op {
        Op::Add(ports) => {
            let exp_ok = ports.iter().all(|p| *p >= 0xFE00 && w.model.owner.get(p).is_none());
            let exp_id = w.model.devs.len() as u16;
            let r = w.sim.device_handler.add_device(Rec { tag, log: w.log.clone() }, ports);
            w.next_tag += 1;
            match (r.is_ok(), exp_ok) {
                (true, true) => { let id = r.ok().unwrap(); if id != exp_id { return Err(("device-id".into(), format!("{what}: returned id {id}, expected {exp_id} (ids are never reused)"))); }
                    w.model.devs.push(Some(tag)); for p in ports { w.model.owner.insert(*p, exp_id); } }
                (false, false) => {}
                (true, false) => return Err(("add-accepts".into(), format!("{what}: add_device succeeded though a port is not I/O or already owned (owners {:x?})", w.model.owner))),
                (false, true) => return Err(("add-rejects".into(), format!("{what}: add_device failed though every port is a free I/O port (owners {:x?})", w.model.owner))),
            }
            expect_calls = vec![];
        }
        Op::AddNull(ports) => {
            let exp_ok = ports.iter().all(|p| *p >= 0xFE00 && w.model.owner.get(p).is_none());
            let exp_id = w.model.devs.len() as u16;
            let r = w.sim.device_handler.add_device(lc3_ensemble::sim::device::NullDevice, ports);
            match (r.is_ok(), exp_ok) {
                (true, true) => { let id = r.ok().unwrap(); if id != exp_id { return Err(("device-id".into(), format!("{what}: returned id {id}, expected {exp_id} (ids are never reused)"))); }
                    w.model.devs.push(Some(SILENT)); for p in ports { w.model.owner.insert(*p, exp_id); } }
                (false, false) => {}
                (true, false) => return Err(("add-accepts".into(), format!("{what}: add_device succeeded though a port is not I/O or already owned (owners {:x?})", w.model.owner))),
                (false, true) => return Err(("add-rejects".into(), format!("{what}: add_device failed though every port is a free I/O port (owners {:x?})", w.model.owner))),
            }
            expect_calls = vec![];
        }
        Op::Churn => {
            for _ in 0..300 {
                let exp_id = w.model.devs.len() as u16;
                match w.sim.device_handler.add_device(Rec { tag, log: w.log.clone() }, &[0xFE60]) {
                    Ok(id) if id == exp_id => { w.model.devs.push(None); w.sim.device_handler.remove_device(id); }
                    Ok(id) => return Err(("device-id".into(), format!("{what}: returned id {id}, expected {exp_id} (ids are never reused)"))),
                    Err(_) => return Err(("add-rejects".into(), format!("{what}: add_device on the free port xFE60 failed at id {exp_id}"))),
                }
            }
            w.next_tag += 1;
            expect_calls = vec![];
        }
        Op::Remove(id) => {
            w.sim.device_handler.remove_device(id);
            if (id as usize) < w.model.devs.len() { w.model.devs[id as usize] = None; if id > 2 { w.model.owner.retain(|_, o| *o != id); } }
            expect_calls = vec![];
        }
        Op::SetKb => { w.sim.device_handler.set_keyboard(Rec { tag, log: w.log.clone() }); w.next_tag += 1; w.model.devs[1] = Some(tag); expect_calls = vec![]; }
        Op::SetDisp => { w.sim.device_handler.set_display(Rec { tag, log: w.log.clone() }); w.next_tag += 1; w.model.devs[2] = Some(tag); expect_calls = vec![]; }
        Op::Mmap(a, pc) => {
            let r = w.sim.mmap_internal(a, if pc { InternalRegister::PC } else { InternalRegister::SavedSP });
            let exp_ok = a >= 0xFE00 && !w.model.mapped(a);
            if r.is_ok() != exp_ok { return Err(("mmap-result".into(), format!("{what}: mmap_internal returned {r:?}, expected ok={exp_ok}"))); }
            if exp_ok { w.model.iregs.insert(a, pc); }
            expect_calls = vec![];
        }
        Op::Munmap(a) => {
            let r = w.sim.munmap_internal(a);
            let exp = w.model.mapped(a);
            if r != exp { return Err(("munmap-result".into(), format!("{what}: munmap_internal returned {r}, expected {exp}"))); }
            if a == 0xFFFC { w.model.psr_mapped = false; } w.model.iregs.remove(&a);
            expect_calls = vec![];
        }
        Op::Read(a) => {
            let mirror = w.sim.mem[a].get();
            let psr = w.sim.psr().get();
            let got = w.sim.read_mem(a, priv_ctx()).map(|x| x.get()).map_err(|e| ("read-error".to_string(), format!("{what}: {e:?}")))?;
            let (exp, calls) = if let Some(pc) = w.model.iregs.get(&a) { (if *pc { PCV } else { SSPV }, vec![]) }
                else if a == 0xFFFC && w.model.psr_mapped { (psr, vec![]) }
                else if let Some(t) = w.model.owner.get(&a).and_then(|id| w.model.devs[*id as usize]).filter(|t| *t != SILENT) { (rec_value(t, a), vec![(t, false, a, 0)]) }
                else { (mirror, vec![]) };
            if got != exp { return Err(("read-value".into(), format!("{what}: read x{got:04X}, expected x{exp:04X} (internal mappings {:x?}, owners {:x?})", w.model.iregs, w.model.owner))); }
            expect_calls = calls;
        }
        Op::Write(a) | Op::WriteUninit(a) => {
            let v = 0xA000 | (before_log as u16 & 0xFF);
            let mirror = w.sim.mem[a];
            let word = if matches!(op, Op::WriteUninit(_)) { Word::verif_from_parts(v, 0x0F00) } else { Word::new_init(v) };
            w.sim.write_mem(a, word, priv_ctx()).map_err(|e| ("write-error".to_string(), format!("{what}: {e:?}")))?;
            if let Some(pc) = w.model.iregs.get(&a) {
                // the internal register received the value: restore the recognisable value afterwards
                let now = if *pc { w.sim.pc } else { w.sim.read_mem(a, MemAccessCtx::omnipotent()).map(|x| x.get()).unwrap_or(0) };
                if now != v { return Err(("write-internal".into(), format!("{what}: internal register holds x{now:04X} after writing x{v:04X}"))); }
                if *pc { w.sim.pc = PCV; } else { let _ = w.sim.write_mem(a, Word::new_init(SSPV), MemAccessCtx::omnipotent()); }
                expect_calls = vec![];
            } else if let Some(t) = w.model.owner.get(&a).and_then(|id| w.model.devs[*id as usize]).filter(|t| *t != SILENT) { expect_calls = vec![(t, true, a, v)]; }
            else {
                if w.sim.mem[a] != mirror { return Err(("unowned-write-changes-memory".into(), format!("{what}: memory cell changed from {mirror:?} to {:?} though no device owns the port", w.sim.mem[a]))); }
                expect_calls = vec![];
            }
        }
    }
    let calls: Vec<_> = w.log.lock().unwrap_or_else(|e| e.into_inner())[before_log..].to_vec();
    if calls != expect_calls { return Err(("wrong-device-reached".into(), format!("{what}: device calls {calls:x?}, expected {expect_calls:x?} (owners {:x?}, devices {:?})", w.model.owner, w.model.devs))); }
    Ok(())
}
/// Fingerprint of the implementation: the handler's derived Debug (port table + slot kinds) and what an effect-free read returns at probe ports.
fn fingerprint(w: &mut World) -> u64 {
    let mut h = fnv_str(&format!("{:?}", w.sim.device_handler));
    for a in PROBES { let v = w.sim.read_mem(a, MemAccessCtx::omnipotent()).map(|x| x.get()).unwrap_or(0xEEEE); h = mix(h, (a as u64) << 16 | v as u64); }
    // device tags are history-dependent names: fold in which tag answers at each probe (already in the values) and how many devices exist
    // the property speaks about history (ids are NEVER reused), so the number of ids issued so far is part of the state even if the implementation forgets it
    // ... and so is the reference's ownership table: a history after which the implementation still shows a port as owned while the reference has
    // freed it must not be merged with the history in which it really is owned
    for (p, o) in &w.model.owner { h = mix(h, (*p as u64) << 16 | *o as u64); }
    for (i, d) in w.model.devs.iter().enumerate() { h = mix(h, (i as u64) << 1 | d.is_some() as u64); }
    for (a, pc) in &w.model.iregs { h = mix(h, (*a as u64) << 1 | *pc as u64); }
    mix(mix(h, w.next_tag as u64), w.model.devs.len() as u64 * 2 + w.model.psr_mapped as u64)
}
fn visit(h: &[u16]) -> Visit {
    let r = catch(|| {
        let mut w = fresh();
        for (i, o) in h.iter().enumerate() { if let Err(e) = apply(&mut w, OPS[*o as usize]) { return (0, Some((e.0, format!("history {:?}: op {i}: {}", h.iter().map(|o| format!("{:?}", OPS[*o as usize])).collect::<Vec<_>>(), e.1)))); } }
        (fingerprint(&mut w), None)
    });
    match r { Ok((fp, v)) => Visit { fingerprint: fp, violation: v, ops_applied: h.len() as u64 }, Err(p) => Visit { fingerprint: 0, violation: Some((format!("panic:{}", panic_site(&p)), p)), ops_applied: h.len() as u64 } }
}
fn case_of(h: &[u16]) -> String { h.iter().map(|x| x.to_string()).collect::<Vec<_>>().join(",") }

pub fn run(ctx: &Ctx) -> Report {
    let mut rep = Report::new("explicit-state BFS over histories of 41 operations (incl. non-I/O addresses that alias free ports modulo the size of the I/O page, incl. 300 attach/remove rounds, the library's NullDevice, ports at xFFFF, stores of words that are not fully initialised): add_device with port sets {[xFE10],[xFE12],[xFE10,xFE12],[xFE00 reserved],[x3000 not I/O],[],[xFE12 twice],[xFE14,xFE06]}, remove_device(0..5), set_keyboard, set_display, mmap_internal(xFE10/xFE00/xFFFC/x3000), munmap_internal(xFE10/xFE00/xFFFC), read(xFE00,xFE10,xFE12,xFFFC), write(xFE10,xFE00); every device is a recording device with a unique tag; after every operation RefPorts decides which device (if any) must have been called, the value read, add/mmap/munmap results, ids never reused, unowned writes leaving memory unchanged; states deduplicated by the real DeviceHandler's Debug state plus effect-free probe reads. non-trivial = states at depth >= 1");
    let depth = ctx.pick(4usize, 7usize); // (depth 8 completes too: 19.4 M states, 137 M transitions, but takes 14 of the 15 minutes the thorough tier allows itself)
    let (states, transitions, frontier, per_depth, capped) = bfs_hist(ctx, &mut rep.acc, OPS.len(), depth, &case_of, visit);
    rep.acc.states = states; rep.acc.transitions = transitions; rep.acc.nontrivial = states - 1;
    for (d, n) in per_depth.iter().enumerate() { rep.acc.outcomes.insert(mix(d as u64, *n)); rep.acc.count(&format!("new_states_depth_{d}"), *n); }
    if capped { rep.exhaustive = false; }
    rep.bound("depth", Json::i(depth as u64)); rep.bound("alphabet", Json::i(OPS.len() as u64)); rep.bound("frontier_at_bound", Json::i(frontier));
    rep.require(states > 500, "the port-table state space was explored");
    rep.assume("two histories are merged only if the real handler's Debug output, the probe reads at 7 ports, the number of devices created and the number of ids issued so far (reference state) agree");
    rep
}
pub fn replay(case: &str) -> Option<String> {
    let h: Vec<u16> = case.split(',').filter(|x| !x.is_empty()).filter_map(|x| x.parse().ok()).collect();
    visit(&h).violation.map(|(s, d)| format!("[{s}] {d}"))
}
