//! C10 — interrupts are priority-gated and transparent to the interrupted program (deviation-bounded schedule enumeration).
use super::simcmp::*;
use crate::refs::isa::reg;
use crate::refs::lc3::Outcome;
use crate::util::*;
use lc3_ensemble::asm::assemble;
use lc3_ensemble::parse::parse_ast;
use lc3_ensemble::sim::device::TimerDevice;
use std::sync::OnceLock;

const PROGRAMS: [&str; 5] = [
    ".orig x3000\nAND R0,R0,#0\nADD R1,R0,#3\nLOOP ADD R0,R0,R1\nADD R1,R1,#-1\nBRp LOOP\nBRz Z\nADD R0,R0,#1\nZ NOT R2,R0\nBRn N\nADD R2,R2,#1\nN HALT\n.end",
    ".orig x3000\nLEA R3, DATA\nLD R0, DATA\nADD R0,R0,#1\nST R0, DATA\nLDR R1,R3,#0\nSTR R1,R3,#1\nLDI R2, PTR\nSTI R2, PTR2\nHALT\nDATA .fill 5\n.blkw 1\nPTR .fill DATA\nPTR2 .fill x3100\n.end",
    ".orig x3000\nLD R6, SP\nJSR A\nHALT\nA ADD R6,R6,#-1\nSTR R7,R6,#0\nJSR B\nLDR R7,R6,#0\nADD R6,R6,#1\nRET\nB ADD R0,R0,#1\nRET\nSP .fill xFD00\n.end",
    ".orig x3000\nLEA R0, S\nPUTS\nLD R0, C\nOUT\nHALT\nC .fill x21\nS .stringz \"ok\"\n.end",
    ".orig x3000\nADD R0,R0,#1\nADD R1,R0,R0\nADD R2,R1,R0\nNOT R3,R2\nHALT\n.end",
];
/// handler: saves/restores R0,R1 on the supervisor stack, bumps its counter, clobbers CC, RTI
pub fn handler(at: u16, extra: &str) -> String {
    format!(".orig x{at:04X}\nADD R6,R6,#-1\nSTR R0,R6,#0\nADD R6,R6,#-1\nSTR R1,R6,#0\n{extra}LD R0, CNT\nADD R0,R0,#1\nST R0, CNT\nAND R1,R1,#0\nNOT R1,R1\nLDR R1,R6,#0\nADD R6,R6,#1\nLDR R0,R6,#0\nADD R6,R6,#1\nRTI\nCNT .fill 0\nKBDRP .fill xFE02\nBUF .blkw 1\nHCH .fill x23\n.end")
}
const H_A: u16 = 0x1F00; const H_B: u16 = 0x1F40; const H_KB: u16 = 0x1F80; const H_T: u16 = 0x1FC0;

const KB_EXTRA: &str = "LDI R0, KBDRP\nST R0, BUF\nTRAP x40\n";
/// handlers A, the keyboard's and the timer's call a service routine through TRAP x40 (installed at x1E00: two instructions and RTI), so
/// requests also arrive while an ISR is inside a trap routine: a TRAP must not change the priority level the ISR runs at.
const TRAP_EXTRA: &str = "TRAP x40\n";
/// handler B prints a '#' through the OS (TRAP OUT) before counting: an ISR may itself use the OS's output routines, which the interrupted
/// program may be in the middle of
const PRINT_EXTRA: &str = "LD R0, HCH\nOUT\n";
const SERVICE: [(u16, u16); 4] = [(0x0040, 0x1E00), (0x1E00, 0x5260), (0x1E01, 0x1261), (0x1E02, 0x8000)];
/// address of the handler's counter cell, through the assembler's symbol table
fn cnt_addr(at: u16, extra: &str) -> u16 {
    let src = handler(at, extra);
    lc3_ensemble::asm::assemble_debug(parse_ast(&src).unwrap(), &src).unwrap().symbol_table().unwrap().lookup_label("CNT").unwrap()
}
pub fn image(src: &str) -> Vec<(u16, u16)> {
    let o = assemble(parse_ast(src).expect("harness program parses")).expect("harness program assembles");
    o.addr_iter().map(|(a, w)| (a, w.unwrap_or(0))).collect()
}
struct Imgs { progs: Vec<Vec<(u16, u16)>>, ha: Vec<(u16, u16)>, hb: Vec<(u16, u16)>, hkb: Vec<(u16, u16)>, ht: Vec<(u16, u16)> }
fn imgs() -> &'static Imgs {
    static I: OnceLock<Imgs> = OnceLock::new();
    I.get_or_init(|| Imgs {
        progs: PROGRAMS.iter().map(|s| image(s)).collect(),
        ha: image(&handler(H_A, TRAP_EXTRA)), hb: image(&handler(H_B, PRINT_EXTRA)),
        hkb: image(&handler(H_KB, KB_EXTRA)), ht: image(&handler(H_T, TRAP_EXTRA)),
    })
}
thread_local! { static CHURN: std::cell::Cell<u32> = const { std::cell::Cell::new(0) }; }
/// scale: the same schedule on a simulator that had `churn` devices attached and removed before (the requesting devices get ids past 2^8 / 2^9)
thread_local! { static REUSE: std::cell::Cell<u8> = const { std::cell::Cell::new(0) }; }
/// the same schedule on a simulator that was used before and `reset()` while it was in supervisor mode (see `supervisor_prior`)
fn check_reuse(prog: usize, v: &Variant, kind: u8) -> Result<(u64, bool), (String, String)> {
    REUSE.with(|c| c.set(kind));
    let r = check_f(prog, v, false).map_err(|(s, d)| (s, format!("on a simulator that was reset() while in supervisor mode (prior use {kind}): {d}")));
    REUSE.with(|c| c.set(0));
    r
}
fn check_churn(prog: usize, v: &Variant, churn: u32) -> Result<(u64, bool), (String, String)> {
    CHURN.with(|c| c.set(churn));
    let r = check_f(prog, v, false).map_err(|(s, d)| (s, format!("after {churn} device attach/remove rounds: {d}")));
    CHURN.with(|c| c.set(0));
    r
}
fn machine(prog: usize, ign: bool) -> Machine {
    let im = imgs();
    let mut m = Machine::user();
    m.ignore_priv = ign;
    m.device_churn = CHURN.with(|c| c.get());
    m.regs = [1, 2, 3, 4, 5, 6, 0xFD80, 7];
    m.kb = Some(vec![]);
    m.pokes.extend(im.progs[prog].iter().copied());
    for h in [&im.ha, &im.hb, &im.hkb, &im.ht] { m.pokes.extend(h.iter().copied()); }
    m.pokes.extend([(0x0190, H_A), (0x0191, H_B), (0x0180, H_KB), (0x0192, H_T)]);
    m.pokes.extend(SERVICE);
    m
}

#[derive(Clone, Debug)]
enum Variant {
    /// two harness devices with priorities (pa, pb); events = (poll, device)
    Devices { pa: u8, pb: u8, events: Vec<(u64, u8)> },
    /// keyboard interrupts enabled; bytes appended by "another thread" before the given polls
    Keyboard { appends: Vec<u64> },
    /// the real TimerDevice with an exact count
    Timer { n: u32 },
}
struct Final { finished: bool, regs: Vec<u16>, cc: u16, user_mem: Vec<u16>, display: Vec<u8>, polls: u64, counters: [u16; 4] }

fn run(prog: usize, v: &Variant, ign: bool) -> Result<Final, (String, String)> {
    let mut m = machine(prog, ign);
    if matches!(v, Variant::Keyboard { .. }) { m.kb_ie = true; }
    let reuse = REUSE.with(|c| c.get());
    let mut p = if reuse == 0 { build(&m) } else { let (pm, steps) = supervisor_prior(&m, reuse); build_reused(&m, &pm, steps).map_err(|e| (format!("panic:{}", panic_site(&e)), format!("setting up a reused simulator: {e}")))? };
    let what = format!("program {prog} {v:?}{}", if ign { " ignore_privilege=true" } else { "" });
    let mut raised = [0u64; 2];
    let mut timer_model: Option<(u32, u32)> = None; // (n, time)
    match v {
        Variant::Devices { pa, pb, events } => {
            p.add_source(0x90, *pa, events.iter().filter(|e| e.1 == 0).map(|e| e.0).collect());
            p.add_source(0x91, *pb, events.iter().filter(|e| e.1 == 1).map(|e| e.0).collect());
        }
        Variant::Keyboard { .. } => {}
        Variant::Timer { n } => {
            let mut t = TimerDevice::new(Some(9), *n..=*n, 0x92, 4); t.enabled = true;
            p.sim.device_handler.add_device(t, &[]).ok().expect("add timer");
            timer_model = Some((*n, *n));
        }
    }
    let mut polls = 0u64; let mut taken = 0u64; let mut finished = false;
    for _ in 0..2000 {
        if let Variant::Keyboard { appends } = v {
            for (k, _) in appends.iter().enumerate().filter(|(_, a)| **a == polls) { let b = b'A' + k as u8; p.kb.get_buffer().write().unwrap_or_else(|e| e.into_inner()).push_back(b); p.rf.kb_queue.push_back(b); }
        }
        if let Some((n, time)) = &mut timer_model {
            // RefTimer: countdown model of an exact count n
            p.extra.clear();
            match *time { 0 => { *time = *n; } 1 => { *time = 0; p.extra.push((0x92, 4)); } _ => { *time -= 1; } }
        }
        let info = step_compare(&mut p, false).map_err(|(s, d)| (s, format!("{what}: poll {polls}: {d}")))?;
        polls += 1;
        if info.outcome == Outcome::Interrupted { taken += 1; }
        if matches!(info.outcome, Outcome::Halt) { finished = true; break; }
        if let Outcome::Err(e) = info.outcome { return Err(("machinery:program-faults".into(), format!("{what}: program faulted with {e:?}"))); }
    }
    if let Variant::Devices { events, .. } = v { for e in events { if e.0 < polls { raised[e.1 as usize] += 1; } } }
    if let Some(e) = compare_memory(&p) { return Err((e.0, format!("{what}: {}", e.1))); }
    let im = imgs();
    let _ = im;
    let counters = [p.sim.mem[cnt_addr(H_A, TRAP_EXTRA)].get(), p.sim.mem[cnt_addr(H_B, PRINT_EXTRA)].get(), p.sim.mem[cnt_addr(H_KB, KB_EXTRA)].get(), p.sim.mem[cnt_addr(H_T, TRAP_EXTRA)].get()];
    if let Variant::Devices { .. } = v {
        if counters[0] as u64 != raised[0] || counters[1] as u64 != raised[1] { return Err(("requests-lost-or-duplicated".into(), format!("{what}: handlers ran {}/{} times, requests raised {}/{}", counters[0], counters[1], raised[0], raised[1]))); }
        if taken != raised[0] + raised[1] { return Err(("taken-count".into(), format!("{what}: {taken} interrupts taken, {} raised", raised[0] + raised[1]))); }
    }
    if let Variant::Keyboard { appends } = v {
        let served = appends.iter().filter(|a| **a < polls).count() as u16;
        if counters[2] != served { return Err(("keyboard-interrupts".into(), format!("{what}: keyboard handler ran {} times for {served} bytes typed", counters[2]))); }
    }
    let display = { let g = p.disp.get_buffer().read().unwrap_or_else(|e| e.into_inner()); g.clone() };
    Ok(Final { finished, regs: (0..8).map(|i| p.sim.reg_file[reg(i)].get()).collect(), cc: p.sim.psr().get() & 7, user_mem: (0x3000..0xFE00u16).map(|a| p.sim.mem[a].get()).collect(), display, polls, counters })
}

/// uninterrupted runs (default flags, then ignore_privilege); a run that already disagrees with the reference is itself a violation, reported by the callers
fn baselines() -> &'static Vec<Result<Final, (String, String)>> {
    static B: OnceLock<Vec<Result<Final, (String, String)>>> = OnceLock::new();
    B.get_or_init(|| (0..2 * PROGRAMS.len()).map(|i| run(i % PROGRAMS.len(), &Variant::Devices { pa: 4, pb: 7, events: vec![] }, i >= PROGRAMS.len())).collect())
}
fn base_polls(prog: usize) -> u64 { [prog, prog + PROGRAMS.len()].iter().filter_map(|i| baselines()[*i].as_ref().ok().map(|b| b.polls)).max().unwrap_or(0) }
fn check(prog: usize, v: &Variant) -> Result<(u64, bool), (String, String)> { check_f(prog, v, false) }
/// `ign`: the same schedule with ignore_privilege set (the program stays in user mode; entry and return must still use the supervisor stack)
fn check_f(prog: usize, v: &Variant, ign: bool) -> Result<(u64, bool), (String, String)> {
    let f = run(prog, v, ign)?;
    // a timer whose period divides the handler's length starves the program forever (every return is interrupted at once):
    // legitimate behaviour; such runs end at the horizon and only their lock-step part is judged
    if !f.finished { return Ok((f.polls, false)); }
    let b = match &baselines()[prog + if ign { PROGRAMS.len() } else { 0 }] { Ok(b) => b, Err(e) => return Err(e.clone()) };
    let what = format!("program {prog} {v:?}{}", if ign { " ignore_privilege=true" } else { "" });
    if f.regs != b.regs { return Err(("transparency:registers".into(), format!("{what}: final registers {:x?}, uninterrupted run {:x?}", f.regs, b.regs))); }
    if f.cc != b.cc { return Err(("transparency:condition-codes".into(), format!("{what}: final CC {:03b}, uninterrupted {:03b}", f.cc, b.cc))); }
    // handler B's own '#' characters are not the program's output: everything else must be exactly the uninterrupted output, and there is one '#' per time B ran
    let own: Vec<u8> = f.display.iter().copied().filter(|c| *c != 0x23).collect();
    if own != b.display { return Err(("transparency:output".into(), format!("{what}: output {:x?} (the ISR's own '#' removed: {own:x?}), uninterrupted {:x?}", f.display, b.display))); }
    if f.display.iter().filter(|c| **c == 0x23).count() as u16 != f.counters[1] { return Err(("transparency:isr-output".into(), format!("{what}: handler B ran {} times but {} of its '#' characters were displayed: {:x?}", f.counters[1], f.display.iter().filter(|c| **c == 0x23).count(), f.display))); }
    if let Some(a) = (0..f.user_mem.len()).find(|a| f.user_mem[*a] != b.user_mem[*a]) { return Err(("transparency:user-memory".into(), format!("{what}: mem[x{:04X}] = x{:04X}, uninterrupted x{:04X}", a + 0x3000, f.user_mem[a], b.user_mem[a]))); }
    Ok((f.polls, f.counters.iter().any(|c| *c > 0)))
}

const PRIOS: [(u8, u8); 6] = [(4, 7), (7, 4), (1, 4), (4, 1), (1, 7), (7, 1)];
/// decodes schedule number `s` with k events over `slots` (poll x device) positions, non-decreasing positions (multiset)
fn schedule(mut s: u64, k: usize, slots: u64) -> Option<Vec<(u64, u8)>> {
    let mut v = vec![];
    for _ in 0..k { v.push(s % slots); s /= slots; }
    if v.windows(2).any(|w| w[0] > w[1]) { return None; } // canonical order only
    Some(v.into_iter().map(|x| (x / 2, (x % 2) as u8)).collect())
}

pub fn run_engine(ctx: &Ctx) -> Report {
    let mut rep = Report::new("5 user programs (arithmetic loop branching on every CC; LD/ST/LDR/STR/LDI/STI; nested JSR with a stack through R6; PUTS and OUT so that requests land inside OS code; straight line) ending in HALT; two harness devices (vectors x90/x91, level-triggered until taken; the first one's, the keyboard's and the timer's handlers call a service routine through TRAP x40, the second one's handler prints a '#' through TRAP OUT, so requests also arrive while an ISR is inside a trap routine) with priority pairs from {1,4,7}^2 (unequal), the first pair also with ignore_privilege set; schedules: every placement of 0,1,2 (thorough 3 on the shorter programs) request-raise events over (poll index x device) up to the program's length; plus the real keyboard interrupt (IE set, bytes typed by 'another thread' before every pair of polls) and the real TimerDevice with exact n=1..baseline+1. Every run is in lock-step with RefLC3 (gating: taken iff priority > PSR priority and highest wins; entry: supervisor bit, priority, PC = mem[x100+v], R6 = SSP-2, pushed PC/PSR, saved SP, instruction count unchanged) and its final R0-R7, CC, user memory and output are compared with the 0-interrupt run; handler counters = requests raised. non-trivial = schedules in which an interrupt was taken");
    let base = baselines();
    let npr = ctx.pick(3usize, 6usize);
    for prog in 0..PROGRAMS.len() {
        for (bi, b) in [(prog, ""), (prog + PROGRAMS.len(), "i")] { if let Err((sig, d)) = &base[bi] { rep.acc.violation(sig.clone(), format!("d:{prog}:0:0:{}", if b.is_empty() { "0" } else { b }), d.clone()); } }
        let polls = base_polls(prog);
        if polls == 0 { continue; }
        let slots = polls * 2;
        let maxk = if ctx.thorough() && polls <= 100 { 3 } else { 2 };
        for k in 0..=maxk {
            let n = slots.pow(k as u32);
            // priority pairs 0..npr with default flags, plus pair 0 again with ignore_privilege set (index npr)
            let r = sweep(ctx, n * (npr as u64 + 1), 32, |i, acc| {
                let (s, pi) = (i / (npr as u64 + 1), (i % (npr as u64 + 1)) as usize);
                let Some(events) = schedule(s, k, slots) else { return };
                let ign = pi == npr;
                let (pa, pb) = PRIOS[if ign { 0 } else { pi }];
                let v = Variant::Devices { pa, pb, events };
                acc.evals += 1; acc.traces += 1; acc.count(&format!("schedules_k{k}"), 1); if ign { acc.count("schedules_ignore_privilege", 1); }
                match check_f(prog, &v, ign) {
                    Ok((p, any)) => { acc.transitions += p; if any { acc.nontrivial += 1; } acc.outcomes.insert(mix(prog as u64, p)); }
                    Err((sig, d)) => acc.violation(sig, format!("d:{prog}:{k}:{s}:{}", if ign { "i".to_string() } else { pi.to_string() }), d),
                }
                acc.sample(i, ctx.seed, 9973, || format!("program {prog} {v:?}"));
            });
            rep.absorb(r);
        }
        // life cycle: 0-1 requests at every poll on a simulator that was used before and reset() while in supervisor mode
        for kind in [1u8, 2] { for k in 0..=1usize {
            let n = slots.pow(k as u32);
            let r = sweep(ctx, n, 16, |s, acc| {
                let Some(events) = schedule(s, k, slots) else { return };
                let v = Variant::Devices { pa: 4, pb: 7, events };
                acc.evals += 1; acc.traces += 1; acc.count("schedules_on_reused_simulator", 1);
                match check_reuse(prog, &v, kind) {
                    Ok((p, any)) => { acc.transitions += p; if any { acc.nontrivial += 1; } }
                    Err((sig, d)) => acc.violation(sig, format!("r:{prog}:{k}:{s}:{kind}"), d),
                }
            });
            rep.absorb(r);
        } }
        // scale: 0-1 requests at every poll on simulators whose device ids were pushed past 2^8 and 2^9
        for churn in [253u32, 254, 509, 510, 600] { for k in 0..=1usize {
            let n = slots.pow(k as u32);
            let r = sweep(ctx, n, 16, |s, acc| {
                let Some(events) = schedule(s, k, slots) else { return };
                let v = Variant::Devices { pa: 4, pb: 7, events };
                acc.evals += 1; acc.traces += 1; acc.count("schedules_device_churn", 1);
                match check_churn(prog, &v, churn) {
                    Ok((p, any)) => { acc.transitions += p; if any { acc.nontrivial += 1; } }
                    Err((sig, d)) => acc.violation(sig, format!("c:{prog}:{k}:{s}:{churn}"), d),
                }
            });
            rep.absorb(r);
        } }
        // keyboard variant: 0..2 bytes typed before chosen polls
        let r = sweep(ctx, (polls + 1) * (polls + 1), 16, |i, acc| {
            let (a, b) = (i / (polls + 1), i % (polls + 1));
            let appends: Vec<u64> = [a, b].into_iter().filter(|x| *x < polls).collect();
            if a > b && b < polls { return; }
            acc.evals += 1; acc.traces += 1; acc.count("keyboard_schedules", 1);
            match check(prog, &Variant::Keyboard { appends: appends.clone() }) {
                Ok((p, any)) => { acc.transitions += p; if any { acc.nontrivial += 1; } }
                Err((sig, d)) => acc.violation(sig, format!("k:{prog}:{a}:{b}"), d),
            }
        });
        rep.absorb(r);
        let r = sweep(ctx, polls + 1, 1, |i, acc| {
            let n = i as u32 + 1;
            acc.evals += 1; acc.traces += 1; acc.count("timer_schedules", 1);
            match check(prog, &Variant::Timer { n }) {
                Ok((p, any)) => { acc.transitions += p; if any { acc.nontrivial += 1; } }
                Err((sig, d)) => acc.violation(sig, format!("t:{prog}:{n}"), d),
            }
        });
        rep.absorb(r);
    }
    rep.bound("programs", Json::i(5)); rep.bound("priority_pairs", Json::i(npr as u64)); rep.bound("max_events", Json::s(ctx.pick("2", "3 (programs of <=100 polls), else 2")));
    rep.bound("polls_per_program", Json::Arr((0..PROGRAMS.len()).map(|i| Json::i(base_polls(i))).collect()));
    rep.require(rep.acc.nontrivial > 5_000, "interrupts were taken in many schedules");
    rep.assume("TimerDevice ticks that arrive while masked are dropped by design, so the timer variant is judged on gating, entry state and transparency only");
    rep
}
pub fn replay(case: &str) -> Option<String> {
    let p: Vec<&str> = case.split(':').collect();
    let n = |i: usize| -> Option<u64> { p.get(i)?.parse().ok() };
    let prog = n(1)? as usize;
    let v = match *p.first()? {
        "d" => { let polls = base_polls(prog); let ign = p.get(4) == Some(&"i"); let (pa, pb) = PRIOS[if ign { 0 } else { n(4)? as usize }];
            let v = Variant::Devices { pa, pb, events: schedule(n(3)?, n(2)? as usize, polls * 2)? };
            return check_f(prog, &v, ign).err().map(|(s, d)| format!("[{s}] {d}")); }
        "c" => { let polls = base_polls(prog); let v = Variant::Devices { pa: 4, pb: 7, events: schedule(n(3)?, n(2)? as usize, polls * 2)? }; return check_churn(prog, &v, n(4)? as u32).err().map(|(s, d)| format!("[{s}] {d}")); }
        "r" => { let polls = base_polls(prog); let v = Variant::Devices { pa: 4, pb: 7, events: schedule(n(3)?, n(2)? as usize, polls * 2)? }; return check_reuse(prog, &v, n(4)? as u8).err().map(|(s, d)| format!("[{s}] {d}")); }
        "k" => { let polls = base_polls(prog); Variant::Keyboard { appends: [n(2)?, n(3)?].into_iter().filter(|x| *x < polls).collect() } }
        "t" => Variant::Timer { n: n(2)? as u32 },
        _ => return None,
    };
    check(prog, &v).err().map(|(s, d)| format!("[{s}] {d}"))
}
