//! Shared machinery: JSON, parallel sweep, panic capture, reports, evidence, known findings.
use std::cell::RefCell;
use std::collections::{BTreeMap, HashSet};
use std::fmt::Write as _;
use std::sync::atomic::{AtomicBool, AtomicU64, Ordering};
use std::sync::Mutex;
use std::time::{Duration, Instant};

// ---------------------------------------------------------------- JSON

#[derive(Clone, Debug, PartialEq)]
pub enum Json {
    Null,
    Bool(bool),
    Int(i128),
    Num(f64),
    Str(String),
    Arr(Vec<Json>),
    Obj(Vec<(String, Json)>),
}
impl Json {
    pub fn s(x: impl Into<String>) -> Json { Json::Str(x.into()) }
    pub fn i(x: impl TryInto<i128>) -> Json { Json::Int(x.try_into().ok().unwrap_or(0)) }
    pub fn get(&self, k: &str) -> Option<&Json> {
        match self { Json::Obj(v) => v.iter().find(|(kk, _)| kk == k).map(|(_, v)| v), _ => None }
    }
    pub fn as_str(&self) -> Option<&str> { match self { Json::Str(s) => Some(s), _ => None } }
    pub fn render(&self) -> String { let mut s = String::new(); self.write(&mut s, 0); s }
    fn write(&self, out: &mut String, ind: usize) {
        match self {
            Json::Null => out.push_str("null"),
            Json::Bool(b) => { let _ = write!(out, "{b}"); }
            Json::Int(i) => { let _ = write!(out, "{i}"); }
            Json::Num(f) => { if f.is_finite() { let _ = write!(out, "{f:.3}"); } else { out.push('0'); } }
            Json::Str(s) => write_str(out, s),
            Json::Arr(v) => {
                if v.is_empty() { out.push_str("[]"); return; }
                out.push('[');
                for (i, x) in v.iter().enumerate() {
                    if i > 0 { out.push(','); }
                    out.push('\n'); out.push_str(&" ".repeat(ind + 1));
                    x.write(out, ind + 1);
                }
                out.push('\n'); out.push_str(&" ".repeat(ind)); out.push(']');
            }
            Json::Obj(v) => {
                if v.is_empty() { out.push_str("{}"); return; }
                out.push('{');
                for (i, (k, x)) in v.iter().enumerate() {
                    if i > 0 { out.push(','); }
                    out.push('\n'); out.push_str(&" ".repeat(ind + 1));
                    write_str(out, k); out.push_str(": ");
                    x.write(out, ind + 1);
                }
                out.push('\n'); out.push_str(&" ".repeat(ind)); out.push('}');
            }
        }
    }
    pub fn parse(s: &str) -> Option<Json> {
        let b = s.as_bytes();
        let mut p = 0usize;
        let v = parse_val(b, &mut p)?;
        skip_ws(b, &mut p);
        if p == b.len() { Some(v) } else { None }
    }
}
fn write_str(out: &mut String, s: &str) {
    out.push('"');
    for c in s.chars() {
        match c {
            '"' => out.push_str("\\\""),
            '\\' => out.push_str("\\\\"),
            '\n' => out.push_str("\\n"),
            '\r' => out.push_str("\\r"),
            '\t' => out.push_str("\\t"),
            c if (c as u32) < 0x20 => { let _ = write!(out, "\\u{:04x}", c as u32); }
            c => out.push(c),
        }
    }
    out.push('"');
}
fn skip_ws(b: &[u8], p: &mut usize) { while *p < b.len() && (b[*p] as char).is_ascii_whitespace() { *p += 1; } }
fn parse_val(b: &[u8], p: &mut usize) -> Option<Json> {
    skip_ws(b, p);
    match *b.get(*p)? {
        b'n' => { if b[*p..].starts_with(b"null") { *p += 4; Some(Json::Null) } else { None } }
        b't' => { if b[*p..].starts_with(b"true") { *p += 4; Some(Json::Bool(true)) } else { None } }
        b'f' => { if b[*p..].starts_with(b"false") { *p += 5; Some(Json::Bool(false)) } else { None } }
        b'"' => parse_string(b, p).map(Json::Str),
        b'[' => {
            *p += 1; let mut v = vec![];
            loop {
                skip_ws(b, p);
                if *b.get(*p)? == b']' { *p += 1; return Some(Json::Arr(v)); }
                v.push(parse_val(b, p)?);
                skip_ws(b, p);
                match *b.get(*p)? { b',' => { *p += 1; } b']' => { *p += 1; return Some(Json::Arr(v)); } _ => return None }
            }
        }
        b'{' => {
            *p += 1; let mut v = vec![];
            loop {
                skip_ws(b, p);
                if *b.get(*p)? == b'}' { *p += 1; return Some(Json::Obj(v)); }
                let k = parse_string(b, p)?;
                skip_ws(b, p);
                if *b.get(*p)? != b':' { return None; }
                *p += 1;
                let x = parse_val(b, p)?;
                v.push((k, x));
                skip_ws(b, p);
                match *b.get(*p)? { b',' => { *p += 1; } b'}' => { *p += 1; return Some(Json::Obj(v)); } _ => return None }
            }
        }
        _ => {
            let st = *p;
            while *p < b.len() && matches!(b[*p], b'-' | b'+' | b'.' | b'e' | b'E' | b'0'..=b'9') { *p += 1; }
            let t = std::str::from_utf8(&b[st..*p]).ok()?;
            if let Ok(i) = t.parse::<i128>() { Some(Json::Int(i)) } else { t.parse::<f64>().ok().map(Json::Num) }
        }
    }
}
fn parse_string(b: &[u8], p: &mut usize) -> Option<String> {
    if *b.get(*p)? != b'"' { return None; }
    *p += 1;
    let mut out: Vec<u8> = vec![];
    loop {
        let c = *b.get(*p)?;
        *p += 1;
        match c {
            b'"' => return String::from_utf8(out).ok(),
            b'\\' => {
                let e = *b.get(*p)?; *p += 1;
                match e {
                    b'n' => out.push(b'\n'), b'r' => out.push(b'\r'), b't' => out.push(b'\t'),
                    b'b' => out.push(8), b'f' => out.push(12),
                    b'u' => {
                        let h = std::str::from_utf8(b.get(*p..*p + 4)?).ok()?;
                        *p += 4;
                        let cp = u32::from_str_radix(h, 16).ok()?;
                        let ch = char::from_u32(cp)?;
                        let mut buf = [0u8; 4];
                        out.extend_from_slice(ch.encode_utf8(&mut buf).as_bytes());
                    }
                    x => out.push(x),
                }
            }
            c => out.push(c),
        }
    }
}

// ---------------------------------------------------------------- byte-exact case encoding helpers

/// Hex-encodes arbitrary bytes (cases that are not valid UTF-8 or contain control characters).
pub fn hex(b: &[u8]) -> String { let mut s = String::with_capacity(b.len() * 2); for x in b { let _ = write!(s, "{x:02x}"); } s }
pub fn unhex(s: &str) -> Option<Vec<u8>> {
    if s.len() % 2 != 0 { return None; }
    (0..s.len() / 2).map(|i| u8::from_str_radix(s.get(2 * i..2 * i + 2)?, 16).ok()).collect()
}

// ---------------------------------------------------------------- hashing

pub fn fnv(data: &[u8]) -> u64 {
    let mut h: u64 = 0xcbf29ce484222325;
    for &b in data { h ^= b as u64; h = h.wrapping_mul(0x100000001b3); }
    h
}
pub fn fnv_str(s: &str) -> u64 { fnv(s.as_bytes()) }
pub fn mix(a: u64, b: u64) -> u64 {
    let mut h = a ^ b.wrapping_mul(0x9E3779B97F4A7C15);
    h ^= h >> 29; h = h.wrapping_mul(0xBF58476D1CE4E5B9); h ^= h >> 32;
    h
}

// ---------------------------------------------------------------- panic capture

thread_local! {
    static LAST_PANIC: RefCell<Option<String>> = const { RefCell::new(None) };
    static QUIET: RefCell<bool> = const { RefCell::new(false) };
}
pub fn install_panic_hook() {
    let default = std::panic::take_hook();
    std::panic::set_hook(Box::new(move |info| {
        let quiet = QUIET.with(|q| *q.borrow());
        if quiet {
            let msg = if let Some(s) = info.payload().downcast_ref::<&str>() { s.to_string() }
                else if let Some(s) = info.payload().downcast_ref::<String>() { s.clone() }
                else { "<non-string panic>".to_string() };
            let loc = info.location().map(|l| format!("{}:{}", l.file(), l.line())).unwrap_or_default();
            LAST_PANIC.with(|p| *p.borrow_mut() = Some(format!("{msg} @ {loc}")));
        } else {
            default(info);
        }
    }));
}
/// Runs `f`, turning a panic into `Err(message @ file:line)`.
pub fn catch<R>(f: impl FnOnce() -> R) -> Result<R, String> {
    let prev = QUIET.with(|q| std::mem::replace(&mut *q.borrow_mut(), true));
    let r = std::panic::catch_unwind(std::panic::AssertUnwindSafe(f));
    QUIET.with(|q| *q.borrow_mut() = prev);
    match r {
        Ok(v) => Ok(v),
        Err(_) => Err(LAST_PANIC.with(|p| p.borrow_mut().take()).unwrap_or_else(|| "<panic>".into())),
    }
}
/// Poisons an `RwLock` the way a front-end thread that dies while holding its write guard does (the lock is free afterwards).
pub fn poison_rwlock<T>(l: &std::sync::RwLock<T>) {
    let _ = catch(|| { let _g = l.write().unwrap_or_else(|e| e.into_inner()); panic!("holder dies while holding the lock"); });
    assert!(l.is_poisoned());
}
pub fn poison_mutex<T>(l: &std::sync::Mutex<T>) {
    let _ = catch(|| { let _g = l.lock().unwrap_or_else(|e| e.into_inner()); panic!("holder dies while holding the lock"); });
    assert!(l.is_poisoned());
}
/// Evaluates one case of property `id` in a child process (`lc3mc isolated <id> <case>`): `Ok(None)` = holds, `Ok(Some(text))` = violation.
/// If the child dies without reporting (the subject overflowed the stack or aborted, which no `catch_unwind` can intercept) that is reported
/// as a violation of its own. `Err` = the child could not be run (machinery).
pub fn isolated(id: &str, case: &str) -> Result<Option<String>, String> {
    let exe = std::env::current_exe().map_err(|e| format!("current_exe: {e}"))?;
    let out = std::process::Command::new(exe).args(["isolated", id, case]).output().map_err(|e| format!("spawn: {e}"))?;
    let stdout = String::from_utf8_lossy(&out.stdout);
    if let Some(l) = stdout.lines().find(|l| l.starts_with("ISOLATED-RESULT ")) {
        let rest = &l["ISOLATED-RESULT ".len()..];
        return Ok(if rest == "none" { None } else { Some(rest.trim_start_matches("violation ").to_string()) });
    }
    let err = String::from_utf8_lossy(&out.stderr);
    // only a keyword is kept: the runtime's message carries thread ids and addresses, which differ between runs (replay discipline)
    let why = if err.contains("overflowed its stack") || err.contains("stack overflow") { "stack overflow" } else if err.contains("memory allocation") { "allocation failure" } else if err.contains("abort") { "abort" } else { "" }.to_string();
    Ok(Some(format!("[process-abort] the process evaluating the case died without a verdict ({}; status {:?}) — not an unwinding panic, it takes the caller's process down", if why.is_empty() { "no diagnostic" } else { &why }, out.status.code())))
}
/// Reduces a panic message to a stable site signature: `file:line` with the /repo prefix dropped.
pub fn panic_site(msg: &str) -> String {
    match msg.rsplit_once(" @ ") {
        Some((_, loc)) => loc.trim_start_matches("/repo/").to_string(),
        None => "unknown".into(),
    }
}

// ---------------------------------------------------------------- context / report

#[derive(Clone, Copy, PartialEq, Eq, Debug)]
pub enum Tier { Quick, Thorough }

pub struct Ctx {
    pub id: String,
    pub tier: Tier,
    pub seed: u64,
    pub start: Instant,
    pub cap: Duration,
    pub threads: usize,
}
impl Ctx {
    pub fn quick(&self) -> bool { self.tier == Tier::Quick }
    pub fn thorough(&self) -> bool { self.tier == Tier::Thorough }
    pub fn out_of_time(&self) -> bool { self.start.elapsed() > self.cap }
    /// picks `a` for quick and `b` for thorough
    pub fn pick<T>(&self, a: T, b: T) -> T { if self.quick() { a } else { b } }
}

#[derive(Clone, Debug)]
pub struct Violation {
    /// stable signature (matched against KNOWN_FINDINGS.txt)
    pub sig: String,
    /// replayable record (property-specific encoding)
    pub case: String,
    pub detail: String,
}

#[derive(Default)]
pub struct Acc {
    pub evals: u64,
    pub nontrivial: u64,
    pub transitions: u64,
    pub states: u64,
    pub traces: u64,
    pub nontrivial_set: HashSet<u64>,
    pub outcomes: HashSet<u64>,
    pub violations: Vec<Violation>,
    pub viol_count: u64,
    pub known_hits: BTreeMap<String, u64>,
    pub samples: Vec<String>,
    /// first case seen by this accumulator; used when the seed-rotated stride selected nothing
    pub fallback: Option<String>,
    pub counters: BTreeMap<String, u64>,
}
impl Acc {
    pub fn count(&mut self, k: &str, n: u64) { *self.counters.entry(k.to_string()).or_insert(0) += n; }
    pub fn get(&self, k: &str) -> u64 { self.counters.get(k).copied().unwrap_or(0) }
    pub fn violation(&mut self, sig: impl Into<String>, case: impl Into<String>, detail: impl Into<String>) {
        self.viol_count += 1;
        let v = Violation { sig: sig.into(), case: case.into(), detail: detail.into() };
        // keep at most 4 per signature and 200 overall (shortest cases first is handled at merge)
        let same = self.violations.iter().filter(|x| x.sig == v.sig).count();
        if same < 4 && self.violations.len() < 200 { self.violations.push(v); }
    }
    pub fn sample(&mut self, idx: u64, seed: u64, stride: u64, f: impl FnOnce() -> String) {
        if self.samples.len() < 3 && (idx.wrapping_add(seed)) % stride.max(1) == 0 { self.samples.push(f()); }
        else if self.fallback.is_none() && self.samples.is_empty() { self.fallback = Some(f()); }
    }
    pub fn merge(&mut self, o: Acc) {
        self.evals += o.evals; self.nontrivial += o.nontrivial; self.transitions += o.transitions;
        self.states += o.states; self.traces += o.traces; self.viol_count += o.viol_count;
        self.nontrivial_set.extend(o.nontrivial_set);
        self.outcomes.extend(o.outcomes);
        for v in o.violations {
            let same = self.violations.iter().filter(|x| x.sig == v.sig).count();
            if same < 4 && self.violations.len() < 200 { self.violations.push(v); }
        }
        for (k, n) in o.known_hits { *self.known_hits.entry(k).or_insert(0) += n; }
        for s in o.samples { if self.samples.len() < 8 { self.samples.push(s); } }
        if self.fallback.is_none() { self.fallback = o.fallback; }
        for (k, n) in o.counters { *self.counters.entry(k).or_insert(0) += n; }
    }
}

/// Parallel exhaustive sweep over `0..n`. Returns the merged accumulator and whether the wall cap was hit
/// (in which case `completed` indices were covered, as a prefix-union of chunks).
pub fn sweep<F>(ctx: &Ctx, n: u64, chunk: u64, f: F) -> (Acc, bool)
where F: Fn(u64, &mut Acc) + Sync {
    let next = AtomicU64::new(0);
    let capped = AtomicBool::new(false);
    let total = Mutex::new(Acc::default());
    let chunk = chunk.max(1);
    std::thread::scope(|s| {
        for _ in 0..ctx.threads {
            s.spawn(|| {
                let mut acc = Acc::default();
                loop {
                    if ctx.out_of_time() {
                        if next.load(Ordering::Relaxed) < n { capped.store(true, Ordering::Relaxed); }
                        break;
                    }
                    let st = next.fetch_add(chunk, Ordering::Relaxed);
                    if st >= n { break; }
                    let en = (st + chunk).min(n);
                    for i in st..en { f(i, &mut acc); }
                }
                total.lock().unwrap().merge(acc);
            });
        }
    });
    let capped = capped.load(Ordering::Relaxed);
    (total.into_inner().unwrap(), capped)
}

pub struct Report {
    pub acc: Acc,
    pub exhaustive: bool,
    pub rule: String,
    pub bounds: Vec<(String, Json)>,
    pub assumptions: Vec<String>,
    pub machinery_errors: Vec<String>,
}
impl Report {
    pub fn new(rule: &str) -> Self {
        Report { acc: Acc::default(), exhaustive: true, rule: rule.into(), bounds: vec![], assumptions: vec![], machinery_errors: vec![] }
    }
    pub fn bound(&mut self, k: &str, v: Json) { self.bounds.push((k.into(), v)); }
    pub fn assume(&mut self, s: &str) { self.assumptions.push(s.into()); }
    /// Non-vacuity assertion: failing it is a machinery error, not a pass.
    pub fn require(&mut self, cond: bool, what: &str) {
        if !cond { self.machinery_errors.push(format!("non-vacuity assertion failed: {what}")); }
    }
    pub fn absorb(&mut self, r: (Acc, bool)) { self.acc.merge(r.0); if r.1 { self.exhaustive = false; } }
}

// ---------------------------------------------------------------- known findings

pub struct Known { pub known: Vec<(String, String, String)>, pub fixed: Vec<(String, String)> }
pub fn load_known(path: &str) -> Known {
    let mut k = Known { known: vec![], fixed: vec![] };
    let Ok(txt) = std::fs::read_to_string(path) else { return k };
    for line in txt.lines() {
        let line = line.trim();
        if let Some(rest) = line.strip_prefix("known:") {
            let rest = rest.trim();
            let mut prop = String::new(); let mut sig = String::new(); let mut text = vec![];
            for tok in rest.split_whitespace() {
                if let Some(p) = tok.strip_prefix("property=") { if prop.is_empty() { prop = p.into(); continue; } }
                if let Some(s) = tok.strip_prefix("sig=") { if sig.is_empty() { sig = s.into(); continue; } }
                text.push(tok);
            }
            k.known.push((prop, sig, text.join(" ")));
        } else if let Some(rest) = line.strip_prefix("fixed:") {
            let rest = rest.trim();
            let prop = rest.split_whitespace().find_map(|t| t.strip_prefix("property=")).unwrap_or("").to_string();
            k.fixed.push((prop, rest.to_string()));
        }
    }
    k
}

// ---------------------------------------------------------------- explicit-state BFS over operation histories

/// Result of replaying one history on a fresh implementation object.
pub struct Visit { pub fingerprint: u64, pub violation: Option<(String, String)>, pub ops_applied: u64 }

/// Breadth-first search over histories of operations `0..alphabet`. A state *is* the history that reaches it; the real object is
/// rebuilt by replay. Successors are deduplicated by the fingerprint of the implementation state returned by `visit`.
/// Returns (states, transitions, frontier size at the depth bound, per-depth new-state counts).
pub fn bfs_hist<F>(ctx: &Ctx, acc_out: &mut Acc, alphabet: usize, depth: usize, case_of: &(dyn Fn(&[u16]) -> String + Sync), visit: F) -> (u64, u64, u64, Vec<u64>, bool)
where F: Fn(&[u16]) -> Visit + Sync {
    let mut seen: HashSet<u64> = HashSet::new();
    let root = visit(&[]);
    acc_out.evals += 1;
    if let Some((sig, d)) = root.violation { acc_out.violation(sig, case_of(&[]), d); }
    seen.insert(root.fingerprint);
    let mut frontier: Vec<Vec<u16>> = vec![vec![]];
    let mut states = 1u64; let mut transitions = 0u64; let mut per_depth = vec![1u64];
    let mut capped = false;
    for _d in 1..=depth {
        let found: Mutex<Vec<(u64, Vec<u16>)>> = Mutex::new(vec![]);
        let n = frontier.len() as u64 * alphabet as u64;
        let (acc, cap) = sweep(ctx, n, 16, |k, acc| {
            let h = &frontier[(k / alphabet as u64) as usize];
            let mut h2 = h.clone(); h2.push((k % alphabet as u64) as u16);
            let v = visit(&h2);
            acc.evals += 1; acc.transitions += v.ops_applied; acc.traces += 1;
            if let Some((sig, d)) = v.violation { acc.violation(sig, case_of(&h2), d); return; } // do not expand beyond a violating state
            acc.sample(k, ctx.seed, 10_007, || case_of(&h2));
            found.lock().unwrap().push((v.fingerprint, h2));
        });
        transitions += acc.evals;
        acc_out.merge(acc);
        if cap { capped = true; }
        let mut f = found.into_inner().unwrap();
        f.sort(); // deterministic choice of the representative history
        let mut next = vec![];
        for (fp, h) in f { if seen.insert(fp) { next.push(h); } }
        states += next.len() as u64; per_depth.push(next.len() as u64);
        frontier = next;
        if frontier.is_empty() || capped { break; }
    }
    (states, transitions, frontier.len() as u64, per_depth, capped)
}
