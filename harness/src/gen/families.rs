//! Deterministic program families (index -> abstract program), used by the assembler-side engines and for replay.
use super::prog::*;

/// Base programs for fault injection and object-file families: small, well-formed, covering every structural feature.
pub fn base_programs() -> Vec<(String, AProg)> {
    let mut v: Vec<(String, AProg)> = vec![];
    let f = |n: u16| Nuc::Fill(FillOp::Num(n));
    v.push(("empty".into(), vec![]));
    v.push(("empty block".into(), block(0x3000, vec![])));
    v.push(("one instr".into(), block(0x3000, vec![st(Nuc::Halt)])));
    v.push(("loop".into(), block(0x3000, vec![
        lst("START", Nuc::And(0, 0, RoI::Imm(0))), lst("Loop", Nuc::Add(0, 0, RoI::Imm(1))), st(Nuc::Br(1, lab("LOOP"))), st(Nuc::Ld(1, lab("data"))),
        st(Nuc::Halt), lst("DATA", f(0xBEEF)), lst("Buf", Nuc::Blkw(3)), lst("MSG", Nuc::Stringz("hi".into())),
    ])));
    v.push(("subroutine".into(), block(0x4000, vec![
        st(Nuc::Jsr(lab("SUB"))), st(Nuc::Lea(0, lab("S"))), st(Nuc::Puts), st(Nuc::Halt),
        lst("SUB", Nuc::St(7, lab("SAVE"))), st(Nuc::Ldi(2, lab("PTR"))), st(Nuc::Sti(2, lab("PTR"))), st(Nuc::Ld(7, lab("SAVE"))), st(Nuc::Ret),
        lst("SAVE", Nuc::Blkw(1)), lst("PTR", Nuc::Fill(FillOp::Lab("S".into()))), lst("S", Nuc::Stringz("a\"\\\n".into())),
    ])));
    let mut two = block(0x3000, vec![lst("A", Nuc::Ld(0, lab("B"))), lst("B", f(1))]);
    two.extend(block(0x3010, vec![lst("C", Nuc::Fill(FillOp::Lab("A".into()))), lst("D", Nuc::Fill(FillOp::Lab("c".into())))]));
    v.push(("two blocks".into(), two));
    let mut unsorted = block(0x8000, vec![lst("HI", f(2)), st(Nuc::Nop(Some(lab("HI"))))]);
    unsorted.extend(block(0x0200, vec![lst("LO", Nuc::Fill(FillOp::Lab("HI".into())))]));
    unsorted.extend(block(0x3000, vec![lst("MID", Nuc::Jsr(lab("MID")))]));
    v.push(("three blocks unsorted".into(), unsorted));
    v.push(("labels on end".into(), { let mut p = block(0x3000, vec![lst("X", Nuc::Lea(0, lab("E"))), st(Nuc::Br(7, lab("e")))]); p.last_mut().unwrap().labels = vec!["E".into()]; p }));
    v.push(("multi labels".into(), block(0x3000, vec![AStmt { labels: vec!["P".into(), "Q".into(), "p".into()], nuc: Nuc::Add(1, 1, RoI::Reg(1)) }, st(Nuc::Br(2, lab("q"))), lst("R_", Nuc::Getc)])));
    v.push(("external before".into(), { let mut p = vec![st(Nuc::External("EXT".into()))]; p.extend(block(0x3000, vec![lst("U", Nuc::Fill(FillOp::Lab("EXT".into()))), st(Nuc::Halt)])); p }));
    v.push(("external inside".into(), block(0x3000, vec![st(Nuc::Halt), st(Nuc::External("Ext".into())), lst("U", Nuc::Fill(FillOp::Lab("ext".into()))), st(f(3))])));
    v.push(("external after".into(), { let mut p = block(0x3000, vec![lst("U", Nuc::Fill(FillOp::Lab("EXT".into()))), st(Nuc::Halt)]); p.push(st(Nuc::External("EXT".into()))); p }));
    v.push(("external two uses".into(), { let mut p = vec![st(Nuc::External("E1".into())), st(Nuc::External("E2".into()))];
        p.extend(block(0x3000, vec![st(Nuc::Fill(FillOp::Lab("E1".into()))), st(Nuc::Fill(FillOp::Lab("E2".into()))), st(Nuc::Fill(FillOp::Lab("e1".into())))])); p }));
    v.push(("low memory".into(), block(0x0000, vec![lst("Z", f(0)), st(Nuc::Ld(0, lab("Z")))])));
    v.push(("label at zero and external".into(), { let mut p = vec![]; p.extend(block(0x0000, vec![lst("Z0", f(5))])); p.push(st(Nuc::External("Z0".into()))); p }));
    v.push(("ends at fence".into(), block(0xFDFC, vec![lst("F0", f(1)), st(f(2)), st(f(3)), lst("F3", Nuc::Br(7, lab("F0")))])));
    v.push(("blkw to fence".into(), block(0xFD00, vec![st(Nuc::Blkw(0xFF)), lst("LAST", f(9))])));
    v.push(("big stringz".into(), block(0x5000, vec![lst("S", Nuc::Stringz("The quick brown fox; \"jumps\" \\ over\tthe lazy dog\n".into())), lst("AFTER", Nuc::Lea(0, lab("S")))])));
    v.push(("long stringz".into(), block(0x3000, vec![lst("BEFORE", Nuc::Lea(0, lab("S"))), lst("S", Nuc::Stringz("0123456789abcdef".repeat(20))), lst("AFTER", Nuc::Fill(FillOp::Lab("S".into()))), st(Nuc::Fill(FillOp::Lab("after".into())))])));
    v.push(("many statements".into(), { let mut b = vec![lst("TOP", Nuc::Jsr(lab("BOTTOM")))]; for k in 0..300u16 { b.push(st(Nuc::Add((k % 8) as u8, ((k / 8) % 8) as u8, RoI::Imm((k % 31) as i16 - 15)))); } b.push(lst("BOTTOM", Nuc::Jsr(lab("TOP")))); b.push(st(Nuc::Fill(FillOp::Lab("bottom".into())))); block(0x7F00, b) }));
    v.push(("blkw then labels".into(), block(0x3000, vec![lst("B0", Nuc::Blkw(0x100)), lst("B1", Nuc::Blkw(0x7FFF)), lst("B2", Nuc::Fill(FillOp::Lab("B1".into()))), lst("B3", Nuc::Halt)])));
    v.push(("traps".into(), block(0x3000, vec![st(Nuc::Getc), st(Nuc::Out), st(Nuc::Putc), st(Nuc::Puts), st(Nuc::In), st(Nuc::Putsp), st(Nuc::Trap(0x26)), st(Nuc::Rti), st(Nuc::Halt)])));
    v
}

/// Single-fault (deviation 1) mutations of a program. Returns (description, program).
pub fn faults(base: &AProg) -> Vec<(String, AProg)> {
    let mut v: Vec<(String, AProg)> = vec![];
    let n = base.len();
    let label_defs: Vec<String> = base.iter().flat_map(|s| s.labels.clone()).collect();
    for i in 0..n {
        let mut p = base.clone(); p.remove(i); v.push((format!("delete {i}"), p));
        let mut p = base.clone(); p.insert(i, base[i].clone()); v.push((format!("duplicate {i}"), p));
        if i + 1 < n { let mut p = base.clone(); p.swap(i, i + 1); v.push((format!("swap {i}"), p)); }
        // move to front / to back
        let mut p = base.clone(); let s = p.remove(i); p.insert(0, s); v.push((format!("move {i} front"), p));
        let mut p = base.clone(); let s = p.remove(i); p.push(s); v.push((format!("move {i} back"), p));
    }
    for i in 0..=n {
        for (d, s) in [
            ("orig x6000", st(Nuc::Orig(0x6000))), ("end", st(Nuc::End)), ("labelled end", lst("NEWL", Nuc::End)),
            ("halt", st(Nuc::Halt)), ("labelled fill", lst("NEWL", Nuc::Fill(FillOp::Num(1)))),
            ("external NEWL", st(Nuc::External("NEWL".into()))), ("undefined use", st(Nuc::Ld(0, lab("NOSUCH")))),
            ("undefined fill", st(Nuc::Fill(FillOp::Lab("NOSUCH".into())))),
            ("blkw big", st(Nuc::Blkw(0x0200))), ("blkw huge", st(Nuc::Blkw(0xFFFF))),
        ] {
            let mut p = base.clone(); p.insert(i, s); v.push((format!("insert {d} at {i}"), p));
        }
        for l in label_defs.iter().take(3) {
            let flipped: String = l.chars().map(|c| if c.is_ascii_uppercase() { c.to_ascii_lowercase() } else { c.to_ascii_uppercase() }).collect();
            let mut p = base.clone(); p.insert(i, lst(&flipped, Nuc::Fill(FillOp::Num(0)))); v.push((format!("redefine {flipped} at {i}"), p));
            let mut p = base.clone(); p.insert(i, st(Nuc::External(flipped.clone()))); v.push((format!("declare {flipped} external at {i}"), p));
            let mut p = base.clone(); p.insert(i, st(Nuc::Br(0, lab(&flipped)))); v.push((format!("BR {flipped} at {i}"), p));
        }
    }
    // operand retargeting
    for i in 0..n {
        if base[i].nuc.label_operand().is_some() {
            for t in ["NOSUCH", "EXT", "E1"] {
                let mut p = base.clone();
                p[i].nuc = retarget(&p[i].nuc, t);
                v.push((format!("retarget {i} -> {t}"), p));
            }
        }
        if let Nuc::Orig(a) = base[i].nuc {
            for na in [0xFDFFu16, 0xFE00, 0xFFFF, 0x3000, 0x3001, 0x0000, a.wrapping_add(1), a.wrapping_sub(1)] {
                let mut p = base.clone(); p[i].nuc = Nuc::Orig(na); v.push((format!("orig {i} -> x{na:04X}"), p));
            }
        }
    }
    v
}
pub fn retarget(n: &Nuc, t: &str) -> Nuc {
    let l = lab(t);
    match n {
        Nuc::Br(m, _) => Nuc::Br(*m, l), Nuc::Jsr(_) => Nuc::Jsr(l), Nuc::Ld(r, _) => Nuc::Ld(*r, l), Nuc::Ldi(r, _) => Nuc::Ldi(*r, l),
        Nuc::Lea(r, _) => Nuc::Lea(*r, l), Nuc::St(r, _) => Nuc::St(*r, l), Nuc::Sti(r, _) => Nuc::Sti(*r, l), Nuc::Nop(_) => Nuc::Nop(Some(l)),
        Nuc::Fill(_) => Nuc::Fill(FillOp::Lab(t.to_string())), other => other.clone(),
    }
}

/// Fence-post programs: blocks ending exactly at / one past xFE00 and x10000 via instructions, .blkw and .stringz.
pub fn fence_programs() -> Vec<(String, AProg)> {
    let mut v = vec![];
    for (o, target) in [(0xFDF0u32, 0xFE00u32), (0xFFF0, 0x10000), (0xFE00, 0xFE00), (0xFFFF, 0x10000), (0x0000, 0xFE00), (0x0001, 0x10000)] {
        for delta in [-1i64, 0, 1, 2] {
            let need = target as i64 - o as i64 + delta;
            if need < 0 || need > 0x10001 { continue; }
            let need = need as u32;
            // by .blkw (+ one instruction when possible)
            if need >= 1 && need <= 0xFFFF { v.push((format!("blkw x{o:04X} size {need}"), block(o as u16, vec![st(Nuc::Blkw(need as u16))]))); }
            if need >= 2 && need - 1 <= 0xFFFF { v.push((format!("blkw+instr x{o:04X} size {need}"), block(o as u16, vec![st(Nuc::Blkw((need - 1) as u16)), lst("L", Nuc::Halt)]))); }
            if need >= 2 && need - 1 <= 0xFFFF { v.push((format!("instr+blkw x{o:04X} size {need}"), block(o as u16, vec![lst("L", Nuc::Halt), st(Nuc::Blkw((need - 1) as u16))]))); }
            if need >= 1 && need <= 40 { v.push((format!("stringz x{o:04X} size {need}"), block(o as u16, vec![st(Nuc::Stringz("s".repeat(need as usize - 1)))]))); }
            // strings of multi-byte characters (one word per UTF-8 byte): 2-, 3- and 4-byte characters filling the same sizes
            for (ch, w) in [('é', 2u32), ('€', 3), ('𝄞', 4)] { if need >= 1 && need <= 40 && (need - 1) % w == 0 { v.push((format!("stringz of {w}-byte characters x{o:04X} size {need}"), block(o as u16, vec![st(Nuc::Stringz(std::iter::repeat(ch).take(((need - 1) / w) as usize).collect()))]))); } }
            if need <= 20 { v.push((format!("instrs x{o:04X} size {need}"), block(o as u16, (0..need).map(|_| st(Nuc::Nop(None))).collect()))); }
            if need >= 1 && need - 1 <= 0xFFFF && need >= 2 { v.push((format!("label at end x{o:04X} size {need}"), { let mut p = block(o as u16, vec![st(Nuc::Blkw((need - 1) as u16)), st(Nuc::Halt)]); p.last_mut().unwrap().labels = vec!["ENDL".into()]; p })); }
        }
    }
    // two .blkw that only together cross the fence / wrap twice
    v.push(("two blkw wrap".into(), block(0x8000, vec![st(Nuc::Blkw(0x7E00)), st(Nuc::Blkw(0x0001))])));
    v.push(("two blkw exact".into(), block(0x8000, vec![st(Nuc::Blkw(0x7000)), st(Nuc::Blkw(0x0E00))])));
    v.push(("blkw wrap far".into(), block(0x8000, vec![st(Nuc::Blkw(0xFFFF)), st(Nuc::Blkw(0xFFFF)), st(Nuc::Halt)])));
    v.push(("empty at top".into(), block(0xFFFF, vec![])));
    v.push(("label only at fence".into(), { let mut p = block(0xFE00, vec![]); p.last_mut().unwrap().labels = vec!["TOP".into()]; p }));
    v
}

/// Label-focused programs for C23: mixed case, several labels per statement, repeated labels at one address, labels on .end, externals.
/// valid label names that look like something else
pub const LOOKALIKE: [&str; 40] = ["B0", "B1", "b10", "B101", "b2", "O7", "o17", "D9", "d10", "H1F", "Q7", "ADDX", "BRX", "BRNZPX", "NOPE", "ENDX", "HALTS", "RETURN", "RR", "XG", "XYZ", "PC", "N", "Z", "P", "NZP", "FILL", "BLKW", "END", "ORIG", "STRINGZ", "EXTERNAL", "GETCH", "TRAPX", "_1", "A1B2", "E5", "F", "AF", "R"];
pub fn label_programs() -> Vec<(String, AProg)> {
    let mut v = vec![];
    // several labels on one statement, one of them (first / middle / last, same or other letter case) declared again at another address
    for (ls, dup) in [(vec!["LA", "LB"], "LB"), (vec!["LA", "LB"], "la"), (vec!["LA", "LB", "LC"], "lc"), (vec!["LA", "LB", "LC"], "LB"), (vec!["START", "LOOP"], "LOOP"), (vec!["LA", "LB", "LC", "LD_"], "Lc")] {
        v.push((format!("labels {ls:?}, {dup} declared again"), block(0x3000, vec![AStmt { labels: ls.iter().map(|s| s.to_string()).collect(), nuc: Nuc::Halt }, st(Nuc::Halt), lst(dup, Nuc::Halt)])));
        v.push((format!("{dup} declared, then again among labels {ls:?}"), block(0x3000, vec![lst(dup, Nuc::Halt), st(Nuc::Halt), AStmt { labels: ls.iter().map(|s| s.to_string()).collect(), nuc: Nuc::Halt }])));
    }
    let names = ["a", "Zz", "LOOP_1", "mIxEd", "_u", "Q9"];
    for (i, n) in names.iter().enumerate() {
        for origin in [0x0000u16, 0x3000, 0xFDFE] {
            let other = names[(i + 1) % names.len()];
            v.push((format!("single {n} x{origin:04X}"), block(origin, vec![lst(n, Nuc::Add(0, 0, RoI::Reg(0))), lst(other, Nuc::Fill(FillOp::Lab(n.to_ascii_uppercase())))])));
            v.push((format!("same-address repeat {n}"), block(origin, vec![AStmt { labels: vec![n.to_string(), n.to_ascii_uppercase(), n.to_ascii_lowercase(), other.to_string()], nuc: Nuc::Halt }])));
            v.push((format!("repeat across zero-size {n}"), { let mut p = block(origin, vec![st(Nuc::Halt)]); p.insert(2, lst(n, Nuc::External("OUTSIDE".into()))); p.last_mut().unwrap().labels = vec![n.to_ascii_uppercase(), other.into()]; p }));
            v.push((format!("external {n}"), { let mut p = vec![st(Nuc::External(n.to_string()))]; p.extend(block(origin, vec![lst(other, Nuc::Fill(FillOp::Lab(n.to_ascii_lowercase())))])); p.push(st(Nuc::External(n.to_ascii_uppercase()))); p }));
        }
    }
    v
}

/// Scale family ("BIG"): the same grammar beyond the small scope, sized to cross representation thresholds (2^5, 2^6, 2^8, 2^12, 2^15.., 2^16)
/// in every count the assembler and the debug tables keep: label length, labels, blocks, statements, lines (with the gap styles), initialized
/// runs, relocation entries.
pub fn big_programs() -> Vec<(String, AProg)> {
    let mut v: Vec<(String, AProg)> = vec![];
    // long label names: a definition, uses through every kind of operand in other letter case, and a second label equal to its first n-1 characters
    for n in [31usize, 32, 33, 34, 63, 64, 65, 66, 255, 256, 257, 300, 1000] {
        let name: String = (0..n).map(|k| if k == 0 { 'L' } else { [b'a', b'B', b'c', b'_', b'9'][k % 5] as char }).collect();
        let prefix = name[..n - 1].to_string();
        v.push((format!("label of {n} bytes"), block(0x3000, vec![
            lst(&name, Nuc::Add(0, 0, RoI::Reg(0))), lst(&prefix, Nuc::Halt), st(Nuc::Ld(1, lab(&name.to_ascii_lowercase()))), st(Nuc::Br(7, lab(&name.to_ascii_uppercase()))),
            st(Nuc::Fill(FillOp::Lab(name.clone()))), st(Nuc::Fill(FillOp::Lab(prefix.to_ascii_lowercase()))), st(Nuc::Lea(2, lab(&prefix)))])));
        v.push((format!("label of {n} bytes declared twice"), block(0x3000, vec![lst(&name, Nuc::Halt), st(Nuc::Halt), lst(&name.to_ascii_lowercase(), Nuc::Halt)])));
        v.push((format!("undefined label of {n} bytes whose prefix is defined"), block(0x3000, vec![lst(&prefix, Nuc::Halt), st(Nuc::Ld(0, lab(&name)))])));
    }
    // many one-word blocks, each with a label that the next block refers to
    for nb in [20u32, 255, 256, 257, 700, 1400] {
        let mut p = vec![];
        for k in 0..nb { p.extend(block(0x3000 + 2 * k as u16, vec![lst(&format!("B{k}"), Nuc::Fill(FillOp::Lab(format!("b{}", (k + 1) % nb))))])); }
        v.push((format!("{nb} one-word blocks"), p));
    }
    // many labelled statements in one block (labels, statements and lines past 255 / 256 / 4096)
    for ns in [255u32, 256, 257, 300, 4097] {
        let body: Vec<AStmt> = (0..ns).map(|k| lst(&format!("S{k}"), if k % 3 == 0 { Nuc::Fill(FillOp::Lab(format!("s{}", (k * 7 + 1) % ns))) } else if k % 3 == 1 { Nuc::Add((k % 8) as u8, 1, RoI::Imm((k % 16) as i16 - 8)) } else { Nuc::Fill(FillOp::Num(k as u16)) })).collect();
        v.push((format!("{ns} labelled statements"), block(0x3000, body)));
    }
    // long initialized runs (string literals) followed by another statement, and big reserved regions
    for n in [255usize, 256, 4095, 4096, 4097, 5000, 32767, 32768] {
        v.push((format!("stringz of {n} characters"), block(0x3000, vec![lst("S", Nuc::Stringz("ab~".repeat(n / 3 + 1)[..n].to_string())), lst("AFTER", Nuc::Fill(FillOp::Lab("s".into())))])));
    }
    // strings of characters that are printed as two-byte escapes (the printed literal is twice as long as the string)
    for n in [32767usize, 32768, 40000] { v.push((format!("stringz of {n} tabs"), block(0x3000, vec![lst("S", Nuc::Stringz("\t".repeat(n))), st(Nuc::Halt)]))); }
    for n in [0x5555u16, 0x5556, 0x8000, 0xCDFF] { v.push((format!("blkw x{n:04X} then a word"), block(0x3000, vec![st(Nuc::Blkw(n)), lst("AFTER", Nuc::Fill(FillOp::Num(0xABCD)))]))); }
    // many labels stacked on one statement
    for n in [16usize, 64, 300] { v.push((format!("{n} labels on one statement"), block(0x3000, vec![AStmt { labels: (0..n).map(|k| format!("T{k}")).collect(), nuc: Nuc::Halt }, st(Nuc::Br(7, lab(&format!("t{}", n - 1))))]))); }
    // many uses of externals: declarations before and after the uses
    for (ne, nf, after) in [(1usize, 64usize, true), (1, 65, true), (1, 65, false), (6, 8, true), (3, 40, false), (2, 300, true)] {
        let mut body = vec![]; for f in 0..nf { for e in 0..ne { body.push(st(Nuc::Fill(FillOp::Lab(format!("{}{e}", if f % 2 == 0 { "EXT" } else { "ext" }))))); } }
        let decls: Vec<AStmt> = (0..ne).map(|e| st(Nuc::External(format!("Ext{e}")))).collect();
        let mut p = vec![]; if !after { p.extend(decls.clone()); } p.extend(block(0x5000, body)); if after { p.extend(decls); }
        v.push((format!("{ne} externals x {nf} fills, declared {}", if after { "after" } else { "before" }), p));
    }
    v
}

// ------------------------------------------------------------------ family registry (index -> program), shared by run and replay

pub struct Families {
    pub l1: Vec<Nuc>,
    pub lim: Vec<(String, AProg)>,
    pub blk: Vec<(String, AProg)>,
    pub base: Vec<(String, AProg)>,
    pub fence: Vec<(String, AProg)>,
    pub lab: Vec<(String, AProg)>,
    pub f1: Vec<(String, AProg)>,
    /// programs whose labels contain non-ASCII letters (spelled identically everywhere) and their single faults
    pub uni: Vec<(String, AProg)>,
    pub big: Vec<(String, AProg)>,
    /// every alphanumeric Unicode scalar value that has a different upper- or lower-case form (all cased letters, incl. the title-case ones)
    pub case_chars: Vec<char>,
}
impl Families {
    pub fn new() -> Self {
        let base = base_programs();
        let mut f1 = vec![];
        for (bn, b) in &base { for (d, p) in faults(b) { f1.push((format!("{bn}: {d}"), p)); } }
        let uni_base: Vec<AProg> = vec![
            block(0x3000, vec![lst("DONNÉES", Nuc::Ld(0, lab("café"))), st(Nuc::Br(7, lab("DONNÉES"))), lst("café", Nuc::Fill(FillOp::Lab("DONNÉES".into()))), lst("n_ñ1", Nuc::Halt)]),
            { let mut p = vec![st(Nuc::External("Unï".into()))]; p.extend(block(0x4000, vec![lst("Omegaω", Nuc::Fill(FillOp::Lab("Unï".into()))), st(Nuc::Jsr(lab("Omegaω")))])); p },
        ];
        let mut uni = vec![];
        for (k, b) in uni_base.iter().enumerate() { uni.push((format!("unicode {k}"), b.clone())); for (d, p) in faults(b) { uni.push((format!("unicode {k}: {d}"), p)); } }
        Families { case_chars: (0u32..0x110000).filter_map(char::from_u32).filter(|c| c.is_alphanumeric() && (c.to_uppercase().ne(std::iter::once(*c)) || c.to_lowercase().ne(std::iter::once(*c)))).collect(), uni, big: big_programs(), l1: single_statements(), lim: offset_limit_programs(), blk: block_layouts(), base, fence: fence_programs(), lab: label_programs(), f1 }
    }
    pub fn len(&self, fam: &str) -> u64 {
        match fam {
            "L1" => (self.l1.len() * ORIGINS.len()) as u64,
            "S1" => SeqSpace::new(1).count() * 3, "S2" => SeqSpace::new(2).count() * 3, "S3" => SeqSpace::new(3).count() * 3,
            "LIM" => self.lim.len() as u64, "BLK" => self.blk.len() as u64, "BASE" => self.base.len() as u64,
            "FENCE" => self.fence.len() as u64, "LAB" => self.lab.len() as u64, "F1" => self.f1.len() as u64, "UNI" => self.uni.len() as u64, "BIG" => self.big.len() as u64,
            "F2" => (self.f1.len() as u64) * 400,
            "STR" => 1 + 12 + 144 + 1728 + 20736,
            "CASE" => self.case_chars.len() as u64 * 4,
            "NAMES" => (LOOKALIKE.len() * 9 * 2) as u64,
            _ => 0,
        }
    }
    pub fn get(&self, fam: &str, i: u64) -> Option<AProg> {
        match fam {
            "L1" => { let n = self.l1.len() as u64; let o = ORIGINS[(i / n) as usize]; Some(block(o, vec![st(self.l1[(i % n) as usize].clone())])) }
            "S1" | "S2" | "S3" => { let n = fam[1..].parse::<usize>().ok()?; let sp = SeqSpace::new(n); let c = sp.count(); sp.nth(i % c, [0x3000u16, 0x0000, 0xFDF0][(i / c % 3) as usize], (i / c % 3) as u8) }
            "LIM" => self.lim.get(i as usize).map(|x| x.1.clone()),
            "BLK" => self.blk.get(i as usize).map(|x| x.1.clone()),
            "BASE" => self.base.get(i as usize).map(|x| x.1.clone()),
            "FENCE" => self.fence.get(i as usize).map(|x| x.1.clone()),
            "LAB" => self.lab.get(i as usize).map(|x| x.1.clone()),
            "F1" => self.f1.get(i as usize).map(|x| x.1.clone()),
            "UNI" => self.uni.get(i as usize).map(|x| x.1.clone()),
            "BIG" => self.big.get(i as usize).map(|x| x.1.clone()),
            "STR" => {
                const A: [char; 12] = ['a', ' ', '\t', '\n', '\r', '\0', '"', '\\', ';', 'é', 'n', '0'];
                let (len, mut k) = if i < 1 { (0, 0) } else if i < 13 { (1, i - 1) } else if i < 157 { (2, i - 13) } else if i < 1885 { (3, i - 157) } else { (4, i - 1885) };
                let mut lit = String::new();
                for _ in 0..len { lit.push(A[(k % 12) as usize]); k /= 12; }
                Some(block(0x3000, vec![lst("S", Nuc::Stringz(lit)), st(Nuc::Lea(0, lab("S")))]))
            }
            // label names whose spelling resembles another token class (numeric notations of other assemblers, mnemonic/directive/register
            // look-alikes), in every label-operand position, defined before and after the use
            "NAMES" => {
                let name = *LOOKALIKE.get((i / 18) as usize)?;
                let use_ = match i % 9 { 0 => Nuc::Br(7, lab(name)), 1 => Nuc::Ld(1, lab(name)), 2 => Nuc::Lea(2, lab(name)), 3 => Nuc::Jsr(lab(name)), 4 => Nuc::Fill(FillOp::Lab(name.to_string())), 5 => Nuc::St(3, lab(name)), 6 => Nuc::Ldi(4, lab(name)), 7 => Nuc::Sti(5, lab(name)), _ => Nuc::Br(2, lab(name)) };
                Some(if i / 9 % 2 == 0 { block(0x3000, vec![st(Nuc::Halt), lst(name, Nuc::Add(0, 0, RoI::Reg(0))), st(Nuc::Halt), st(use_)]) } else { block(0x3000, vec![st(use_), st(Nuc::Halt), st(Nuc::Halt), lst(name, Nuc::Fill(FillOp::Num(7)))]) })
            }
            // label spellings that differ only by the case of one letter, for every cased letter of Unicode: defined in one spelling and used
            // (or defined again elsewhere) in its upper-/lower-case spelling
            "CASE" => {
                let c = *self.case_chars.get((i / 4) as usize)?;
                let d = format!("L{c}");
                let (u, l) = (d.to_uppercase(), d.to_lowercase());
                Some(match i % 4 {
                    0 => block(0x3000, vec![lst(&d, Nuc::Add(0, 0, RoI::Reg(0))), lst("OTHER", Nuc::Fill(FillOp::Lab(u)))]),
                    1 => block(0x3000, vec![lst(&d, Nuc::Add(0, 0, RoI::Reg(0))), lst("OTHER", Nuc::Fill(FillOp::Lab(l)))]),
                    2 => block(0x3000, vec![lst(&d, Nuc::Halt), st(Nuc::Halt), lst(&u, Nuc::Halt)]),
                    _ => block(0x3000, vec![lst(&l, Nuc::Ld(1, lab(&d))), st(Nuc::Halt), lst(&u, Nuc::Halt)]),
                })
            }
            "F2" => { let b = self.f1.get((i / 400) as usize)?; if b.1.len() > 9 { return None; } let fs = faults(&b.1); fs.get((i % 400) as usize * (fs.len() / 400).max(1)).map(|x| x.1.clone()) }
            _ => None,
        }
    }
}
