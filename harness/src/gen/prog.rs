//! Abstract LC-3 programs, a renderer to source text under a surface-syntax style, and
//! enumerators over the statement grammar.
use std::fmt::Write as _;

#[derive(Clone, Debug, PartialEq, Eq, Hash)]
pub enum Tgt { Off(i16), Lab(String) }

#[derive(Clone, Debug, PartialEq, Eq, Hash)]
pub enum RoI { Reg(u8), Imm(i16) }

#[derive(Clone, Debug, PartialEq, Eq, Hash)]
pub enum FillOp { Num(u16), Lab(String) }

/// Statement nucleus. Register fields are 0..=7.
#[derive(Clone, Debug, PartialEq, Eq, Hash)]
pub enum Nuc {
    Add(u8, u8, RoI), And(u8, u8, RoI), Not(u8, u8),
    /// mnemonic index 0..8: BR, BRn, BRz, BRp, BRnz, BRnp, BRzp, BRnzp
    Br(u8, Tgt),
    Jmp(u8), Jsr(Tgt), Jsrr(u8),
    Ld(u8, Tgt), Ldi(u8, Tgt), Lea(u8, Tgt), St(u8, Tgt), Sti(u8, Tgt),
    Ldr(u8, u8, i16), Str(u8, u8, i16),
    Ret, Rti, Trap(u8), Nop(Option<Tgt>),
    Getc, Out, Putc, Puts, In, Putsp, Halt,
    Orig(u16), End, Fill(FillOp), Blkw(u16), Stringz(String), External(String),
}
pub const BR_MNEMONICS: [(&str, u8); 8] = [("BR", 7), ("BRn", 4), ("BRz", 2), ("BRp", 1), ("BRnz", 6), ("BRnp", 5), ("BRzp", 3), ("BRnzp", 7)];

#[derive(Clone, Debug, PartialEq, Eq, Hash)]
pub struct AStmt { pub labels: Vec<String>, pub nuc: Nuc }
pub type AProg = Vec<AStmt>;

pub fn st(nuc: Nuc) -> AStmt { AStmt { labels: vec![], nuc } }
pub fn lst(label: &str, nuc: Nuc) -> AStmt { AStmt { labels: vec![label.to_string()], nuc } }
pub fn lab(s: &str) -> Tgt { Tgt::Lab(s.to_string()) }

impl Nuc {
    /// Number of memory words the statement occupies.
    pub fn size(&self) -> u32 {
        match self {
            Nuc::Orig(_) | Nuc::End | Nuc::External(_) => 0,
            Nuc::Blkw(n) => *n as u32,
            Nuc::Stringz(s) => s.len() as u32 + 1,
            _ => 1,
        }
    }
    pub fn label_operand(&self) -> Option<&str> {
        match self {
            Nuc::Br(_, Tgt::Lab(l)) | Nuc::Jsr(Tgt::Lab(l)) | Nuc::Ld(_, Tgt::Lab(l)) | Nuc::Ldi(_, Tgt::Lab(l)) | Nuc::Lea(_, Tgt::Lab(l))
            | Nuc::St(_, Tgt::Lab(l)) | Nuc::Sti(_, Tgt::Lab(l)) | Nuc::Nop(Some(Tgt::Lab(l))) | Nuc::Fill(FillOp::Lab(l)) => Some(l),
            _ => None,
        }
    }
}

// ------------------------------------------------------------------ style

#[derive(Clone, Copy, Debug, PartialEq, Eq)]
pub enum Case { Upper, Lower, Mixed }
#[derive(Clone, Copy, Debug, PartialEq, Eq)]
pub enum NumStyle { Dec, HashDec, Hex }
#[derive(Clone, Copy, Debug, PartialEq, Eq)]
pub enum Sep { Space, Tab, Wide }
#[derive(Clone, Copy, Debug, PartialEq, Eq)]
pub enum LabelStyle { SameLine, SameLineColon, OwnLine, OwnLineColon }
#[derive(Clone, Copy, Debug, PartialEq, Eq)]
pub enum LineStyle { PlainLf, CommentsCrlf, BlankAndCommentLines }

#[derive(Clone, Debug, PartialEq)]
pub struct Style {
    pub kw: Case, pub reg_upper: bool, pub dir: Case, pub hex_upper: bool, pub num: NumStyle, pub sep: Sep,
    pub label: LabelStyle, pub line: LineStyle,
    // secondary dimensions
    pub comma: u8,            // 0 "," 1 ", " 2 " , " 3 " ,\t"
    pub payload: u8,          // comment payload index
    pub leading_blank: bool,
    pub final_newline: bool,
    pub indent: bool,
    /// scale dimension: `gap.0` comment-only lines are inserted before every statement whose index is `gap.2` modulo `gap.1` (0 lines = none)
    pub gap: (u32, u32, u32),
}
/// gap codes selectable through the secondary index (secondary = base + SECONDARY * code)
pub const GAPS: [(u32, u32, u32); 7] = [(0, 1, 0), (256, 3, 0), (255, 3, 0), (300, 4, 1), (16, 1, 0), (1000, 5, 2), (257, 2, 1)];
pub const PAYLOADS: [&str; 13] = ["; c", "; \" unbalanced quote", ";.end", ";; LD R0, X : ,", ";",
    // comment texts outside ASCII (selected through secondary codes >= GAPS.len(): secondary = base + SECONDARY * (GAPS.len() + k))
    "; é", ";é", "; naïve — “quoted” ñ LOOP", "; ascii then two-byte at the end é", "; 𝄞 four bytes ADD R0,R0,#1", "; tab\tthen é\tx", ";\u{00A0}nbsp \u{3000}wide", "; ß İ ǅ ﬁ"];
/// number of payloads reachable through the ordinary secondary index
pub const BASIC_PAYLOADS: u64 = 5;
impl Style {
    pub fn plain() -> Style {
        Style { kw: Case::Upper, reg_upper: true, dir: Case::Lower, hex_upper: false, num: NumStyle::Hex, sep: Sep::Space,
                label: LabelStyle::SameLine, line: LineStyle::PlainLf, comma: 1, payload: 0, leading_blank: false, final_newline: true, indent: false, gap: (0, 1, 0) }
    }
    /// Full product of the 8 primary dimensions: 3*2*3*2*3*3*4*3 = 3888 styles.
    pub const PRIMARY: u64 = 3 * 2 * 3 * 2 * 3 * 3 * 4 * 3;
    pub fn primary(mut i: u64) -> Style {
        let mut s = Style::plain();
        let mut take = |n: u64| { let r = i % n; i /= n; r };
        s.kw = [Case::Upper, Case::Lower, Case::Mixed][take(3) as usize];
        s.reg_upper = take(2) == 0;
        s.dir = [Case::Lower, Case::Upper, Case::Mixed][take(3) as usize];
        s.hex_upper = take(2) == 1;
        s.num = [NumStyle::Hex, NumStyle::Dec, NumStyle::HashDec][take(3) as usize];
        s.sep = [Sep::Space, Sep::Tab, Sep::Wide][take(3) as usize];
        s.label = [LabelStyle::SameLine, LabelStyle::SameLineColon, LabelStyle::OwnLine, LabelStyle::OwnLineColon][take(4) as usize];
        s.line = [LineStyle::PlainLf, LineStyle::CommentsCrlf, LineStyle::BlankAndCommentLines][take(3) as usize];
        s
    }
    /// Secondary dimensions varied one and two at a time: comma(4) payload(5) leading_blank(2) final_newline(2) indent(2).
    pub const SECONDARY: u64 = 4 * 5 * 2 * 2 * 2;
    pub fn with_secondary(&self, mut i: u64) -> Style {
        let mut s = self.clone();
        let code = (i / Self::SECONDARY) as usize;
        s.gap = GAPS[if code < GAPS.len() { code } else { 0 }]; i %= Self::SECONDARY;
        let extra = if code >= GAPS.len() { Some((code - GAPS.len()).min(PAYLOADS.len() - BASIC_PAYLOADS as usize - 1)) } else { None };
        let mut take = |n: u64| { let r = i % n; i /= n; r };
        s.comma = take(4) as u8; s.payload = take(5) as u8; if let Some(e) = extra { s.payload = BASIC_PAYLOADS as u8 + e as u8; } s.leading_blank = take(2) == 1; s.final_newline = take(2) == 0; s.indent = take(2) == 1;
        s
    }
    /// number of secondary dimensions that differ from the defaults of `plain()`
    pub fn secondary_weight(i: u64) -> u32 {
        let mut i = i; let mut w = 0;
        let defaults = [1u64, 0, 0, 0, 0]; let radix = [4u64, 5, 2, 2, 2];
        for k in 0..5 { if i % radix[k] != defaults[k] { w += 1; } i /= radix[k]; }
        w
    }
}

fn cased(s: &str, c: Case) -> String {
    match c {
        Case::Upper => s.to_ascii_uppercase(),
        Case::Lower => s.to_ascii_lowercase(),
        Case::Mixed => s.chars().enumerate().map(|(i, ch)| if i % 2 == 0 { ch.to_ascii_lowercase() } else { ch.to_ascii_uppercase() }).collect(),
    }
}

/// Result of rendering: text plus the bookkeeping that oracles compare against.
#[derive(Clone, Debug, Default)]
pub struct Rendered {
    pub text: String,
    /// per statement: byte span of the nucleus
    pub spans: Vec<std::ops::Range<usize>>,
    /// per statement: 0-based line of the nucleus' first byte
    pub lines: Vec<usize>,
    /// per statement, per label: byte span of the label text
    pub label_spans: Vec<Vec<std::ops::Range<usize>>>,
    /// span of the operand label inside the nucleus (for error-span checks), per statement
    pub operand_label_spans: Vec<Option<std::ops::Range<usize>>>,
}

pub fn escape_str(s: &str) -> String {
    let mut o = String::new();
    for (i, c) in s.chars().enumerate() {
        match c {
            // a TAB may be written raw inside a literal: every second one is (so that both spellings occur, and a literal can be shorter than its printed form)
            '\t' if i % 2 == 1 => o.push('\t'),
            '\n' => o.push_str("\\n"), '\r' => o.push_str("\\r"), '\t' => o.push_str("\\t"),
            '\\' => o.push_str("\\\\"), '\0' => o.push_str("\\0"), '"' => o.push_str("\\\""),
            c => o.push(c),
        }
    }
    o
}

struct R<'a> { out: String, line: usize, st: &'a Style }
impl<'a> R<'a> {
    fn eol(&mut self) { self.out.push_str(if self.st.line == LineStyle::CommentsCrlf { "\r\n" } else { "\n" }); self.line += 1; }
    fn sep(&mut self) { self.out.push_str(match self.st.sep { Sep::Space => " ", Sep::Tab => "\t", Sep::Wide => "  \t " }); }
    fn comma(&mut self) { self.out.push_str(match self.st.comma { 0 => ",", 1 => ", ", 2 => " , ", _ => " ,\t" }); }
    fn reg(&mut self, r: u8) { let _ = write!(self.out, "{}{}", if self.st.reg_upper { 'R' } else { 'r' }, r); }
    fn signed(&mut self, v: i16) {
        let p = if self.st.hex_upper { 'X' } else { 'x' };
        match self.st.num {
            NumStyle::Dec => { let _ = write!(self.out, "{v}"); }
            NumStyle::HashDec => { let _ = write!(self.out, "#{v}"); }
            NumStyle::Hex => { if v < 0 { let _ = write!(self.out, "{p}-{:X}", -(v as i32)); } else { let _ = write!(self.out, "{p}{:x}", v); } }
        }
    }
    fn unsigned(&mut self, v: u16) {
        let p = if self.st.hex_upper { 'X' } else { 'x' };
        match self.st.num {
            NumStyle::Dec => { let _ = write!(self.out, "{v}"); }
            NumStyle::HashDec => { let _ = write!(self.out, "#{v}"); }
            NumStyle::Hex => { let _ = write!(self.out, "{p}{:04X}", v); }
        }
    }
    fn tgt(&mut self, t: &Tgt) -> Option<std::ops::Range<usize>> {
        match t { Tgt::Off(o) => { self.signed(*o); None } Tgt::Lab(l) => { let s = self.out.len(); self.out.push_str(l); Some(s..self.out.len()) } }
    }
    fn kw(&mut self, k: &str) { let s = cased(k, self.st.kw); self.out.push_str(&s); }
    fn dir(&mut self, k: &str) { self.out.push('.'); let s = cased(k, self.st.dir); self.out.push_str(&s); }
}

pub fn render(prog: &AProg, style: &Style) -> Rendered {
    let mut r = R { out: String::new(), line: 0, st: style };
    let mut res = Rendered::default();
    if style.leading_blank { r.eol(); r.out.push_str("  "); r.eol(); }
    if style.line == LineStyle::BlankAndCommentLines { r.out.push_str(PAYLOADS[style.payload as usize]); r.eol(); }
    for (si, stmt) in prog.iter().enumerate() {
        if style.gap.0 > 0 && si as u32 % style.gap.1 == style.gap.2 % style.gap.1 {
            for k in 0..style.gap.0 { if k % 2 == 0 { r.out.push_str("; gap"); } else if k % 7 == 1 { r.out.push_str("  "); } r.eol(); }
        }
        if style.indent { r.out.push_str("    "); }
        let mut lspans = vec![];
        for l in &stmt.labels {
            let s = r.out.len();
            r.out.push_str(l);
            lspans.push(s..r.out.len());
            match style.label {
                LabelStyle::SameLine => r.sep(),
                LabelStyle::SameLineColon => { r.out.push(':'); r.sep(); }
                LabelStyle::OwnLine => { r.eol(); if style.indent { r.out.push_str("\t"); } }
                LabelStyle::OwnLineColon => { r.out.push(':'); if style.line != LineStyle::PlainLf { r.out.push(' '); r.out.push_str(PAYLOADS[style.payload as usize]); } r.eol(); }
            }
        }
        res.label_spans.push(lspans);
        let start = r.out.len();
        res.lines.push(r.line);
        let mut opl = None;
        match &stmt.nuc {
            Nuc::Add(d, s, o) | Nuc::And(d, s, o) => {
                r.kw(if matches!(stmt.nuc, Nuc::Add(..)) { "ADD" } else { "AND" }); r.sep(); r.reg(*d); r.comma(); r.reg(*s); r.comma();
                match o { RoI::Reg(x) => r.reg(*x), RoI::Imm(i) => r.signed(*i) }
            }
            Nuc::Not(d, s) => { r.kw("NOT"); r.sep(); r.reg(*d); r.comma(); r.reg(*s); }
            Nuc::Br(m, t) => { r.kw(BR_MNEMONICS[*m as usize].0); r.sep(); opl = r.tgt(t); }
            Nuc::Jmp(b) => { r.kw("JMP"); r.sep(); r.reg(*b); }
            Nuc::Jsr(t) => { r.kw("JSR"); r.sep(); opl = r.tgt(t); }
            Nuc::Jsrr(b) => { r.kw("JSRR"); r.sep(); r.reg(*b); }
            Nuc::Ld(d, t) | Nuc::Ldi(d, t) | Nuc::Lea(d, t) | Nuc::St(d, t) | Nuc::Sti(d, t) => {
                r.kw(match stmt.nuc { Nuc::Ld(..) => "LD", Nuc::Ldi(..) => "LDI", Nuc::Lea(..) => "LEA", Nuc::St(..) => "ST", _ => "STI" });
                r.sep(); r.reg(*d); r.comma(); opl = r.tgt(t);
            }
            Nuc::Ldr(d, b, o) | Nuc::Str(d, b, o) => {
                r.kw(if matches!(stmt.nuc, Nuc::Ldr(..)) { "LDR" } else { "STR" }); r.sep(); r.reg(*d); r.comma(); r.reg(*b); r.comma(); r.signed(*o);
            }
            Nuc::Ret => r.kw("RET"), Nuc::Rti => r.kw("RTI"),
            Nuc::Trap(v) => { r.kw("TRAP"); r.sep(); r.unsigned(*v as u16); }
            Nuc::Nop(None) => r.kw("NOP"),
            Nuc::Nop(Some(t)) => { r.kw("NOP"); r.sep(); opl = r.tgt(t); }
            Nuc::Getc => r.kw("GETC"), Nuc::Out => r.kw("OUT"), Nuc::Putc => r.kw("PUTC"), Nuc::Puts => r.kw("PUTS"),
            Nuc::In => r.kw("IN"), Nuc::Putsp => r.kw("PUTSP"), Nuc::Halt => r.kw("HALT"),
            Nuc::Orig(a) => { r.dir("orig"); r.sep(); r.unsigned(*a); }
            Nuc::End => r.dir("end"),
            Nuc::Fill(FillOp::Num(n)) => {
                r.dir("fill"); r.sep();
                // .fill is sign-agnostic: under decimal notations (and upper-case hex prefix) a word >= x8000 is written as a negative literal
                let signed_form = *n >= 0x8000 && (style.num != NumStyle::Hex || style.hex_upper);
                if signed_form { r.signed(*n as i16); } else { r.unsigned(*n); }
            }
            Nuc::Fill(FillOp::Lab(l)) => { r.dir("fill"); r.sep(); let s = r.out.len(); r.out.push_str(l); opl = Some(s..r.out.len()); }
            Nuc::Blkw(n) => { r.dir("blkw"); r.sep(); r.unsigned(*n); }
            Nuc::Stringz(s) => { r.dir("stringz"); r.sep(); r.out.push('"'); let e = escape_str(s); r.out.push_str(&e); r.out.push('"'); }
            Nuc::External(l) => { r.dir("external"); r.sep(); let s = r.out.len(); r.out.push_str(l); opl = Some(s..r.out.len()); }
        }
        res.spans.push(start..r.out.len());
        res.operand_label_spans.push(opl);
        let last = si + 1 == prog.len();
        match style.line {
            LineStyle::PlainLf => { if !last || style.final_newline { r.eol(); } }
            LineStyle::CommentsCrlf => { r.out.push(' '); r.out.push_str(PAYLOADS[style.payload as usize]); if !last || style.final_newline { r.eol(); } }
            LineStyle::BlankAndCommentLines => {
                if si % 2 == 0 { r.sep(); r.out.push_str(PAYLOADS[style.payload as usize]); }
                if !last || style.final_newline {
                    r.eol();
                    if si % 2 == 1 { r.eol(); r.out.push_str(" \t"); r.eol(); r.out.push_str(PAYLOADS[style.payload as usize]); r.eol(); }
                }
            }
        }
    }
    res.text = r.out;
    res
}

// ------------------------------------------------------------------ enumerators

pub const ORIGINS: [u16; 9] = [0x0000, 0x0001, 0x01FF, 0x0200, 0x2FFF, 0x3000, 0x8000, 0xFDFE, 0xFDFF];
const OFF9: [i16; 7] = [-256, -255, -1, 0, 1, 254, 255];
const OFF11: [i16; 7] = [-1024, -1023, -1, 0, 1, 1022, 1023];
const OFF6: [i16; 7] = [-32, -31, -1, 0, 1, 30, 31];
const IMM5: [i16; 7] = [-16, -15, -1, 0, 1, 14, 15];

/// Every single-statement instance of the grammar (all templates, registers in every position, operand boundary values).
pub fn single_statements() -> Vec<Nuc> {
    let mut v = vec![];
    for d in 0..8 { for s in 0..8 { for t in 0..8 { v.push(Nuc::Add(d, s, RoI::Reg(t))); v.push(Nuc::And(d, s, RoI::Reg(t))); } } }
    for (d, s) in [(0u8, 0u8), (7, 7), (3, 5), (5, 3)] { for i in IMM5 { v.push(Nuc::Add(d, s, RoI::Imm(i))); v.push(Nuc::And(d, s, RoI::Imm(i))); } }
    for d in 0..8 { for s in 0..8 { v.push(Nuc::Not(d, s)); } }
    for m in 0..8 { for o in OFF9 { v.push(Nuc::Br(m, Tgt::Off(o))); } }
    v.push(Nuc::Nop(None));
    for o in OFF9 { v.push(Nuc::Nop(Some(Tgt::Off(o)))); }
    for r in 0..8 { v.push(Nuc::Jmp(r)); v.push(Nuc::Jsrr(r)); }
    for o in OFF11 { v.push(Nuc::Jsr(Tgt::Off(o))); }
    v.push(Nuc::Ret); v.push(Nuc::Rti);
    for r in 0..8 { for o in OFF9 {
        v.push(Nuc::Ld(r, Tgt::Off(o))); v.push(Nuc::Ldi(r, Tgt::Off(o))); v.push(Nuc::Lea(r, Tgt::Off(o)));
        v.push(Nuc::St(r, Tgt::Off(o))); v.push(Nuc::Sti(r, Tgt::Off(o)));
    } }
    for r in 0..8 { for b in [0u8, 6, 7] { for o in OFF6 { v.push(Nuc::Ldr(r, b, o)); v.push(Nuc::Str(r, b, o)); } } }
    for b in 0..8 { v.push(Nuc::Ldr(2, b, 5)); v.push(Nuc::Str(2, b, -5)); }
    for t in [0u8, 1, 0x1F, 0x20, 0x21, 0x22, 0x23, 0x24, 0x25, 0x26, 0x7F, 0x80, 0xFE, 0xFF] { v.push(Nuc::Trap(t)); }
    v.extend([Nuc::Getc, Nuc::Out, Nuc::Putc, Nuc::Puts, Nuc::In, Nuc::Putsp, Nuc::Halt]);
    for n in [0u16, 1, 0x7FFF, 0x8000, 0xFFFF, 0x1234] { v.push(Nuc::Fill(FillOp::Num(n))); }
    for n in [1u16, 2, 5] { v.push(Nuc::Blkw(n)); }
    for s in ["", "a", "a\"\\\n\t\0b", "Hello, World!", "é"] { v.push(Nuc::Stringz(s.to_string())); }
    v
}

/// Wraps statements in `.orig o` … `.end`.
pub fn block(origin: u16, body: Vec<AStmt>) -> AProg {
    let mut p = vec![st(Nuc::Orig(origin))];
    p.extend(body);
    p.push(st(Nuc::End));
    p
}

/// The reduced statement alphabet for multi-statement sequences (one per size class and label behaviour).
/// `t` is the label a label-operand statement refers to.
pub fn reduced_alphabet(t: &str) -> Vec<Nuc> {
    vec![
        Nuc::Add(1, 2, RoI::Reg(3)),
        Nuc::Ld(0, lab(t)), Nuc::St(1, lab(t)), Nuc::Ldi(2, lab(t)), Nuc::Sti(3, lab(t)), Nuc::Lea(4, lab(t)),
        Nuc::Br(4, lab(t)), Nuc::Jsr(lab(t)), Nuc::Nop(Some(lab(t))), Nuc::Fill(FillOp::Lab(t.to_string())),
        Nuc::Fill(FillOp::Num(0x1234)), Nuc::Blkw(1), Nuc::Blkw(3), Nuc::Stringz(String::new()), Nuc::Stringz("ab".into()),
        Nuc::Halt, Nuc::Ret, Nuc::Trap(0x30), Nuc::Nop(None), Nuc::Ldr(1, 6, -1),
    ]
}
pub const SEQ_LABELS: [&str; 4] = ["LA", "Lb", "l_C", "ENDL"];

/// All sequences of exactly `n` statements (n<=3) over the reduced alphabet, with a label on every statement and on `.end`,
/// every label operand bound to every position (0..=n). Index space: returns count; `nth` builds one.
pub struct SeqSpace { pub n: usize, alpha: usize }
impl SeqSpace {
    pub fn new(n: usize) -> Self { SeqSpace { n, alpha: reduced_alphabet("X").len() } }
    /// upper bound of the index space (sequences × target choices); indices whose target choice is redundant return None
    pub fn count(&self) -> u64 { (self.alpha as u64).pow(self.n as u32) * ((self.n as u64 + 1).pow(self.n as u32)) }
    pub fn nth(&self, mut i: u64, origin: u16, ref_case: u8) -> Option<AProg> {
        let mut body = vec![];
        let mut idxs = vec![];
        for _ in 0..self.n { idxs.push((i % self.alpha as u64) as usize); i /= self.alpha as u64; }
        for (p, &a) in idxs.iter().enumerate() {
            let tsel = (i % (self.n as u64 + 1)) as usize; i /= self.n as u64 + 1;
            let tname = SEQ_LABELS[if tsel == self.n { 3 } else { tsel }];
            let tref = match ref_case { 0 => tname.to_string(), 1 => tname.to_ascii_uppercase(), _ => tname.to_ascii_lowercase() };
            let nuc = reduced_alphabet(&tref)[a].clone();
            if nuc.label_operand().is_none() && tsel != 0 { return None; } // target choice irrelevant: keep only tsel==0
            body.push(lst(SEQ_LABELS[p], nuc));
        }
        let mut p = vec![st(Nuc::Orig(origin))];
        p.extend(body);
        p.push(lst(SEQ_LABELS[3], Nuc::End));
        Some(p)
    }
}

/// Programs whose PC-relative label offsets land at, just inside and one past each field limit (via `.blkw` padding).
pub fn offset_limit_programs() -> Vec<(String, AProg)> {
    let mut v = vec![];
    let nine: Vec<(&str, Box<dyn Fn(Tgt) -> Nuc>)> = vec![
        ("LD", Box::new(|t| Nuc::Ld(0, t))), ("ST", Box::new(|t| Nuc::St(0, t))), ("LDI", Box::new(|t| Nuc::Ldi(0, t))), ("STI", Box::new(|t| Nuc::Sti(0, t))),
        ("LEA", Box::new(|t| Nuc::Lea(0, t))), ("BR", Box::new(|t| Nuc::Br(0, t))), ("NOP", Box::new(|t| Nuc::Nop(Some(t)))),
    ];
    for (name, mk) in &nine {
        for k in [253u16, 254, 255, 256] {
            // forward: offset = k ; limit 255
            v.push((format!("{name} fwd pad {k}"), block(0x3000, vec![st(mk(lab("T"))), st(Nuc::Blkw(k)), lst("T", Nuc::Fill(FillOp::Num(7)))])));
            // backward: offset = -(k+2); limit -256 at k=254
            v.push((format!("{name} back pad {k}"), block(0x3000, vec![lst("T", Nuc::Fill(FillOp::Num(7))), st(Nuc::Blkw(k)), st(mk(lab("T")))])));
        }
    }
    for k in [1021u16, 1022, 1023, 1024] {
        v.push((format!("JSR fwd pad {k}"), block(0x3000, vec![st(Nuc::Jsr(lab("T"))), st(Nuc::Blkw(k)), lst("T", Nuc::Ret)])));
        v.push((format!("JSR back pad {k}"), block(0x3000, vec![lst("T", Nuc::Ret), st(Nuc::Blkw(k)), st(Nuc::Jsr(lab("T")))])));
    }
    // offsets that wrap through x0000: JSR near the top of memory to a label near the bottom (two blocks)
    for (o, t) in [(0xFDF0u16, 0x0005u16), (0xFDFEu16, 0x0000), (0x0000, 0xFDFF), (0xFD00, 0x00F0)] {
        let mut p = block(o, vec![st(Nuc::Jsr(lab("T")))]);
        p.extend(block(t, vec![lst("T", Nuc::Ret)]));
        v.push((format!("JSR x{o:04X} -> x{t:04X}"), p));
        let mut p = block(o, vec![st(Nuc::Ld(1, lab("T")))]);
        p.extend(block(t, vec![lst("T", Nuc::Ret)]));
        v.push((format!("LD x{o:04X} -> x{t:04X}"), p));
    }
    v
}

/// Multi-block layouts: 2–3 blocks over origins with sizes giving touching / gap-1 / far / overlapping arrangements, every source order.
pub fn block_layouts() -> Vec<(String, AProg)> {
    let mut v = vec![];
    let mk = |o: u16, n: u16, tag: &str, refl: Option<&str>| -> AProg {
        let mut body = vec![];
        for k in 0..n {
            let nuc = if k == 0 { match refl { Some(l) => Nuc::Fill(FillOp::Lab(l.to_string())), None => Nuc::Fill(FillOp::Num(0x1000 + k)) } } else { Nuc::Fill(FillOp::Num(0x1000 + k)) };
            body.push(if k == 0 { lst(tag, nuc) } else { st(nuc) });
        }
        block(o, body)
    };
    let bases = [0x0000u16, 0x3000, 0xFDF0];
    for &b in &bases {
        for n1 in [0u16, 1, 4] { for delta in [0i32, 1, 3, 4, 5, 0x100] { for n2 in [0u16, 1, 4] {
            let o2 = b as i32 + delta; if o2 > 0xFDFC { continue; }
            let a = mk(b, n1, "BA", Some("BB")); let c = mk(o2 as u16, n2, "BB", Some("BA"));
            let mut p1 = a.clone(); p1.extend(c.clone());
            let mut p2 = c; p2.extend(a);
            v.push((format!("2 blocks x{b:04X}+{n1}, +{delta}+{n2}"), p1));
            v.push((format!("2 blocks rev x{b:04X}+{n1}, +{delta}+{n2}"), p2));
        } } }
    }
    // three blocks, all 6 source orders, middle one possibly inside/overlapping
    for (o, n) in [([0x3000u16, 0x3004, 0x3008], [4u16, 4, 4]), ([0x3000, 0x3004, 0x3008], [4, 5, 4]), ([0x3000, 0x3002, 0x3010], [0x20, 1, 1]),
                   ([0x3000, 0x3010, 0x3008], [2, 2, 9]), ([0x3000, 0x3000, 0x3008], [0, 3, 1]), ([0x0000, 0x8000, 0xFDFC], [2, 2, 4]), ([0x0000, 0x8000, 0xFDFC], [2, 2, 5])] {
        let bl: Vec<AProg> = (0..3).map(|k| mk(o[k], n[k], ["BA", "BB", "BC"][k], Some(["BB", "BC", "BA"][k]))).collect();
        for perm in [[0, 1, 2], [0, 2, 1], [1, 0, 2], [1, 2, 0], [2, 0, 1], [2, 1, 0]] {
            let mut p = vec![]; for k in perm { p.extend(bl[k].clone()); }
            v.push((format!("3 blocks {o:x?} sizes {n:?} order {perm:?}"), p));
        }
    }
    // reservation-only blocks (.blkw: every word of the block uninitialised) next to, touching and overlapping filled or reserved blocks
    let mkr = |o: u16, n: u16, tag: &str, one: bool| -> AProg { if one { block(o, vec![lst(tag, Nuc::Blkw(n))]) } else { block(o, (0..n).map(|k| if k == 0 { lst(tag, Nuc::Blkw(1)) } else { st(Nuc::Blkw(1)) }).collect()) } };
    for &b in &[0x3000u16, 0xFDF0] { for delta in [0i32, 1, 2, 3, 4, 5] { for (n1, n2) in [(4u16, 1u16), (4, 4), (1, 4), (1, 1)] { for kind in 0..5u8 {
        let o2 = (b as i32 + delta) as u16;
        let (a, c) = match kind { 0 => (mkr(b, n1, "BA", true), mk(o2, n2, "BB", None)), 1 => (mk(b, n1, "BA", None), mkr(o2, n2, "BB", true)), 2 => (mkr(b, n1, "BA", true), mkr(o2, n2, "BB", true)), 3 => (mkr(b, n1, "BA", false), mk(o2, n2, "BB", None)), _ => (mkr(b, n1, "BA", false), mkr(o2, n2, "BB", false)) };
        let mut p1 = a.clone(); p1.extend(c.clone()); let mut p2 = c; p2.extend(a);
        v.push((format!("2 blocks (reserved kind {kind}) x{b:04X}+{n1}, +{delta}+{n2}"), p1));
        v.push((format!("2 blocks rev (reserved kind {kind}) x{b:04X}+{n1}, +{delta}+{n2}"), p2));
    } } } }
    v
}
