//! Object-file families: the link family F (small files with shared / conflicting / external labels and
//! touching / overlapping blocks) and the wider family of assembled and linked objects.
use super::families::*;
use super::prog::*;
use lc3_ensemble::asm::{assemble, assemble_debug, ObjectFile};
use lc3_ensemble::parse::parse_ast;

fn f(n: u16) -> Nuc { Nuc::Fill(FillOp::Num(n)) }
fn fl(l: &str) -> Nuc { Nuc::Fill(FillOp::Lab(l.to_string())) }

/// The link family: ~40 abstract files.
pub fn link_family() -> Vec<(String, AProg)> {
    let mut v: Vec<(String, AProg)> = vec![];
    // definers: label L at origin o with n words
    for (l, o, n) in [("A", 0x3000u16, 2u16), ("A", 0x3000, 1), ("A", 0x3004, 2), ("a", 0x4000, 1), ("B", 0x3002, 2), ("B", 0x3008, 4), ("C", 0x0000, 1), ("C", 0x3001, 1)] {
        let mut body = vec![lst(l, f(0x1100 + n))];
        for k in 1..n { body.push(st(f(0x1200 + k))); }
        v.push((format!("def {l}@x{o:04X}+{n}"), block(o, body)));
    }
    // users: external L used in .fill at origin o
    for (l, o, decl) in [("A", 0x5000u16, 0u8), ("A", 0x5000, 1), ("A", 0x5010, 2), ("B", 0x5020, 0), ("b", 0x5030, 1), ("C", 0x5040, 0)] {
        let mut p = vec![];
        if decl == 0 { p.push(st(Nuc::External(l.to_string()))); }
        let mut body = vec![st(f(0x2200)), st(fl(l))];
        if decl == 1 { body.insert(0, st(Nuc::External(l.to_string()))); }
        body.push(lst(&format!("U{o:04X}"), fl(&l.to_ascii_lowercase())));
        p.extend(block(o, body));
        if decl == 2 { p.push(st(Nuc::External(l.to_ascii_lowercase()))); }
        v.push((format!("use {l}@x{o:04X} decl{decl}"), p));
    }
    // definer + user in one file
    v.push(("def A use B".into(), { let mut p = vec![st(Nuc::External("B".into()))]; p.extend(block(0x6000, vec![lst("A", fl("B")), st(f(1))])); p }));
    v.push(("def B use A".into(), { let mut p = vec![st(Nuc::External("A".into()))]; p.extend(block(0x6100, vec![lst("B", fl("A")), st(fl("B"))])); p }));
    v.push(("def B use A (overlaps def A use B)".into(), { let mut p = vec![st(Nuc::External("A".into()))]; p.extend(block(0x6001, vec![lst("B", fl("A"))])); p }));
    v.push(("use A and B and C".into(), { let mut p = vec![st(Nuc::External("A".into())), st(Nuc::External("B".into())), st(Nuc::External("C".into()))]; p.extend(block(0x6200, vec![st(fl("A")), st(fl("B")), st(fl("C")), st(fl("a"))])); p }));
    // pure externals without use, pure data without labels, code with local labels
    v.push(("declare A only".into(), vec![st(Nuc::External("A".into()))]));
    v.push(("data no labels".into(), block(0x7000, vec![st(f(7)), st(Nuc::Blkw(2)), st(f(8))])));
    v.push(("data no labels touching def A@3000+2".into(), block(0x3002, vec![st(f(7)), st(f(8))])));
    v.push(("data overlapping def A@3000+2".into(), block(0x3001, vec![st(f(7))])));
    v.push(("data containing".into(), block(0x2FFF, vec![st(Nuc::Blkw(0x20))])));
    v.push(("empty source".into(), vec![]));
    v.push(("empty block".into(), block(0x3000, vec![])));
    v.push(("local code".into(), block(0x7100, vec![lst("LOC", Nuc::Ld(0, lab("LOCD"))), st(Nuc::Halt), lst("LOCD", f(3))])));
    v.push(("local code same labels elsewhere".into(), block(0x7200, vec![lst("LOC", Nuc::Halt), lst("LOCD", f(3))])));
    v.push(("local code same labels same place".into(), block(0x7100, vec![lst("LOC", Nuc::Halt), st(Nuc::Halt), lst("LOCD", f(4))])));
    v.push(("same label same address disjoint block".into(), { let mut p = block(0x70FF, vec![st(f(1))]); p.last_mut().unwrap().labels = vec!["LOC".into()]; p }));
    // two blocks in one file
    v.push(("two blocks def A, D".into(), { let mut p = block(0x3000, vec![lst("A", f(1))]); p.extend(block(0x8000, vec![lst("D", fl("A")), st(Nuc::Stringz("x".into()))])); p }));
    v.push(("two blocks around x3002".into(), { let mut p = block(0x3001, vec![st(f(1))]); p.extend(block(0x3003, vec![st(f(2))])); p }));
    v.push(("label at zero C and data".into(), block(0x0000, vec![lst("C", f(0xC0)), st(f(0xC1))])));
    // scale: 6 externals used 8 times each (48 relocation entries, 6 labels bound by one link) and the file that defines them
    v.push(("use EXT0-5 x8".into(), { let mut p: AProg = (0..6).map(|e| st(Nuc::External(format!("Ext{e}")))).collect(); let mut body = vec![]; for u in 0..8 { for e in 0..6 { body.push(st(fl(&format!("{}{e}", if u % 2 == 0 { "EXT" } else { "ext" })))); } } p.extend(block(0x9000, body)); p }));
    v.push(("def EXT0-5".into(), block(0x9100, (0..6).map(|e| lst(&format!("EXT{e}"), f(0x1300 + e))).collect())));
    // definers without a single word: the label sits on the .end of an empty block (the file has labels but no blocks)
    for (l, o) in [("A", 0x4000u16), ("A", 0x3000), ("B", 0x3002), ("EXT3", 0x9103)] { v.push((format!("def {l}@x{o:04X}+0 (label on .end of an empty block)"), { let mut p = block(o, vec![]); p.last_mut().unwrap().labels = vec![l.to_string()]; p })); }
    v.push(("high block".into(), { let mut p = vec![st(Nuc::External("A".into()))]; p.extend(block(0xFDFE, vec![lst("HI", fl("HI")), st(fl("A"))])); p }));
    v
}

pub fn assemble_prog(p: &AProg, debug: bool, style: &Style) -> Option<(ObjectFile, String)> {
    let text = render(p, style).text;
    let ast = parse_ast(&text).ok()?;
    let o = if debug { assemble_debug(ast, &text) } else { assemble(ast) }.ok()?;
    Some((o, text))
}

pub struct ObjCase { pub desc: String, pub obj: ObjectFile }

/// Assembled link family (with debug symbols): (description, abstract program, object, source text)
pub fn link_objs() -> Vec<(String, AProg, ObjectFile, String)> {
    link_family().into_iter().filter_map(|(d, p)| { let (o, t) = assemble_prog(&p, true, &Style::plain())?; Some((d, p, o, t)) }).collect()
}

/// The wide object family: assembled programs (debug on/off, two styles) and successful links of up to 3 link-family members.
pub fn obj_family(thorough: bool) -> Vec<ObjCase> {
    let fam = Families::new();
    let mut v = vec![];
    let styles = [Style::plain(), Style::primary(3887).with_secondary(37), Style::primary(2100).with_secondary(70)];
    let mut add = |desc: String, p: &AProg| {
        for (si, s) in styles.iter().enumerate() { for debug in [true, false] {
            if !debug && si > 0 { continue; }
            if let Some((o, _)) = assemble_prog(p, debug, s) { v.push(ObjCase { desc: format!("{desc} [style {si} debug {debug}]"), obj: o }); }
        } }
    };
    for (d, p) in &fam.base { add(format!("base {d}"), p); }
    for (d, p) in &fam.lab { add(format!("lab {d}"), p); }
    for (d, p) in fam.blk.iter().step_by(if thorough { 1 } else { 5 }) { add(format!("blk {d}"), p); }
    for (d, p) in fam.fence.iter().step_by(if thorough { 1 } else { 3 }) { add(format!("fence {d}"), p); }
    for (d, p) in fam.f1.iter().step_by(if thorough { 3 } else { 23 }) { add(format!("f1 {d}"), p); }
    for (d, p) in link_family() { add(format!("linkfam {d}"), &p); }
    let sp = SeqSpace::new(2);
    for i in (0..sp.count()).step_by(if thorough { 3 } else { 17 }) { if let Some(p) = sp.nth(i, 0x3000, 0) { add(format!("S2 {i}"), &p); } }
    // linked results
    let lo = link_objs();
    for i in 0..lo.len() { for j in 0..lo.len() {
        if let Ok(ij) = ObjectFile::link(lo[i].2.clone(), lo[j].2.clone()) {
            if thorough || (i + j) % 3 == 0 {
                for k in (0..lo.len()).step_by(if thorough { 2 } else { 7 }) {
                    if let Ok(ijk) = ObjectFile::link(ij.clone(), lo[k].2.clone()) { v.push(ObjCase { desc: format!("link(link({},{}),{})", lo[i].0, lo[j].0, lo[k].0), obj: ijk }); }
                }
            }
            v.push(ObjCase { desc: format!("link({},{})", lo[i].0, lo[j].0), obj: ij });
        }
    } }
    // links mixing debug and no-debug members
    let nd: Vec<_> = link_family().into_iter().filter_map(|(d, p)| assemble_prog(&p, false, &Style::plain()).map(|x| (d, x.0))).collect();
    for i in (0..lo.len()).step_by(3) { for j in (0..nd.len()).step_by(4) {
        if let Ok(o) = ObjectFile::link(lo[i].2.clone(), nd[j].1.clone()) { v.push(ObjCase { desc: format!("link({},nodebug {})", lo[i].0, nd[j].0), obj: o }); }
        if let Ok(o) = ObjectFile::link(nd[j].1.clone(), lo[i].2.clone()) { v.push(ObjCase { desc: format!("link(nodebug {},{})", nd[j].0, lo[i].0), obj: o }); }
    } }
    // scale family: long labels, hundreds of blocks / labels / statements, long initialized runs, and (under the 16-lines-per-statement gap
    // style) sources of more than 10^4 and more than 2^16 lines
    let gap16 = Style::plain().with_secondary(1 + 160 * 4);
    for (d, p) in &fam.big {
        if d.contains("declared twice") || d.contains("undefined") { continue; }
        if let Some((o, _)) = assemble_prog(p, true, &Style::plain()) { v.push(ObjCase { desc: format!("big {d} [debug]"), obj: o }); }
        if d.contains("blocks") || d.contains("labelled statements") { if let Some((o, _)) = assemble_prog(p, true, &gap16) { v.push(ObjCase { desc: format!("big {d} [debug, 16 comment lines before every statement]"), obj: o }); } }
        if d.contains("externals") || d.contains("stringz of 5000") { if let Some((o, _)) = assemble_prog(p, false, &Style::plain()) { v.push(ObjCase { desc: format!("big {d} [no debug]"), obj: o }); } }
    }
    // sources (kept in the debug symbols) that consist almost entirely of multi-byte characters, shifted by 0..3 ASCII bytes, so that every
    // byte offset of a long text falls inside a 2-, a 3- and a 4-byte character in one of them (any fixed-size buffering of the text cuts one);
    // the same characters as a long label name and in a long string literal
    for (ch, w) in [('é', 2usize), ('€', 3), ('𝄞', 4)] { for shift in 0..w { for total in [5_000usize, 70_000] {
        let body: String = std::iter::repeat(ch).take(total / w).collect();
        let src = format!("{};{body}\n.orig x3000\nL{} .fill 7 ;{body}\nS .stringz \"{}\"\n.end ;{body}", "a".repeat(shift), if ch == '𝄞' { String::new() } else { std::iter::repeat(ch).take(40).collect::<String>() }, std::iter::repeat(ch).take(300 + shift).collect::<String>());
        let src = if shift == 0 { src } else { format!(";{}", &src) };
        if let Ok(ast) = parse_ast(&src) { if let Ok(o) = assemble_debug(ast, &src) { v.push(ObjCase { desc: format!("dense {w}-byte characters, shifted by {shift}, {total} bytes of comment [debug]"), obj: o }); } }
    } } }
    v.push(ObjCase { desc: "ObjectFile::empty()".into(), obj: ObjectFile::empty() });
    v
}
