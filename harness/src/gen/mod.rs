pub mod prog;
pub mod project;
pub mod families;
pub mod objs;
