//! Projection of the subject's parsed `Stmt` onto the abstract statement type (labels by name, spans dropped),
//! because `ast::Label` equality includes the source position.
use super::prog::*;
use lc3_ensemble::ast::asm::{AsmInstr, Directive, Stmt, StmtKind};
use lc3_ensemble::ast::{ImmOrReg, PCOffset};

fn tgt<const N: u32>(p: &PCOffset<i16, N>) -> Tgt {
    match p { PCOffset::Offset(o) => Tgt::Off(o.get()), PCOffset::Label(l) => Tgt::Lab(l.name.clone()) }
}
fn roi(o: &ImmOrReg<5>) -> RoI { match o { ImmOrReg::Imm(i) => RoI::Imm(i.get()), ImmOrReg::Reg(r) => RoI::Reg(r.reg_no()) } }
/// canonical mnemonic index for a condition mask (so BR and BRnzp compare equal)
pub fn br_index(nzp: u8) -> u8 {
    match nzp { 4 => 1, 2 => 2, 1 => 3, 6 => 4, 5 => 5, 3 => 6, 7 => 7, _ => 8 }
}
pub fn normalize(n: &Nuc) -> Nuc {
    match n {
        Nuc::Br(m, t) => Nuc::Br(br_index(BR_MNEMONICS[*m as usize].1), t.clone()),
        Nuc::Nop(None) => Nuc::Nop(Some(Tgt::Off(0))),
        other => other.clone(),
    }
}
pub fn project_nuc(k: &StmtKind) -> Nuc {
    match k {
        StmtKind::Instr(i) => match i {
            AsmInstr::ADD(d, s, o) => Nuc::Add(d.reg_no(), s.reg_no(), roi(o)),
            AsmInstr::AND(d, s, o) => Nuc::And(d.reg_no(), s.reg_no(), roi(o)),
            AsmInstr::BR(cc, t) => Nuc::Br(br_index(*cc), tgt(t)),
            AsmInstr::JMP(b) => Nuc::Jmp(b.reg_no()),
            AsmInstr::JSR(t) => Nuc::Jsr(tgt(t)),
            AsmInstr::JSRR(b) => Nuc::Jsrr(b.reg_no()),
            AsmInstr::LD(d, t) => Nuc::Ld(d.reg_no(), tgt(t)),
            AsmInstr::LDI(d, t) => Nuc::Ldi(d.reg_no(), tgt(t)),
            AsmInstr::LDR(d, b, o) => Nuc::Ldr(d.reg_no(), b.reg_no(), o.get()),
            AsmInstr::LEA(d, t) => Nuc::Lea(d.reg_no(), tgt(t)),
            AsmInstr::NOT(d, s) => Nuc::Not(d.reg_no(), s.reg_no()),
            AsmInstr::RET => Nuc::Ret,
            AsmInstr::RTI => Nuc::Rti,
            AsmInstr::ST(d, t) => Nuc::St(d.reg_no(), tgt(t)),
            AsmInstr::STI(d, t) => Nuc::Sti(d.reg_no(), tgt(t)),
            AsmInstr::STR(d, b, o) => Nuc::Str(d.reg_no(), b.reg_no(), o.get()),
            AsmInstr::TRAP(v) => Nuc::Trap(v.get() as u8),
            AsmInstr::NOP(t) => Nuc::Nop(Some(tgt(t))),
            AsmInstr::GETC => Nuc::Getc, AsmInstr::OUT => Nuc::Out, AsmInstr::PUTC => Nuc::Putc, AsmInstr::PUTS => Nuc::Puts,
            AsmInstr::IN => Nuc::In, AsmInstr::PUTSP => Nuc::Putsp, AsmInstr::HALT => Nuc::Halt,
        },
        StmtKind::Directive(d) => match d {
            Directive::Orig(a) => Nuc::Orig(a.get()),
            Directive::Fill(PCOffset::Offset(o)) => Nuc::Fill(FillOp::Num(o.get())),
            Directive::Fill(PCOffset::Label(l)) => Nuc::Fill(FillOp::Lab(l.name.clone())),
            Directive::Blkw(n) => Nuc::Blkw(n.get()),
            Directive::Stringz(s) => Nuc::Stringz(s.clone()),
            Directive::End => Nuc::End,
            Directive::External(l) => Nuc::External(l.name.clone()),
        },
    }
}
pub fn project(s: &Stmt) -> AStmt {
    AStmt { labels: s.labels.iter().map(|l| l.name.clone()).collect(), nuc: project_nuc(&s.nucleus) }
}
pub fn normalize_stmt(s: &AStmt) -> AStmt { AStmt { labels: s.labels.clone(), nuc: normalize(&s.nuc) } }
