#!/bin/bash
# usage: tools/confirm_seed.sh <ID> <A|B>
# Confirms a sub-agent's seeded change independently in a fresh scratch worktree (outside /repo and /verif):
#   unchanged tree: demo passes; changed tree: 35 lib tests pass and demo fails.
# Then runs the property's quick check (and thorough if quick misses) against /repo with the change applied, reverts, and
# records everything under /verif/seeded/<ID>_<X>/ (patch.diff, demo.rs, meta.json).
set -u
id="$1"; x="$2"
src=${SEED_SRC:-/tmp/seeded}/$id
patch=$src/patch_$x.diff; demo=$src/demo_$x.rs
[ -s "$patch" ] && [ -s "$demo" ] || { echo "missing $patch or $demo"; exit 2; }
wt=/var/tmp/confirm-$id-$x
rm -rf "$wt"; git -C /repo worktree prune
git -C /repo worktree add -q "$wt" HEAD || exit 2
cleanup() { git -C /repo worktree remove --force "$wt" 2>/dev/null; rm -rf "$wt"; }
trap cleanup EXIT
cd "$wt" || exit 2
mkdir -p tests; cp "$demo" tests/demo_$x.rs
flags=""
[ "$id" = "C15" ] && export RUSTFLAGS="--cfg endorpersand_lc3_ensemble_verif"
base_demo=$(cargo test --offline --test demo_$x 2>&1 | grep -E "^test result" | head -1)
git apply "$patch" || { echo "PATCH DOES NOT APPLY"; exit 3; }
lib=$(cargo test --offline --lib 2>&1 | grep -E "^test result" | head -1)
mut_demo=$(cargo test --offline --test demo_$x 2>&1 | grep -E "^test result" | head -1)
doc=$(cargo test --offline --doc 2>&1 | grep -E "^test result" | head -1)
unset RUSTFLAGS
echo "unchanged demo : $base_demo"
echo "changed   lib  : $lib"
echo "changed   demo : $mut_demo"
echo "changed   doc  : $doc"
ok=1
echo "$base_demo" | grep -q "ok\." || ok=0
echo "$lib" | grep -q "ok. 35 passed" || ok=0
echo "$mut_demo" | grep -q "FAILED" || ok=0
if [ $ok -ne 1 ]; then echo "NOT CONFIRMED"; exit 4; fi
cd /verif
q=$(tools/try_patch.sh "$patch" quick "$id" 2>&1 | tail -1)
echo "quick   : $q"
t=""
if echo "$q" | grep -q "rc=0"; then t=$(tools/try_patch.sh "$patch" thorough "$id" 2>&1 | tail -1); echo "thorough: $t"; fi
out=/verif/seeded/${id}_$x
mkdir -p "$out"; cp "$patch" "$out/patch.diff"; cp "$demo" "$out/demo.rs"; [ -f "$src/notes_$x.txt" ] && cp "$src/notes_$x.txt" "$out/notes.txt"
python3 - "$id" "$x" "$base_demo" "$lib" "$mut_demo" "$doc" "$q" "$t" <<'PY'
import json,sys
id,x,base,lib,mut,doc,q,t=sys.argv[1:9]
notes=""
try: notes=open(__import__("os").environ.get("SEED_SRC","/tmp/seeded")+f"/{id}/notes_{x}.txt").read()
except Exception: pass
meta={"property":id,"variant":x,"origin":"independent sub-agent given only the property text and a scratch worktree",
 "needs_to_manifest":notes.strip()[:1500],
 "confirmed":{"unchanged_demo":base,"changed_lib_tests":lib,"changed_demo":mut,"changed_doctests":doc,"how":"tools/confirm_seed.sh in a fresh scratch worktree under /var/tmp (removed afterwards)"},
 "detection":{"quick":q,"thorough":t or "(not needed: quick detects)"}}
json.dump(meta,open(f"/verif/seeded/{id}_{x}/meta.json","w"),indent=1)
PY
echo "recorded in $out"
