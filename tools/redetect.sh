#!/bin/bash
# usage: tools/redetect.sh <ID> <X>  — re-runs the property's quick (then thorough) check against an already confirmed seed and updates meta.json
id="$1"; x="$2"; d=/verif/seeded/${id}_$x
[ -s "$d/patch.diff" ] || { echo "no $d"; exit 2; }
cd /verif
q=$(tools/try_patch.sh "$d/patch.diff" quick "$id" 2>&1 | tail -1); t=""
if echo "$q" | grep -q "rc=0"; then t=$(tools/try_patch.sh "$d/patch.diff" thorough "$id" 2>&1 | tail -1); fi
python3 - "$d" "$q" "$t" <<'PY'
import json,sys
d,q,t=sys.argv[1:4]
m=json.load(open(d+"/meta.json"))
prev=m.get("detection",{})
if prev.get("quick") and "rc=0" in prev["quick"] and "rc=1" in q: m.setdefault("history",[]).append({"earlier_result":prev,"note":"missed by the first version of the check; the check was strengthened (see DESIGN.md 9.5)"})
m["detection"]={"quick":q,"thorough":t or "(not needed: quick detects)"}
json.dump(m,open(d+"/meta.json","w"),indent=1)
PY
echo "$id $x: $q"
