#!/bin/bash
# usage: tools/try_patch.sh <patch.diff> [tier] [ID...]   — applies a seeded change to /repo, runs the given checks (default: all), reverts.
# Prints one line per check: ID rc first-violation-signature. Never leaves /repo modified.
set -u
patch="$1"; tier="${2:-quick}"; shift; shift || true
ids=("$@"); [ ${#ids[@]} -eq 0 ] && ids=($(seq -f "C%02g" 1 36))
cd /repo || exit 2
if [ -n "$(git status --porcelain --untracked-files=no)" ]; then echo "/repo has uncommitted changes; refusing" >&2; exit 2; fi
git apply "$patch" || { echo "patch does not apply" >&2; exit 2; }
# evidence written while /repo is modified must never persist: restore the committed evidence as well
trap 'git -C /repo checkout -- . ; git -C /verif checkout -- evidence' EXIT
cd /verif
./check setup >/dev/null 2>&1 || { echo "BUILD FAILED with patch"; exit 2; }
for id in "${ids[@]}"; do
    out=$(timeout 600 target/release/lc3mc check "$id" "$tier" 2>&1); rc=$?
    sig=$(echo "$out" | grep -m1 "^violation" | cut -c1-220)
    echo "$id rc=$rc $sig"
done
