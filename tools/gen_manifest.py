#!/usr/bin/env python3
"""Regenerates /verif/MANIFEST.json from the table below and from `lc3mc list` (which properties have an engine)."""
import json, subprocess, sys, os

P = {
 "C01": ("bounded-exhaustive enumeration of the statement grammar (every opcode/alias, operand boundary values, label bindings, multi-block layouts) on the real parser+assembler, each image compared word-for-word with an independent two-pass reference assembler",
         "exhaustive program enumeration + reference assembler", "programs are bounded (<=3-4 statements over a reduced alphabet beyond single statements); RefAsm is trusted"),
 "C02": ("every single (and, on a subset, double) injected well-formedness fault at every placement over a base family of programs; accept/reject and error kind compared with the reference well-formedness predicate; panics caught",
         "exhaustive fault-placement enumeration + reference predicate", "fault alphabet and base programs are finite; any one violated condition is accepted as the error kind; 'ignoring case' is read as equality under str::to_uppercase for every cased letter of Unicode (family CASE)"),
 "C03": ("full product of surface-syntax style dimensions over abstract programs rendered to text; parse result compared with the abstract program, spans with the renderer's bookkeeping, and all renderings assembled to one image",
         "exhaustive layout enumeration (metamorphic + reference)", "style dimensions are those of the renderer; label names avoid documented lexer collisions"),
 "C04": ("all strings up to a length bound over an alphabet with one symbol per lexer/escape branch, plus all <=k byte edits of valid programs and literal-size ladders, each parsed under catch_unwind with span checks",
         "exhaustive short-string + k-edit enumeration", "alphabet is branch-covering, not all of Unicode; lengths are bounded"),
 "C05": ("every integer in [-70000,140000] in every notation, with leading zeros, as bare token and as operand of every field width; acceptance and value compared with arithmetic predicates",
         "exhaustive integer-window enumeration", "window plus 10^k/2^k ladders up to 39 digits"),
 "C06": ("complete: all 65536 words and all representable instructions against an ISA-table reference decoder/encoder", "complete enumeration of the word space", "reference table trusted"),
 "C07": ("complete over words: every word disassembled, printed, re-parsed and re-assembled at 5 origins", "complete enumeration of the word space x origins", "origins are a boundary set of 5, not all addresses"),
 "C08": ("every instruction word in a grid of machine contexts single-stepped on the real simulator in lock-step with an independent LC-3 reference interpreter, plus all programs of <=3 instructions over an instruction alphabet and interrupt placements",
         "exhaustive word x context sweep + bounded program enumeration, lock-step reference model", "RefLC3 encodes a reading of the ISA (assumptions A1-A10 in DESIGN.md)"),
 "C09": ("every access-making and control-transfer instruction form aimed at every boundary address from user mode, judged by an independent attempt classifier; plus the all-words sweep restricted to user mode",
         "exhaustive addressing-mode x boundary-address enumeration", "address alphabet is a boundary set"),
 "C10": ("every placement of <=k interrupt requests (two devices, competing priorities, keyboard and timer variants) over the instruction boundaries of short programs; gating/entry state checked at every poll and final state compared with the 0-interrupt run",
         "deviation-bounded schedule enumeration (iterative context bounding)", "programs and handler shapes are fixed; k<=2 quick, 3 thorough"),
 "C11": ("every trap routine called with every string/queue/register preset of a bounded alphabet; outputs, consumed input and preserved state compared with the documented contract",
         "bounded-exhaustive input enumeration", "strings <=3-4 symbols over a boundary alphabet"),
 "C12": ("every program of the bounded family run under virtual and real traps; halting and faulting runs compared per the property", "paired-run enumeration over a bounded program family", "program family bounded; horizon-ended runs are counted, not judged"),
 "C13": ("explicit-state BFS over histories of run/step/breakpoint/MCR operations on the real simulator, each operation compared with a twin driven only by step_in and the documented stop rules; states deduplicated by an implementation fingerprint; plus exhaustive comparator-breakpoint and MCR-word families (the program's own store to xFFFE: stop decided from bit 15 of the stored word)",
         "explicit-state BFS over operation histories + step-wise reference executor", "8 programs (two under real traps raising exceptions; +1 deep-recursion program on fixed histories); 24 operations; depth <=5 quick/8 thorough; plus a comparator family (8 comparators x 8 operands x register/memory x 4 run styles)"),
 "C14": ("paired strict/non-strict runs from identical Known-initialised machines over the bounded program family and targeted jump/IO/blkw/stack programs; plus fully-initialised machines", "paired-run enumeration", "bounded program family"),
 "C15": ("per-bit truth tables for AND/NOT (complete) and all completions of uninitialised bits over mask/base grids for ADD/SUB/AND/NOT; fully-initialised operands over boundary x all (quick) or all 2^32 pairs (thorough)",
         "exhaustive completion enumeration through hook H1", "mask positions {0,1,2,14,15}"),
 "C16": ("every word at boundary PCs x register presets x all 16 flag sets with devices attached, and uniform images of every word run across the address wrap, all under catch_unwind with overflow checks on",
         "exhaustive word x flag-set sweep", "panics judged with overflow-checks+debug-assertions (Cargo dev-profile semantics)"),
 "C17": ("every object of a generated family (debug on/off, externals, .external anywhere, multi-block, linked results) through serialize/deserialize, compared with derived equality", "exhaustive object-family enumeration", "family bounded"),
 "C18": ("as C17 for the text format, plus every source text of <=3 tokens over a hostile-character alphabet", "exhaustive object-family + hostile-source enumeration", "family bounded"),
 "C19": ("all short byte strings after the header, every truncation / byte / field edit of valid blobs and every line edit of valid text files, each pushed through read, re-serialize, link and load under catch_unwind",
         "exhaustive short-input + k-edit enumeration", "edits <=1 quick / 2 thorough on a base set"),
 "C20": ("all ordered pairs, all triples in all orders and bracketings (and quadruples, thorough) of a link family, against a reference linker and against each other", "exhaustive order/bracketing enumeration + reference linker", "family of ~45 files; labels compared ignoring case = equality under str::to_uppercase for every letter"),
 "C21": ("every placement of .external relative to its uses x debug on/off x direct load / link-then-load in both orders", "exhaustive placement enumeration", "small program family"),
 "C22": ("every ordered pair/triple of debug-symbol files linked; every address's line text and every label span checked against the originating file", "exhaustive link-order enumeration", "family bounded"),
 "C23": ("every label of every generated program queried in 4 spellings plus absent names across all four lookup APIs", "exhaustive query enumeration over generated programs", "ASCII labels (property precondition)"),
 "C24": ("every layout of the renderer (label-only lines, comments, CRLF, blank lines, .external placement) checked line<->address in both directions against the renderer's bookkeeping", "exhaustive layout enumeration", "layout dimensions of the renderer"),
 "C25": ("all strings up to length 6/8 over {a,space,tab,LF,CR,e-acute}, every index to len+10, against a reference written from the doc comments", "exhaustive short-string x index enumeration", "alphabet of 6 symbols"),
 "C26": ("every error produced while exploring C02 faults and C20 failing links: span accessors exercised under catch_unwind, spans checked against the source", "rides on the C02/C20 explorations", "same bounds as C02/C20"),
 "C27": ("all programs of <=4 call/return instructions x debug frames on/off x one interrupt at every boundary x registered signatures; depth and frame entries compared with a reference counter", "bounded program + interrupt-placement enumeration", "instruction alphabet of ~10"),
 "C28": ("the all-words sweep and the bounded program family with the reference interpreter's access log compared with the observer per step and per run", "exhaustive sweep + reference access log", "non-strict mode (property precondition)"),
 "C29": ("every object of the family loaded under Known/Seeded/Unseeded strategies with full 64K before/after comparison; twice; after execution", "exhaustive object-family x strategy enumeration", "family bounded"),
 "C30": ("explicit-state BFS over configuration/execution histories with reset appended after every prefix, compared with a fresh simulator", "explicit-state BFS over operation histories", "27 operations; depth <=4 quick/7 thorough"),
 "C31": ("grid of seeds x strategies x timer ranges x programs, two independently built simulators compared step by step", "paired-run enumeration over a configuration grid", "grid is finite"),
 "C32": ("explicit-state BFS over add/remove/set/mmap/munmap/read/write histories with recording devices against a port-table reference; fingerprint is the real handler's Debug state", "explicit-state BFS + reference port table", "41 operations; depth <=4 quick/7 thorough"),
 "C33": ("every pattern of <=k lock holds (by the harness holding the real RwLock) over instruction boundaries (quick) or individual lock attempts via hook H3 (thorough) of echo programs; all 2^n patterns for single-byte programs", "deviation-bounded schedule enumeration over try-lock answers", "other thread only holds/appends/drains"),
 "C34": ("every sample sequence (hook H2 branches over the whole range at each sample) for all small ranges and exact counts, with enable/disable/reset deviations, against a countdown reference", "exhaustive environment-answer enumeration through hook H2", "ranges within 0..=4, exact n<=8; one supplementary sub-check (the timer on its own generator, unseeded and under 3 seeds, 4000 polls per range) is a sound membership test on sampled draws, not an exhaustive exploration, and is counted separately in the evidence"),
 "C35": ("complete: every i16 and u16 for every N in 1..=16 through new and new_trunc", "complete enumeration", "none beyond the arithmetic reference"),
 "C36": ("every statement obtained by parsing the generated programs printed and re-parsed, compared through a span-insensitive projection", "exhaustive statement enumeration", "string literals restricted as the property states"),
}

def main():
    here = os.path.dirname(os.path.abspath(__file__))
    binp = "/verif/target/release/lc3mc"
    have = set(subprocess.run([binp, "list"], capture_output=True, text=True).stdout.split())
    commits = subprocess.run(["git", "-C", "/repo", "log", "--format=%H %s"], capture_output=True, text=True).stdout.splitlines()
    hook_commits = [l.split()[0] for l in commits if "verif hook" in l]
    checks, na = [], []
    na_reasons = {}
    p = os.path.join(here, "not_applicable.json")
    if os.path.exists(p): na_reasons = json.load(open(p))
    for pid in sorted(P):
        text, tech, note = P[pid]
        if pid in have and pid not in na_reasons:
            checks.append({
                "property_id": pid,
                "quick_cmd": f"./check {pid} quick",
                "thorough_cmd": f"./check {pid} thorough",
                "evidence_file": f"/verif/evidence/{pid}.json",
                "replay_cmd_template": "./check replay {path}",
                "engine": "lc3mc",
                "level_claimed": {"category": "model_checking", "text": text, "design_ref": f"DESIGN.md section 4, {pid}; as built: section 9"},
                "level_note": note + "; the small scope is complemented by enumerated non-initial states (reused / reset simulators, operation histories), flag and entry-point variants, and a scale family at sizes on both sides of the representation thresholds 2^5..2^16 (DESIGN.md 9.5, rounds 2-4), by alphabets chosen by roles and relations (round 5) and by one step of object life cycle in front of the oracle (reuse after reset / a failed call / a query / a load, registration while running; round 6) - between thresholds nothing is claimed; real code is executed for every explored case (no separate model), panics judged under overflow-checks",
                "technique": tech,
            })
        else:
            na.append({"property_id": pid, "reason": na_reasons.get(pid, "engine not built yet at this commit (planned per DESIGN.md section 4); not claimed")})
    m = {
        "version": 1,
        "setup_cmd": "./check setup",
        "hooks": {
            "guard": "endorpersand_lc3_ensemble_verif",
            "enable": "RUSTFLAGS/--cfg endorpersand_lc3_ensemble_verif via /verif/harness/.cargo/config.toml (build.rustflags); the harness depends on /repo by path",
            "baseline_off_cmd": "cd /repo && cargo test --workspace --no-fail-fast --offline",
            "source_commits": hook_commits,
            "add_only": True,
        },
        "engines": [{"name": "lc3mc", "path": "/verif/harness", "serves_properties": sorted(have),
                     "kind_free_text": "hand-rolled bounded-exhaustive explorers in Rust over the real crate: exhaustive input sweeps, explicit-state BFS over operation histories, deviation-bounded schedule/environment enumeration; lock-step reference models"}],
        "checks": checks,
        "not_applicable": na,
        "notes": "All checks run the real lc3-ensemble code from /repo's working tree. Exit 2 = machinery error. Known findings: /verif/KNOWN_FINDINGS.txt.",
    }
    json.dump(m, open("/verif/MANIFEST.json", "w"), indent=1)
    print(f"claimed {len(checks)}; not claimed {len(na)}")

main()
