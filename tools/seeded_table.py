#!/usr/bin/env python3
"""Prints the markdown detection table from /verif/seeded/*/meta.json (used for DESIGN.md 9.5)."""
import json,glob,os,re
rows=[]
for d in sorted(glob.glob('/verif/seeded/*/')):
    m=json.load(open(d+'meta.json'))
    notes=m.get('needs_to_manifest','').strip().split('\n')
    what=notes[0][:170] if notes else ''
    det=m['detection']
    q=det['quick']; t=det.get('thorough','')
    tier='quick' if 'rc=1' in q else ('thorough' if 'rc=1' in t else 'MISSED')
    sig=re.search(r'sig=(\S+)', q if 'rc=1' in q else t)
    hist=' (missed by the first version; check strengthened)' if m.get('history') else ''
    rows.append(f"| {m['property']} {m['variant']} | {what.replace('|','/')} | {tier}{hist} | `{sig.group(1) if sig else ''}` |")
print("| seed | change (first line of the author's notes) | caught by | first signature |\n|---|---|---|---|")
print("\n".join(rows))
