#!/bin/bash
# watcher: every 20 s, start confirm8 for any seed whose three files exist and that has not been started; at most 4 at a time
while true; do
  [ -f /var/tmp/c8/stop ] && exit 0
  for d in /tmp/seeded8/C*/; do id=$(basename $d)
    if [ -s $d/patch_I.diff ] && [ -s $d/demo_I.rs ] && [ -s $d/notes_I.txt ] && [ ! -e /var/tmp/c8/$id.started ]; then
      # wait until the files have been quiet for 60 s (the agent re-checks the clean tree after saving)
      age=$(( $(date +%s) - $(stat -c %Y $d/notes_I.txt) )); [ $age -lt 60 ] && continue
      [ $(ls /var/tmp/c8/*.running 2>/dev/null | wc -l) -ge 4 ] && continue
      touch /var/tmp/c8/$id.started /var/tmp/c8/$id.running
      ( /var/tmp/confirm8.sh $id > /var/tmp/c8/$id.log 2>&1; rm -f /var/tmp/c8/$id.running ) &
    fi
  done
  sleep 20
done
