#!/bin/bash
# usage: devtry.sh <patch> <ID...> : applies patch to /var/tmp/repo-clean, builds dev harness, runs quick checks, reverts
patch="$1"; shift
cd /var/tmp/repo-clean || exit 2
git checkout -q -- . ; git apply "$patch" || { echo "patch does not apply"; exit 2; }
trap 'git -C /var/tmp/repo-clean checkout -q -- .' EXIT
cd /var/tmp/dev-harness && cargo build --release --offline 2>&1 | grep -E "^error" -A8 | head -20
for id in "$@"; do out=$(LC3MC_EVIDENCE_DIR=/var/tmp/dev-evidence LC3MC_OS_ASM=/var/tmp/repo-clean/src/os.asm timeout 600 /var/tmp/dev-target/release/lc3mc check "$id" quick 2>&1); rc=$?; echo "$id rc=$rc $(echo "$out" | grep -m1 "^violation\|MACHINERY" | cut -c1-260)"; done
