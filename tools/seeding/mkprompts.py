import json, os, glob
props=[json.loads(l) for l in open('/verif/properties.jsonl')]
for p in props:
    i=p['id']
    prev=[]
    for d in sorted(glob.glob(f'/verif/seeded/{i}_*')):
        v=d.rsplit('_',1)[1]
        m=json.load(open(d+'/meta.json'))
        t=' '.join(m.get('needs_to_manifest','').split())[:330]
        prev.append(f'  - {v}: {t}')
    wt=f'/tmp/wt8-{i}'; out=f'/tmp/seeded8/{i}'
    os.makedirs(out,exist_ok=True)
    txt=f"""You are helping to evaluate a verification harness by seeding a realistic defect into a Rust library.

The library is lc3-ensemble (an LC-3 assembler + simulator). You have your own scratch git worktree of it at {wt} (build with `cargo build --offline`, test with `cargo test --offline --lib`; there is no network). Work ONLY inside {wt} and {out}. Do not read or use anything under /verif, /root/.vp, /var/tmp, /tmp/seeded, /tmp/seeded2, /tmp/seeded3, /tmp/seeded4, /tmp/seeded5, /tmp/seeded6 or /tmp/seeded7, and do not touch /repo. Do NOT use `git stash` (stashes are shared between worktrees); to undo your change use `git -C {wt} checkout -- src`.

Here is one semantic property of the library:

-----
{i} — {p['title']}

{p['statement']}

Quantified over: {p['quantifier']}
-----

The following seeded defects already exist for this property (do NOT repeat their mechanism or trigger):
{chr(10).join(prev)}

Your task: produce ONE new source change ("I") to the library (files under {wt}/src, including src/os.asm if useful) such that:
  1. it still compiles, and the existing unit tests still pass (`cargo test --offline --lib` shows 35 passed); the doctests (`cargo test --offline --doc`, 29) should preferably still pass too — say so if they do not;
  2. it BREAKS the property above as it is literally stated (re-read the statement: the demo must show a violation of what the statement promises, not of some neighbouring expectation or implementation detail the statement leaves open), in a way a real maintainer could plausibly introduce during a refactoring, optimisation, clean-up, feature addition or bug fix. No `cfg`, environment variables or anything deliberately hidden;
  3. it is an ORDINARY slip, the kind code review sees every week, made at or next to the mechanism the property is anchored in (see "Where the property lives" below): a wrong comparison or boundary, a swapped argument or operand order, a missing or extra negation, a forgotten case in a match, a wrong constant / mask / shift, an update done before instead of after a check, a field not copied or not reset, an early return that skips a step, the wrong variable of two similar ones, a wrapping instead of checked (or checked instead of wrapping) operation. Small diff (1-10 lines). It must be different from the defects listed above, and it must need *something* specific to show (the 35 unit tests and the doctests keep passing), but do not go out of your way to hide it.

Where the property lives (from the property record): {json.dumps(p['anchors'])}

Deliver, under {out}/:
  - patch_I.diff : output of `git -C {wt} diff` with ONLY the change applied (must apply to a clean checkout of the worktree's HEAD with `git apply`);
  - demo_I.rs    : a self-contained Rust integration test (to be dropped into {wt}/tests/demo_I.rs; public API `lc3_ensemble::...` only) with one #[test] that PASSES on the unchanged library and FAILS with the change, in well under a minute; a comment at the top explains what breaks, citing the sentence of the property statement that is violated, and what is needed to trigger it;
  - notes_I.txt  : 5-10 lines: what was changed, the trigger, why you think a small-scope exhaustive checker would miss it, why existing tests do not notice, and the exact commands you ran with their observed results.

Procedure: apply the change; run `cargo test --offline --lib` (must be 35 passed); copy the demo into tests/ and run `cargo test --offline --test demo_I` (must fail); save the diff; `git -C {wt} checkout -- src`; run the demo again (must pass). Leave the worktree clean (you may leave tests/).

Useful facts: public API entry points are lc3_ensemble::parse::parse_ast, lc3_ensemble::asm::{{assemble, assemble_debug, ObjectFile}}, lc3_ensemble::asm::encoding::{{BinaryFormat, TextFormat, ObjFileFormat}}, lc3_ensemble::sim::{{Simulator, SimFlags, ...}}, lc3_ensemble::sim::device::*, lc3_ensemble::sim::mem::*. Ignore code behind `cfg(endorpersand_lc3_ensemble_verif)` (test hooks; not compiled in your builds).

Finish with a short report: what the change is, the trigger, and the four observations (lib tests pass / demo fails with change; lib tests pass / demo passes without).
"""
    open(out+'/PROMPT.txt','w').write(txt)
print('ok')
