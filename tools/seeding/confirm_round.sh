#!/bin/bash
# usage: confirm6.sh <ID>  — confirm round-6 seed in scratch worktree, detect with dev2 harness (flock-serialised), record under /verif/seeded/<ID>_G
set -u
id="$1"; x=I
src=/tmp/seeded8/$id
patch=$src/patch_$x.diff; demo=$src/demo_$x.rs
[ -s "$patch" ] && [ -s "$demo" ] || { echo "missing $patch or $demo"; exit 2; }
wt=/var/tmp/confirm-$id-$x
rm -rf "$wt"; git -C /repo worktree prune
git -C /repo worktree add -q --detach "$wt" HEAD || exit 2
cleanup() { git -C /repo worktree remove --force "$wt" 2>/dev/null; rm -rf "$wt"; }
trap cleanup EXIT
cd "$wt" || exit 2
mkdir -p tests; cp "$demo" tests/demo_$x.rs
[ "$id" = "C15" ] && export RUSTFLAGS="--cfg endorpersand_lc3_ensemble_verif"
base_demo=$(cargo test --offline --test demo_$x 2>&1 | grep -E "^test result" | head -1)
git apply "$patch" || { echo "PATCH DOES NOT APPLY"; exit 3; }
lib=$(cargo test --offline --lib 2>&1 | grep -E "^test result" | head -1)
mut_out=$(cargo test --offline --test demo_$x 2>&1)
mut_demo=$(echo "$mut_out" | grep -E "^test result" | head -1)
[ -z "$mut_demo" ] && mut_demo=$(echo "$mut_out" | grep -E "process didn't exit|SIG|abort|overflow" | head -2 | tr '\n' ' ')
doc=$(cargo test --offline --doc 2>&1 | grep -E "^test result" | head -1)
unset RUSTFLAGS
echo "unchanged demo : $base_demo"
echo "changed   lib  : $lib"
echo "changed   demo : $mut_demo"
echo "changed   doc  : $doc"
ok=1
echo "$base_demo" | grep -q "ok\." || ok=0
echo "$lib" | grep -q "ok. 35 passed" || ok=0
echo "$mut_demo" | grep -q "FAILED\|SIG\|didn't exit" || ok=0
if [ $ok -ne 1 ]; then echo "NOT CONFIRMED"; exit 4; fi
q=$(cd /verif && flock /var/tmp/repo.lock tools/try_patch.sh "$patch" quick "$id" 2>&1 | tail -1)
echo "quick: $q"
out=/verif/seeded/${id}_$x
mkdir -p "$out"; cp "$patch" "$out/patch.diff"; cp "$demo" "$out/demo.rs"; [ -f "$src/notes_$x.txt" ] && cp "$src/notes_$x.txt" "$out/notes.txt"
python3 - "$id" "$x" "$base_demo" "$lib" "$mut_demo" "$doc" "$q" <<'PY'
import json,sys
id,x,base,lib,mut,doc,q=sys.argv[1:8]
notes=""
try: notes=open(f"/tmp/seeded8/{id}/notes_{x}.txt").read()
except Exception: pass
meta={"property":id,"variant":x,"origin":"independent sub-agent given only the property text and a scratch worktree",
 "needs_to_manifest":notes.strip()[:1500],
 "confirmed":{"unchanged_demo":base,"changed_lib_tests":lib,"changed_demo":mut,"changed_doctests":doc,"how":"confirmed in a fresh scratch worktree under /var/tmp (removed afterwards)"},
 "detection":{"quick":q,"thorough":"(see history)" if "rc=0" in q else "(not needed: quick detects)"}}
json.dump(meta,open(f"/verif/seeded/{id}_{x}/meta.json","w"),indent=1)
PY
echo "recorded in $out"
